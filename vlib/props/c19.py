"""C19 — No input file can crash, hang or over-read a parser.

Parts (each decided by the machinery of the check that owns the code; this module only combines them and adds the
build-description clause):

  ninja-lexer   theorems LLBuild.NinjaLexer.C19_*  (Props/C19Ninja.lean); correspondence + token oracle of
                vlib/props/c17lex.py (`correspond_lex`) on the real Lexer under ASan+UBSan
  makedeps      theorems LLBuild.MakeDeps.C19_*    (Props/C19Deps.lean);  vlib/props/c11.py `corr_makedeps`
  depinfo       theorems LLBuild.DepInfo.C19_*     (Props/C19Deps.lean);  vlib/props/c11.py `corr_depinfo`
  ninja-loader  theorem  LLBuild.NinjaLoader.C19_loader_total (Props/C17Load.lean); the manifest stream of
                vlib/props/c17load.py through the real ManifestLoader (here: the ASan+UBSan build), judged only on
                "came back and reported through the error callback" (crash / hang / no manifest)
  yaml          Shape generator below -> well-formed YAML build descriptions -> the real buildsystem::BuildFile
                loader under ASan+UBSan (harness/vc19yaml.cpp, modes file / system); python oracle: terminates
                within the watchdog, no sanitizer report / signal, problems only via the error callbacks (a null
                description always comes with at least one error callback; every error token lies inside the
                parsed buffer).
  yamlmodel     theorems LLBuild.BuildFileLoader.C19_yaml_* (Props/C19Yaml.lean) over the loader model
                Model/BuildFileLoader.lean (BuildFileImpl of lib/BuildSystem/BuildFile.cpp); the same generator's
                documents through harness mode `model` (node tree of the real YAML parser + the real load()'s complete
                stream of delegate calls / error callbacks / result under a scripted delegate) and through the Lean
                driver mode c19yaml; line-for-line equality.

Oracle failures of the delegated passes that concern another property (keyword recognition, round trips,
differences from Ninja's semantics) are counted (coverage.not_this_property) and left to C17 / C11."""
import json, os, re, threading
from .. import common as C
from ..runner import PropertyCheck, Result
from . import c11, c17lex, c17load
from .c17 import absorb, interleave_samples, uniq

YAML_HARNESS = ("vc19yaml", "asan")
LOADER_ASAN = ("vc17load", "asan")
MAX_DEPTH_QUICK, MAX_DEPTH_THOROUGH = 2000, 20000

LEX_THEOREMS = [t for t in c17lex.CHECK.theorems if ".C19_" in t]
LOADER_THEOREMS = ["LLBuild.NinjaLoader.C19_loader_total"]
# the build-description (YAML) loader: Props/C19Yaml.lean over Model/BuildFileLoader.lean
YAML_THEOREMS = ["LLBuild.BuildFileLoader." + t for t in (
    "C19_yaml_loader_total", "C19_yaml_depth_irrelevant", "C19_yaml_error_token_in_tree", "C19_yaml_no_crash",
    "C19_yaml_null_implies_error", "C19_yaml_null_implies_error_full_false", "C19_yaml_null_implies_error_partial",
    "C19_yaml_error_classes", "C19_yaml_recoverable_classes", "C19_yaml_section_order", "C19_yaml_unknown_key_reported",
    "C19_yaml_duplicate_reported", "C19_yaml_duplicates_silently_accepted", "C19_yaml_delegate_protocol")]

# which oracle verdicts of the delegated passes are C19 verdicts
LEX_ORACLES = {"sanitizer", "termination", "protocol", "tile", "eof"}
DEPS_KINDS = {"hang", "sanitizer-abort", "outside-buffer", "position-outside"}


# ------------------------------------------------------------------------------------------------
# YAML documents as trees; emitters that only produce well-formed YAML
# ------------------------------------------------------------------------------------------------
class S:            # scalar
    def __init__(self, text, plain=False):
        self.text, self.plain = text, plain


class L:            # sequence
    def __init__(self, items):
        self.items = list(items)


class M:            # mapping: list of (key node, value node); duplicate and non-scalar keys allowed
    def __init__(self, items):
        self.items = [list(kv) for kv in items]


class N:            # null (an omitted mapping value; `~` elsewhere)
    pass


class R:            # raw flow-safe text: alias, anchored / tagged node
    def __init__(self, text):
        self.text = text


class Deep:         # `inner` wrapped in `depth` one-element sequences (kind 0) or one-entry mappings (kind 1); a leaf for tree surgery
    def __init__(self, inner, depth, kind):
        self.inner, self.depth, self.kind = inner, depth, kind


PLAIN_OK = re.compile(r"[A-Za-z0-9_./<][A-Za-z0-9_./<>+= -]*[A-Za-z0-9_./<>+=-]\Z|[A-Za-z0-9_./<]\Z")


def dq(text):
    out = ['"']
    for ch in text:
        o = ord(ch)
        if ch in '"\\':
            out.append("\\" + ch)
        elif ch == "\n":
            out.append("\\n")
        elif ch == "\t":
            out.append("\\t")
        elif o < 0x20 or o == 0x7f:
            out.append("\\x%02X" % o)
        else:
            out.append(ch)
    out.append('"')
    return "".join(out)


def flow(n, as_value=False):
    if isinstance(n, S):
        if n.plain and PLAIN_OK.match(n.text):
            return n.text
        return dq(n.text)
    if isinstance(n, N):
        return "" if as_value else "~"
    if isinstance(n, R):
        return n.text
    if isinstance(n, Deep):
        return ("[" if n.kind == 0 else "{k: ") * n.depth + flow(n.inner, n.kind == 1) + ("]" if n.kind == 0 else "}") * n.depth
    if isinstance(n, L):
        return "[" + ", ".join(flow(x) for x in n.items) + "]"
    parts = []
    for k, v in n.items:
        # non-scalar keys are written as implicit keys (`[a]: v`): the vendored parser rejects the explicit `? key` form
        # inside nested flow collections
        ks = flow(k) + (" " if isinstance(k, R) else "")
        vs = flow(v, True)
        parts.append(ks + ": " + vs)
    return "{" + ", ".join(parts) + "}"


def simple_keys(m):
    return all(isinstance(k, S) for k, _ in m.items)


def block(n, ind, rng, depth=0):
    """block-style lines for n at indentation `ind`; nested collections are written block- or flow-style at random"""
    if isinstance(n, M) and n.items and simple_keys(n) and depth < 6:
        lines = []
        for k, v in n.items:
            if isinstance(v, (M, L)) and v.items and rng.chance(3, 4) and (not isinstance(v, M) or simple_keys(v)):
                lines.append(ind + flow(k) + ":")
                lines += block(v, ind + "  ", rng, depth + 1)
            else:
                vs = flow(v, True)
                lines.append(ind + flow(k) + ": " + vs)
        return lines
    if isinstance(n, L) and n.items and depth < 6:
        return [ind + "- " + flow(x) for x in n.items]
    return [ind + flow(n)]


def emit(doc, rng, style):
    """doc: a tree (or a list of trees = several documents)"""
    docs = doc if isinstance(doc, list) else [doc]
    out = []
    for i, d in enumerate(docs):
        if i or style == 2:
            out.append("---")
        if style == 0 or not isinstance(d, (M, L)):
            out.append(flow(d))
        else:
            out += block(d, "", rng)
    text = "\n".join(out) + "\n"
    if style == 2:
        text = "# build description\n" + text + "...\n"
    return text.encode("utf-8")


# ------------------------------------------------------------------------------------------------
# shape generator
# ------------------------------------------------------------------------------------------------
BOOL = ["true", "false"]
CMD_COMMON = [("allow-missing-inputs", "b"), ("allow-modified-outputs", "b"), ("always-out-of-date", "b"),
              ("repair-via-ownership-analysis", "b")]
SHELL_ATTRS = CMD_COMMON + [("args", "sl"), ("env", "m"), ("inherit-env", "b"), ("deps", "sl"), ("deps-style", "e:makefile,dependency-info,makefile-ignoring-subsequent-outputs"),
                            ("signature", "s"), ("working-directory", "s"), ("can-safely-interrupt", "b"), ("control-enabled", "b")]
NODE_ATTRS = [("type", "e:plain,directory,directory-structure,virtual"), ("is-directory", "b"), ("is-virtual", "b"), ("is-directory-structure", "b"),
              ("is-command-timestamp", "b"), ("is-mutated", "b"), ("content-exclusion-patterns", "l"), ("must-scan-after-paths", "l")]
TOOLS = {
    "file": {"vtool": {"tool": [("opt", "s"), ("opts", "l"), ("optmap", "m")], "cmd": SHELL_ATTRS, "valid": True}},
    "system": {
        "shell": {"tool": [], "cmd": SHELL_ATTRS, "valid": True},
        "phony": {"tool": [], "cmd": CMD_COMMON, "valid": True},
        "mkdir": {"tool": [], "cmd": CMD_COMMON, "valid": False},
        "symlink": {"tool": [], "cmd": CMD_COMMON + [("contents", "s"), ("link-output-path", "s")], "valid": False},
        "archive": {"tool": [], "cmd": CMD_COMMON, "valid": False},
        "shared-library": {"tool": [], "cmd": CMD_COMMON + [("compiler-style", "e:clang,swiftc"), ("executable", "s"), ("other-args", "sl"), ("objects", "l")], "valid": False},
        "clang": {"tool": [], "cmd": CMD_COMMON + [("args", "sl"), ("deps", "s")], "valid": False},
        "stale-file-removal": {"tool": [], "cmd": CMD_COMMON + [("expectedOutputs", "l"), ("roots", "l")], "valid": False},
        "swift-compiler": {"tool": [], "cmd": CMD_COMMON + [("executable", "s"), ("module-name", "s"), ("module-aliases", "l"), ("module-output-path", "s"), ("sources", "sl"),
                                                             ("objects", "sl"), ("import-paths", "sl"), ("temps-path", "s"), ("other-args", "sl"), ("is-library", "b"),
                                                             ("enable-whole-module-optimization", "b"), ("num-threads", "s")], "valid": False},
    },
}
WORDS = ["a", "b.c", "out/x.o", "<all>", "<stamp>", "dir/", "dir/sub/y", "with space", "q\"uote", "back\\slash", "é", "", "0", "yes", "tool", "client", "-", "~", "[x]", "{", "#c", "a: b", "\x01"]
NODE_NAMES = ["a.c", "b.c", "out/a.o", "out/b.o", "<all>", "<stamp>", "gen/", "gen/x.h", "out/", "lib.a", "dir with space/f"]


class Shapes:
    def __init__(self, rng, mode, max_depth):
        self.rng, self.mode, self.max_depth = rng, mode, max_depth
        self.tools = TOOLS[mode]

    # ---- values -------------------------------------------------------------------------------
    def word(self):
        return self.rng.choice(WORDS)

    def sc(self, text):
        return S(text, plain=self.rng.chance(1, 2))

    def value(self, kind, right=True):
        r = self.rng
        if not right:
            kind = r.choice([k for k in ("s", "l", "m", "n", "ll", "mm", "r") if k != kind[:1] and not (kind == "sl" and k in "sl")])
        if kind == "b":
            return self.sc(r.choice(BOOL))
        if kind.startswith("e:"):
            return self.sc(r.choice(kind[2:].split(",")))
        if kind == "s" or (kind == "sl" and r.chance(1, 2)):
            return self.sc(self.word())
        if kind in ("l", "sl"):
            return L([self.sc(self.word()) for _ in range(r.below(4))])
        if kind == "m":
            return M([(self.sc(self.word() or "k"), self.sc(self.word())) for _ in range(r.below(4))])
        if kind == "n":
            return N()
        if kind == "ll":
            return L([L([self.sc(self.word())]), M([(self.sc("k"), self.sc("v"))]), N()])
        if kind == "mm":
            return M([(self.sc("k"), L([self.sc("v")])), (self.sc("k2"), M([(self.sc("x"), N())]))])
        return R(r.choice(["*anchor0", "&a1 \"v\"", "!!str \"v\"", "!custom [1, 2]", "!!map {a: b}", "&a2 [x, y]"]))

    def attrs(self, table, n, valid):
        out = []
        for _ in range(n):
            if valid or self.rng.chance(3, 4):
                name, kind = self.rng.choice(table) if table else ("x-unknown", "s")
                out.append((self.sc(name), self.value(kind, valid or self.rng.chance(3, 4))))
            else:
                out.append((self.sc(self.rng.choice(["unknown-attribute", "Args", "inputs ", "tool", "", "description2"])),
                            self.value(self.rng.choice(["s", "l", "m", "n"]))))
        return out

    # ---- a (mostly) valid description -----------------------------------------------------------
    def description(self, valid):
        r = self.rng
        names = [t for t, d in self.tools.items() if d["valid"] or not valid]
        nodes = r.shuffle(NODE_NAMES)[: 2 + r.below(5)]
        client = [(self.sc("name"), self.sc("vclient"))]
        if r.chance(1, 2):
            client.append((self.sc("version"), self.sc("0")))
        if r.chance(1, 4):
            client.append((self.sc("perform-ownership-analysis"), self.sc(r.choice(["yes", "no"]))))
        if r.chance(1, 4):
            client.append((self.sc("file-system"), self.sc(r.choice(["default", "device-agnostic", "checksum-only"]) if valid else self.word())))
        if r.chance(1, 6):
            client.append((self.sc("x-prop"), self.sc(self.word())))
        secs = [("client", M(client))]
        if r.chance(1, 2):
            tl = []
            for t in r.shuffle(names)[: 1 + r.below(2)]:
                tl.append((self.sc(t), M(self.attrs(self.tools[t]["tool"], r.below(3) if self.tools[t]["tool"] else 0, valid))))
            secs.append(("tools", M(tl)))
        targets = []
        if r.chance(3, 4):
            for t in ["", "all", "tests"][: 1 + r.below(3)]:
                targets.append((self.sc(t), L([self.sc(r.choice(nodes)) for _ in range(r.below(3))])))
            secs.append(("targets", M(targets)))
            if r.chance(1, 2):
                secs.append(("default", self.sc(targets[r.below(len(targets))][0].text)))
        if r.chance(1, 2):
            nl = []
            for nname in r.shuffle(nodes)[: 1 + r.below(3)]:
                nl.append((self.sc(nname), M(self.attrs(NODE_ATTRS, r.below(3), valid))))
            secs.append(("nodes", M(nl)))
        cmds = []
        for i in range(r.below(4) if r.chance(7, 8) else 0):
            t = r.choice(names)
            body = [(self.sc("tool"), self.sc(t))]
            if r.chance(3, 4):
                body.append((self.sc("inputs"), L([self.sc(r.choice(nodes)) for _ in range(r.below(3))])))
            if r.chance(3, 4):
                body.append((self.sc("outputs"), L([self.sc(r.choice(nodes) if not valid else "out/c%d-%d" % (i, j)) for j in range(r.below(3))])))
            if r.chance(1, 3):
                body.append((self.sc("description"), self.sc(self.word())))
            extra = self.attrs(self.tools[t]["cmd"], r.below(4), valid)
            if valid:
                seen = set()
                extra = [kv for kv in extra if not (kv[0].text in seen or seen.add(kv[0].text))]
                if self.tools[t]["cmd"] is SHELL_ATTRS:      # a shell command needs a non-empty command line
                    extra = [kv for kv in extra if kv[0].text != "args"] + [(self.sc("args"), r.choice([self.sc("true"), L([self.sc("echo"), self.sc(self.word())])]))]
            body += extra
            cmds.append((self.sc("C%d" % i if valid or r.chance(7, 8) else "C0"), M(body)))
        if cmds or r.chance(1, 4):
            secs.append(("commands", M(cmds)))
        return M([(self.sc(k), v) for k, v in secs])

    # ---- tree surgery -------------------------------------------------------------------------
    def positions(self, root):
        """(container, index, slot) for every node below root; slot 0 = key, 1 = value, None = sequence item"""
        out, todo = [], [root]
        while todo:
            n = todo.pop()
            if isinstance(n, L):
                for i, x in enumerate(n.items):
                    out.append((n, i, None))
                    todo.append(x)
            elif isinstance(n, M):
                for i, (k, v) in enumerate(n.items):
                    out.append((n, i, 0))
                    out.append((n, i, 1))
                    todo += [k, v]
        return out

    @staticmethod
    def get(pos):
        c, i, s = pos
        return c.items[i] if s is None else c.items[i][s]

    @staticmethod
    def put(pos, node):
        c, i, s = pos
        if s is None:
            c.items[i] = node
        else:
            c.items[i][s] = node

    def maps(self, root):
        out, todo = [], [root]
        while todo:
            n = todo.pop()
            if isinstance(n, M):
                out.append(n)
                for k, v in n.items:
                    todo += [k, v]
            elif isinstance(n, L):
                todo += n.items
        return out

    def nest(self, node, depth, kind):
        if depth > 40:
            return Deep(node, depth, kind)
        for _ in range(depth):
            node = L([node]) if kind == 0 else M([(S("k", True), node)])
        return node

    def mutate(self, root):
        """one shape error; returns (root or list of documents, label)"""
        r = self.rng
        k = r.below(16)
        pos = self.positions(root)
        if k == 0 and pos:                       # wrong node kind anywhere
            p = r.choice(pos)
            old = self.get(p)
            kind = "s" if isinstance(old, S) else "l" if isinstance(old, L) else "m" if isinstance(old, M) else "n"
            self.put(p, self.value(kind, right=False))
            return root, "wrong-kind"
        if k == 1:                               # wrong kind of a whole section / of the root
            if r.chance(1, 3):
                return self.value(r.choice(["s", "l", "n", "r", "ll"])), "root-not-a-map"
            i = r.below(len(root.items))
            root.items[i][1] = self.value("m", right=False)
            return root, "section-wrong-kind"
        if k == 2:                               # missing section(s)
            i = 0 if r.chance(1, 2) else r.below(len(root.items))
            del root.items[i]
            return root, "missing-client" if i == 0 else "missing-section"
        if k == 3:                               # duplicate section
            i = r.below(len(root.items))
            root.items.insert(r.below(len(root.items) + 1), [root.items[i][0], root.items[i][1]])
            return root, "duplicate-section"
        if k == 4:                               # misordered sections
            root.items = r.shuffle(root.items)
            return root, "misordered-sections"
        if k == 5:                               # unknown top-level section
            root.items.insert(r.below(len(root.items) + 1), [self.sc(r.choice(["extra", "Client", "command", "tools2", ""])), self.value(r.choice(["s", "l", "m", "n"]))])
            return root, "unknown-section"
        if k == 6:                               # unknown tool
            ms = [m for m in self.maps(root) if any(isinstance(kk, S) and kk.text == "tool" for kk, _ in m.items)]
            name = r.choice(["nope", "", "Shell", "vtool2", "phony ", "shell\x00"])
            if ms:
                m = r.choice(ms)
                for kv in m.items:
                    if isinstance(kv[0], S) and kv[0].text == "tool":
                        kv[1] = self.sc(name)
            else:
                root.items.append([self.sc("tools"), M([(self.sc(name), M([]))])])
                root.items = [root.items[0], root.items[-1]] + root.items[1:-1]
            return root, "unknown-tool"
        if k == 7:                               # unknown / ill-typed attribute somewhere
            ms = self.maps(root)
            m = r.choice(ms)
            m.items.insert(r.below(len(m.items) + 1), [self.sc(r.choice(["unknown-attribute", "args", "type", "inputs", "env", "x"])), self.value(r.choice(["s", "l", "m", "n", "ll", "mm", "r"]))])
            return root, "unknown-attribute"
        if k == 8:                               # duplicate / dropped / reordered keys inside a nested map (e.g. `tool` not first, missing)
            ms = [m for m in self.maps(root) if m is not root and m.items]
            if ms:
                m = r.choice(ms)
                j = r.below(3)
                if j == 0:
                    m.items.append(list(m.items[r.below(len(m.items))]))
                elif j == 1:
                    del m.items[0]
                else:
                    m.items = r.shuffle(m.items)
                return root, ["duplicate-key", "dropped-first-key", "reordered-keys"][j]
            return M([]), "empty-root-map"
        if k == 9:                               # empty maps
            if r.chance(1, 3):
                return M([]), "empty-root-map"
            ms = [p for p in pos if isinstance(self.get(p), M)]
            if ms:
                self.put(r.choice(ms), M([]))
            return root, "empty-map"
        if k == 10 and pos:                      # deep nesting (an implicit key must stay short: deep keys only up to depth 40)
            p = r.choice(pos)
            d = r.choice([1, 2, 3, 8, 40, 200, self.max_depth])
            if p[2] == 0 and d > 40:
                p = (p[0], p[1], 1)
            self.put(p, self.nest(self.get(p), d, r.below(2)))
            return root, "deep-nesting"
        if k == 11 and pos:                      # non-scalar key
            keys = [p for p in pos if p[2] == 0]
            self.put(r.choice(keys), self.value(r.choice(["l", "m", "n", "ll", "r"])))
            return root, "non-scalar-key"
        if k == 12:                              # several documents
            return [root, r.choice([root, S("x"), M([]), L([])])], "multiple-documents"
        if k == 13 and pos:                      # aliases, anchors, tags in place of a node
            self.put(r.choice(pos), self.value("r"))
            return root, "alias-or-tag"
        if k == 14:                              # default target that is not a target / ownership analysis with clashing producers
            if r.chance(1, 2):
                root.items.insert(min(3, len(root.items)), [self.sc("default"), self.sc("no-such-target")])
                return root, "bad-default"
            if isinstance(root.items[0][1], M):
                root.items[0][1].items.append([self.sc("perform-ownership-analysis"), self.sc("yes")])
            tool = "vtool" if self.mode == "file" else "shell"
            cs = [(self.sc("P%d" % i), M([(self.sc("tool"), self.sc(tool)), (self.sc("outputs"), L([self.sc(o)])), (self.sc("args"), self.sc("true")),
                                         (self.sc("repair-via-ownership-analysis"), self.sc("true"))]))
                  for i, o in enumerate(r.shuffle(["gen/", "gen/x.h", "gen/sub/", "gen/sub/y.h"])[: 2 + r.below(3)])]
            cs.append((self.sc("U"), M([(self.sc("tool"), self.sc(tool)), (self.sc("inputs"), L([self.sc("gen/"), self.sc("other/")])), (self.sc("args"), self.sc("true")),
                                        (self.sc("repair-via-ownership-analysis"), self.sc(r.choice(BOOL)))])))
            root.items = [kv for kv in root.items if not (isinstance(kv[0], S) and kv[0].text == "commands")] + [[self.sc("commands"), M(cs)]]
            return root, "ownership-analysis"
        # client problems
        c = root.items[0][1]
        if isinstance(c, M):
            j = r.below(4)
            if j == 0:
                c.items = [kv for kv in c.items if not (isinstance(kv[0], S) and kv[0].text == "name")]
            elif j == 1:
                c.items.append([self.sc("version"), self.sc(r.choice(["x", "-1", "4294967296", "", "1"]))])
            elif j == 2:
                c.items.append([self.sc("name"), self.sc("other")])
            else:
                c.items.append([self.sc("file-system"), self.sc("bogus")])
        return root, "client-problem"

    def case(self, i):
        r = self.rng
        if i % 5 == 0:
            root, label, valid = self.description(True), "valid", True
        else:
            root = self.description(r.chance(1, 2))
            valid = False
            root, label = self.mutate(root)
            for _ in range(r.below(3) if r.chance(1, 4) else 0):
                if isinstance(root, M) and root.items:
                    root, l2 = self.mutate(root)
                    label += "+" + l2
        return emit(root, r, r.below(3)), label, valid


DIRECTED = [
    (b"{}\n", "empty-root-map"), (b"", "empty-file"), (b"---\n...\n", "empty-document"), (b"[]\n", "root-not-a-map"), (b"\"x\"\n", "root-not-a-map"),
    (b"client:\n", "section-wrong-kind"), (b"client: {}\n", "client-problem"), (b"client: {name: vclient}\n", "valid"),
    (b"client: {name: vclient}\ncommands: {c: {}}\n", "dropped-first-key"), (b"client: {name: vclient}\ncommands: {c: {tool: }}\n", "wrong-kind"),
    (b"client: {name: vclient}\ncommands: {c: {? [tool] : x}}\n", "non-scalar-key"), (b"? [a]\n: b\n", "non-scalar-key"),
    (b"client: {name: vclient}\ntargets: {\"\": [\"<all>\"]}\ndefault: \"\"\n", "valid"),
    (b"client: {name: vclient}\ntools: {}\ntargets: {}\nnodes: {}\ncommands: {}\n", "valid"),
    (b"client: {name: vclient}\ndefault: x\n", "bad-default"), (b"client: &a {name: vclient}\ntools: *a\n", "alias-or-tag"),
    (b"client: {name: vclient}\n---\nclient: {name: vclient}\n", "multiple-documents"),
]


def parse_yaml_line(line):
    try:
        f = dict(kv.split("=", 1) for kv in line.split(" "))
        errs = [] if f["errs"] == "." else [C.unhex(x).decode("latin-1") for x in f["errs"].split(",")]
        return {"r": f["r"] == "1", "n": int(f["n"]), "outside": int(f["outside"]), "wf": f["wf"] == "1", "errs": errs}
    except (KeyError, ValueError):
        return None


def judge_yaml(mode, data, label, line):
    """The oracle for one input of the build-description loader.  Returns (failure dict or None, parsed line)."""
    base = {"c19_stream": "yaml", "parser": "yaml", "mode": mode, "shape": label,
            "input": {"mode": mode, "hex": C.hexs(data), "text": data[:600].decode("latin-1")}}
    if line.startswith("HANG") or "rc=-14" in line.split("|")[0]:
        return dict(base, kind="hang", what="the build-description loader did not return within the watchdog on a %d-byte document (%s)" % (len(data), label)), None
    if line.startswith("ABORT"):
        return dict(base, kind="sanitizer-abort", report=line[:400], empty_root_map=data.strip() in (b"{}", b"--- {}", b"---\n{}"),
                    what="the build-description loader crashed / a sanitizer reported on a well-formed %d-byte document (%s): %s" % (len(data), label, line[:300])), None
    p = parse_yaml_line(line)
    if p is None:
        return dict(base, kind="protocol", what="unparsable harness line: " + line[:200]), None
    if p["outside"]:
        return dict(base, kind="token-outside-buffer", what="%d error callback(s) carried a token that does not lie inside the buffer being parsed" % p["outside"]), p
    own = [e for e in p["errs"] if not (mode == "system" and e == "unable to load build file")]
    if p["wf"] and not p["r"] and not own:
        return dict(base, kind="silent-failure", what="load() returned no description for a well-formed document without reporting any error through the delegate"), p
    return None, p


def corr_yaml(ctx, res):
    """the build-description clause: shape generator -> real loader under ASan+UBSan -> oracle (the Lean model of the loader is the stream `yamlmodel`)"""
    exe = ctx.exe[YAML_HARNESS]
    rng = ctx.rng
    n = 12000 if ctx.thorough else 1500
    max_depth = MAX_DEPTH_THOROUGH if ctx.thorough else MAX_DEPTH_QUICK
    dist = {"file": {}, "system": {}}
    stats = {"loaded_without_error": 0, "loaded_with_recoverable_errors": 0, "rejected_with_errors": 0, "rejected_by_yaml_parser_diagnostics_only": 0,
             "not_well_formed_for_the_vendored_parser": 0, "valid_shape_rejected": 0, "error_callbacks": 0,
             "died_on_documents_the_yaml_parser_rejects": 0}
    messages = {}
    restarts_total = 0
    first_sample = None
    for mode in ("file", "system"):
        gen = Shapes(rng, mode, max_depth)
        cases = [(d, l, l == "valid") for d, l in DIRECTED]
        cases += [gen.case(i) for i in range(n)]
        # truncations of valid documents (no longer well-formed: judged on crash / hang / token position only)
        valid_docs = [d for d, l, v in cases[len(DIRECTED):] if v and len(d) > 120][: (40 if ctx.thorough else 6)]
        for d in valid_docs:
            for k in range(1, len(d)):
                cases.append((d[:k], "truncated", False))
        lines = [C.hexs(d) for d, _, _ in cases]
        hout, restarts = c11.run_attributed([exe, mode], lines, watchdog=600)
        restarts_total += restarts
        nontriv = set()
        # the property quantifies over WELL-FORMED documents: an input that killed the loader counts only if the vendored
        # parser accepts it (asked in a separate process); the others are reported as an observation
        dead = [i for i, line in enumerate(hout) if line.startswith(("ABORT", "HANG"))]
        wf_of = {}
        if dead:
            wout, _ = c11.run_attributed([exe, "wf"], [lines[i] for i in dead], watchdog=300)
            wf_of = {i: w for i, w in zip(dead, wout)}
        for idx, ((data, label, valid), line) in enumerate(zip(cases, hout)):
            shape = label.split("+")[0]
            dist[mode][shape] = dist[mode].get(shape, 0) + 1
            f, p = judge_yaml(mode, data, label, line)
            if f is not None and wf_of.get(idx) == "wf=0":
                stats["died_on_documents_the_yaml_parser_rejects"] += 1
                if "yaml_died_on_malformed_sample" not in res.distribution:
                    res.distribution["yaml_died_on_malformed_sample"] = {"mode": mode, "text": data[:300].decode("latin-1"), "report": line[:300]}
                    C.log("c19 yaml (observation, outside the property's quantifier): the loader dies on a document the YAML parser rejects: %r -> %s" % (data[:120], line[:200]))
                f = None
            if f is not None:
                res.oracle_failures.append(f)
            if p is None:
                continue
            stats["error_callbacks"] += p["n"]
            if not p["wf"]:
                stats["not_well_formed_for_the_vendored_parser"] += 1
                if label != "truncated":
                    C.log("c19 yaml generator: the vendored parser rejects a generated document (%s): %r" % (label, data[:200]))
            if p["r"] and p["n"] == 0:
                stats["loaded_without_error"] += 1
            elif p["r"]:
                stats["loaded_with_recoverable_errors"] += 1
            elif p["n"]:
                stats["rejected_with_errors"] += 1
            else:
                stats["rejected_by_yaml_parser_diagnostics_only"] += 1
            if valid and not (p["r"] and p["n"] == 0):
                stats["valid_shape_rejected"] += 1
                C.log("c19 yaml generator: a document meant to be valid was rejected (%s): %r -> %s" % (mode, data[:300], p["errs"][:3]))
            for e in p["errs"]:
                e = re.sub(r"'[^']*'|\([^)]*\)", "_", e)[:80]
                messages[e] = messages.get(e, 0) + 1
            if p["wf"] and label != "truncated":
                nontriv.add((mode, tuple(sorted(set(re.sub(r"'[^']*'|\([^)]*\)", "_", e) for e in p["errs"]))), p["r"]))
            if first_sample is None and label not in ("valid", "truncated") and p["n"]:
                first_sample = {"yaml": data[:400].decode("latin-1"), "mode": mode, "shape": label, "impl": {"loaded": p["r"], "errors": p["errs"][:4]}}
        res.evaluations += len(cases)
        res.distinct_nontrivial += len(nontriv)
    res.distribution["yaml_shapes"] = dist
    res.distribution["yaml_outcomes"] = stats
    res.distribution["yaml_error_messages"] = dict(sorted(messages.items(), key=lambda kv: -kv[1])[:60])
    res.distribution["yaml_harness_restarts"] = restarts_total
    res.distribution["yaml_max_nesting_depth"] = max_depth
    if first_sample:
        res.samples.append(first_sample)
    res.rule = ("build descriptions from a shape generator: a (mostly) valid description tree (client, tools, targets, default, nodes, commands with the "
                "attributes the real tools know) with one to three shape errors (wrong node kind at any position, root / section of the wrong kind, missing, "
                "duplicate, misordered, unknown sections, unknown tool, unknown or ill-typed attribute, duplicate / dropped / reordered keys, empty maps, nesting "
                "up to depth %d, non-scalar keys, several documents, aliases / anchors / tags, bad default target, ownership analysis with clashing producers, "
                "client problems), every fifth one unmutated, written flow-style, block-style or as an explicit document; %d hand-written documents; every proper "
                "prefix of a few valid documents (not well-formed: judged on crash / hang only).  Each goes through BuildFile::load() with a recording delegate "
                "(mode file) and through BuildSystem::loadDescription with the built-in tools (mode system) under ASan+UBSan.  Non-trivial = distinct "
                "(mode, set of error messages with names elided, loaded or not) outcomes on well-formed documents." % (max_depth, len(DIRECTED)))


# ------------------------------------------------------------------------------------------------
# the build-description loader against its Lean model (Model/BuildFileLoader.lean): stream `yamlmodel`
# ------------------------------------------------------------------------------------------------
YAMLMODEL_TREE_DEPTH_CAP = 6      # kTreeDepthCap of harness/vc19yaml.cpp: children of nodes at depth >= 6 are not printed
YM_ITEM_NAMES = {"sb": "setFileContentsBeingParsed", "x": "error", "cc": "configureClient", "lt": "lookupTool", "ta": "Tool::configureAttribute",
                 "mk": "Tool::createCommand", "cn": "createNode", "ci": "Command::configureInputs", "co": "Command::configureOutputs",
                 "cd": "Command::configureDescription", "ca": "Command::configureAttribute", "tg": "loadedTarget", "dt": "loadedDefaultTarget",
                 "lc": "loadedCommand", "mp": "cannotLoadDueToMultipleProducers"}


# hand-written documents that reach the error classes the generator rarely produces (every class of Model/BuildFileLoader.lean `Msg`
# that a well-formed document can reach is seen on every run)
YM_DIRECTED = [
    (b"client: {name: vclient}\ntools: {vtool: {optmap: {[a]: b, c: [d], e: f}, opts: [x, [y], {z: w}], ? [k] : v, opt: *al, opt: x}}\n", "attr-map-kinds"),
    (b"client: {name: vclient}\nnodes: {n: {x: {[a]: b, c: [d], e: f}, content-exclusion-patterns: [x, [y]], ? [k] : v, type: *al, is-virtual: true}, <v>: {type: bogus}}\n", "attr-map-kinds"),
    (b"client: {name: vclient}\ncommands: {c: {tool: shell, env: {[a]: b, c: [d], e: f}, args: [x, [y]], ? [k] : v, deps: *al, inputs: [a, [b]], outputs: {a: b}, description: [d]}}\n", "attr-map-kinds"),
    (b"client: {name: vclient}\ncommands:\n  c:\n    tool: shell\n    args: |\n      echo\n    description: >\n      folded\n", "block-scalar"),
    (b"client: {name: vclient, version: 4294967295, version: 4294967296, version: 00, version: 0x0, version: \"\", version: -0}\n", "client-problem"),
    (b"client: {name: vclient, perform-ownership-analysis: yes}\ncommands:\n  A: {tool: shell, outputs: [f, f/x], repair-via-ownership-analysis: true}\n  B: {tool: shell, outputs: [f], repair-via-ownership-analysis: true}\n", "ownership-analysis"),
    (b"client: {name: vclient, perform-ownership-analysis: yes}\ncommands:\n  A: {tool: mkdir, outputs: [d/], repair-via-ownership-analysis: true}\n  B: {tool: shell, outputs: [d/x, <v>/y], repair-via-ownership-analysis: true}\n  C: {tool: shell, outputs: [<v>], repair-via-ownership-analysis: true}\n", "ownership-analysis"),
    (b"client: {name: vclient}\ntargets: {t: [a, [b], {c: d}, ~, *al], [k]: [x], u: x}\ndefault: t\nnodes: {a: x, [k]: {}}\n", "wrong-kind"),
    (b"client: {name: vclient}\ncommands: {c: {tool: [x]}, d: {tool: mkdir, x: y}, e: {tool: archive}}\n", "wrong-kind"),
    (b"client: {name: vclient}\ntools: {symlink: {}, symlink: {opt: a}}\ncommands: {c: {tool: symlink}, c: {tool: symlink}, d: x, [e]: {}}\n", "duplicate-key"),
]


def ym_model_line(salt, hline):
    """harness line `T <tree> | O <order> | wf=. | X ...` -> (op line for the Lean driver or None, expected output, wf)"""
    parts = hline.split(" | ")
    if len(parts) != 4 or not parts[0].startswith("T ") or not parts[1].startswith("O ") or not parts[3].startswith("X"):
        return None, None, None
    return "%d %s %s" % (salt, parts[1][2:], parts[0][2:]), parts[3], parts[2] == "wf=1"


def ym_error_class(msg):
    """the message with the names taken from the document elided"""
    msg = re.sub(r"^invalid tool \(.*\) type in", "invalid tool (_) type in", msg, flags=re.S)
    msg = re.sub(r"type for '.*' in '(tools|nodes|commands)' map$", r"type for '_' in '\1' map", msg, flags=re.S)
    msg = re.sub(r"^(unexpected attribute: |invalid value for attribute: )'.*'$", r"\1'_'", msg, flags=re.S)
    msg = re.sub(r"^invalid value: '.*' for attribute '.*'$", "invalid value: '_' for attribute '_'", msg, flags=re.S)
    return msg[:90]


def ym_classify(expected, dist):
    """per-call and per-error-class counts of one real trace"""
    for item in expected.split(" ")[1:]:
        f = item.split(":")
        if f[0].startswith("r="):
            r = "description" if f[0] == "r=desc" else f[0][2:]
            dist["results"][r] = dist["results"].get(r, 0) + 1
            continue
        name = YM_ITEM_NAMES.get(f[0], f[0])
        if f[0] in ("cc", "lt", "ta", "mk", "ca") and f[-1] == "0":
            name += " -> false/null"
        dist["calls"][name] = dist["calls"].get(name, 0) + 1
        if f[0] == "x":
            msg = ym_error_class(C.unhex(f[1]).decode("latin-1") if f[1] != "-" else "")
            dist["error_classes"][msg] = dist["error_classes"].get(msg, 0) + 1


def corr_yamlmodel(ctx, res, only=None):
    """shape generator -> (a) the node tree of the real llvm YAML parser and (b) the real loader's complete stream of delegate
    calls + error callbacks + result under a scripted delegate (harness mode `model`, ASan+UBSan); (a) goes to the Lean loader
    model (driver mode c19yaml), whose prediction must equal (b) line for line"""
    exe = ctx.exe[YAML_HARNESS]
    rng = C.Rng(ctx.seed, "C19/yamlmodel")
    n = 6000 if ctx.thorough else 900
    max_depth = MAX_DEPTH_THOROUGH if ctx.thorough else MAX_DEPTH_QUICK
    dist = {"shapes": {}, "error_classes": {}, "calls": {}, "results": {}, "forced_failures": {"none": 0, "reporting": 0, "silent": 0},
            "skipped": {"not_well_formed_for_the_vendored_parser": 0, "more_than_16_outputs_with_ownership_analysis": 0}}
    cases = []        # (salt, data, label)
    if only is not None:
        cases = [only]
    else:
        cases.append((0, None, "unreadable-file"))
        for mode in ("file", "system"):
            gen = Shapes(rng, mode, max_depth)
            docs = [(d, l) for d, l in DIRECTED + YM_DIRECTED] + [gen.case(i)[:2] for i in range(n)]
            for d, l in docs:
                cases.append((0, d, l))
                # the same document with the k-th answerable delegate call forced to fail (reporting / silently)
                if rng.chance(1, 2):
                    cases.append((2 * (1 + rng.below(24)) + rng.below(2), d, l))
    lines = ["%d %s" % (s, "nofile" if d is None else C.hexs(d)) for s, d, _ in cases]
    hout, restarts = c11.run_attributed([exe, "model"], lines, watchdog=600)
    dead = [i for i, line in enumerate(hout) if line.startswith(("ABORT", "HANG"))]
    wf_of = {}
    if dead:
        wout, _ = c11.run_attributed([exe, "wf"], [lines[i].split(" ")[1] for i in dead], watchdog=300)
        wf_of = {i: w for i, w in zip(dead, wout)}
    mlines, midx = [], []
    for i, ((salt, data, label), hline) in enumerate(zip(cases, hout)):
        inp = {"salt": salt, "hex": None if data is None else C.hexs(data), "text": None if data is None else data[:600].decode("latin-1")}
        if i in wf_of:
            if wf_of[i] == "wf=0":
                dist["skipped"]["not_well_formed_for_the_vendored_parser"] += 1
            else:
                res.oracle_failures.append({"c19_stream": "yamlmodel", "parser": "yaml", "mode": "model", "shape": label, "input": inp,
                                            "kind": "hang" if hline.startswith("HANG") else "sanitizer-abort", "report": hline[:400],
                                            "what": "the build-description loader (scripted delegate) died on a well-formed %d-byte document (%s): %s" % (len(data or b""), label, hline[:300])})
            continue
        ml, expected, wf = ym_model_line(salt, hline)
        if ml is None:
            res.mismatches.append({"stream": "yamlmodel", "input": inp, "model": None, "impl": "unparsable harness line: " + hline[:300]})
            continue
        if not wf:
            dist["skipped"]["not_well_formed_for_the_vendored_parser"] += 1
            if only is None:
                C.log("c19 yamlmodel generator: the vendored parser rejects a generated document (%s): %r" % (label, (data or b"")[:200]))
            continue
        mlines.append(ml)
        midx.append((i, expected, inp))
    rc, mout, merr = C.run_lines([C.model_exe(), "c19yaml"], mlines)
    if rc != 0 or len(mout) != len(mlines):
        res.mismatches.append({"stream": "yamlmodel", "input": "the model driver failed (rc=%s, %d of %d lines)" % (rc, len(mout), len(mlines)), "model": merr[:400], "impl": None})
        mout = mout + ["<no output>"] * (len(mlines) - len(mout))
    nontriv = set()
    for (i, expected, inp), got in zip(midx, mout):
        salt, data, label = cases[i]
        if got == "skip unmodelled-sort":
            dist["skipped"]["more_than_16_outputs_with_ownership_analysis"] += 1
            continue
        res.evaluations += 1
        shape = label.split("+")[0]
        dist["shapes"][shape] = dist["shapes"].get(shape, 0) + 1
        dist["forced_failures"]["none" if salt == 0 else "silent" if salt & 1 else "reporting"] += 1
        ym_classify(expected, dist)
        if got != expected:
            res.mismatches.append({"stream": "yamlmodel", "input": inp, "model": got[:2000], "impl": expected[:2000], "shape": label})
            if len(res.mismatches) <= 3:
                C.log("c19 yamlmodel MISMATCH (%s, salt %d): %r\n  impl : %s\n  model: %s" % (label, salt, (data or b"")[:300], expected[:600], got[:600]))
        else:
            nontriv.add(re.sub(r":[0-9a-f-]{2,}", ":_", expected)[:400])
            if len(res.samples) < 2 and " x:" in expected and label not in ("valid",):
                res.samples.append({"yaml": (data or b"")[:300].decode("latin-1"), "salt": salt, "shape": label, "trace (model = real loader)": expected[:500]})
    res.distinct_nontrivial += len(nontriv)
    if only is None:
        # Observation O55 (notes/C19YAML.md; not a violation of the property): the witness of C19_yaml_null_implies_error_full_false on an
        # IN-TREE tool.  A tool defined through the public C API (CAPITool, products/libllbuild/BuildSystem-C-API.cpp) answers false to every
        # configureAttribute without calling ctx.error, so BuildFile::load() itself reports nothing; its caller still reports the generic
        # "unable to load build file" through the client's error callback, which is what the property asks for.  Counted in the evidence;
        # REQUIRED here: a description that fails to load through the C API delivers at least one diagnostic to the client.
        cdocs = [b"client: {name: basic}\ntools: {ctool: {}}\n", b"client: {name: basic}\ntools: {ctool: {anything: 1}}\n",
                 b"client: {name: basic}\ntools: {ctool: {opts: [a, b]}}\n", b"client: {name: basic}\ntools: {ctool: {m: {a: b}}}\n"]
        cout, _ = c11.run_attributed([exe, "capi"], [C.hexs(x) for x in cdocs], watchdog=60)
        obs = {"documents": len(cdocs), "loaded": 0, "rejected_with_a_specific_diagnostic": 0, "rejected_with_only_unable_to_load_build_file": 0}
        for x, line in zip(cdocs, cout):
            f = dict(kv.split("=", 1) for kv in line.split(" ")) if line.startswith("init=") else None
            if f is None:
                res.oracle_failures.append({"c19_stream": "yamlmodel", "parser": "yaml", "mode": "capi", "kind": "sanitizer-abort", "report": line[:300],
                                            "input": {"hex": C.hexs(x), "text": x.decode("latin-1")}, "what": "the loader behind the C API died: " + line[:200]})
                continue
            res.evaluations += 1
            diags = [] if f["diags"] == "." else [C.unhex(h).decode("latin-1") for h in f["diags"].split(",")]
            if f["init"] == "1":
                obs["loaded"] += 1
            elif [m for m in diags if m != "unable to load build file"]:
                obs["rejected_with_a_specific_diagnostic"] += 1
            else:
                obs["rejected_with_only_unable_to_load_build_file"] += 1
            if f["init"] != "1" and not diags:
                res.oracle_failures.append({"c19_stream": "yamlmodel", "parser": "yaml", "mode": "capi", "kind": "silent-failure", "capi_tool_attribute": True,
                                            "input": {"hex": C.hexs(x), "text": x.decode("latin-1")},
                                            "what": "a build description failed to load through the C API and the client received no diagnostic at all"})
        dist["capi_client_tool_attribute_O55"] = obs
    res.distribution.update(dist)
    res.distribution["tree_depth_cap"] = YAMLMODEL_TREE_DEPTH_CAP
    res.distribution["max_nesting_depth_of_documents"] = max_depth
    res.distribution["harness_restarts"] = restarts
    res.rule = ("the documents of the shape generator above (both tool vocabularies; all shapes incl. nesting to depth %d) plus the hand-written ones and an unreadable "
                "file; about half of them a second time with the k-th answerable delegate call (k <= 24) forced to fail, reporting or silently.  Harness mode `model` "
                "prints the node tree of the real llvm YAML parser (every node with its source range; children below depth %d are not printed: the loader never "
                "looks below depth 4, theorem C19_yaml_depth_irrelevant) and the real BuildFile::load()'s complete stream of delegate calls, error callbacks "
                "(message, token offset+length) and the resulting description under a scripted delegate (ASan+UBSan); the Lean loader model run on the printed tree "
                "with the same scripted answers must print the same line.  Non-trivial = distinct traces with names elided." % (max_depth, YAMLMODEL_TREE_DEPTH_CAP))


# ------------------------------------------------------------------------------------------------
# the Ninja manifest loader: c17load's stream on the ASan build, judged on termination only
# ------------------------------------------------------------------------------------------------
class LoaderCtx:
    """the context c17load.correspond() sees: its harness slot holds the ASan+UBSan build, the ninja differential is off"""

    def __init__(self, ctx):
        self.__dict__.update(ctx.__dict__)
        self.exe = dict(ctx.exe)
        self.exe[("vc17load", "plain")] = ctx.exe[LOADER_ASAN]
        self.skip_ninja = True


def corr_loader(ctx, res):
    old = {k: os.environ.get(k) for k in c11.SAN_ENV}
    os.environ.update(c11.SAN_ENV)
    try:
        c17load.CHECK.correspond(LoaderCtx(ctx), res)
    finally:
        for k, v in old.items():
            if v is None:
                os.environ.pop(k, None)
            else:
                os.environ[k] = v
    res.rule = "c17load's manifest stream (valid + malformed incl. recursive rule variables) through the real ManifestLoader built with ASan+UBSan, each load in a forked child with alarm and stack limit; judged here only on 'returned a manifest' (crash / hang / sanitizer exit = failure) and on agreement with the loader model. " + res.rule


def tagged(sub, stream):
    for f in sub.oracle_failures:
        f["c19_stream"] = stream
    return sub


class Check(PropertyCheck):
    prop = "C19"
    module = "LLBuild.Props.C19All"
    theorems = LEX_THEOREMS + c11.C19_DEPS_THEOREMS + LOADER_THEOREMS + c17load.PARSER_C19_THEOREMS + YAML_THEOREMS
    extractors = ["x_ninjalexer", "x_depsparsers", "x_ninjaloader"]
    impl_cfgs = ["asan"]
    harnesses = [c17lex.HARNESS, (c11.HARNESS, "asan"), LOADER_ASAN, YAML_HARNESS]
    assumptions = [
        "[ninja-lexer] hand model of Lexer::lex (all four modes), tied by differential correspondence under ASan+UBSan on exact-size heap buffers; tables and "
        "flags (keyword memcmp lengths, identifier ranges, char widening, $-look-ahead guards) regenerated from the source on every run; buffers below 4 GiB",
        "[makedeps, depinfo] hand models of MakefileDepsParser / DependencyInfoParser in which every read is bounds-checked, tied by differential correspondence "
        "(valid files, every prefix, mutations, exhaustive small strings) under ASan+UBSan; guards and operators touched by F11/F12/F18 are extracted",
        "[ninja-loader] C19_loader_total is stated at lookupNamed, the only non-structural recursion of the loader model besides include nesting; include cycles "
        "are outside the generator (a self-including manifest overflows the stack in llbuild and in ninja alike: recorded observation O3 of notes/C17LOAD.md); "
        "lib/Ninja/Parser.cpp has a Lean model (Model/NinjaParser.lean, driving the lexer model; theorems LLBuild.NinjaParser.C19_*): it is compared with the real "
        "Parser (complete callback trace, on exact-size heap buffers under ASan+UBSan) on the `parser` stream of c17load (valid, malformed, byte-mutated manifests, token soup)",
        "[yaml] the build-description loader BuildFileImpl (lib/BuildSystem/BuildFile.cpp) has a hand model (Model/BuildFileLoader.lean: input = the node tree the "
        "YAML parser built, output = the complete stream of delegate calls / error callbacks / result; every delegate answer a parameter; theorems "
        "LLBuild.BuildFileLoader.C19_yaml_*), tied to the code by the `yamlmodel` stream (harness mode `model`: the tree printed by a separate run of the real parser, "
        "the real load() under a scripted delegate with ASan+UBSan; line-for-line equality).  Not modelled: the attribute parsers of the built-in tools "
        "(lib/BuildSystem/BuildSystem.cpp, ShellCommand.cpp, ... - they only appear as delegate answers; exercised by the `yaml` stream in mode system), the two "
        "repair passes of OwnershipAnalysis (they change no control flow), std::sort beyond 16 elements (modelled as a stable sort; such inputs are skipped and counted)",
        "[yaml] C19_yaml_null_implies_error needs the discipline 'configureAttribute returns false only after ctx.error' of the delegate's tools / nodes / commands (the "
        "loader itself reports nothing after such a false: C19_yaml_null_implies_error_full_false); the in-tree tools follow it on every document of the `yaml` stream",
        "[yaml] the vendored LLVM YAML parser (lib/llvm/Support/YAMLParser.cpp) is trusted: documents are well-formed by construction (the harness reports whether "
        "the parser accepted the whole stream; rejected ones are counted, judged on crash / hang only); nesting depth is bounded by %d (quick) / %d (thorough) "
        "because the parser's recursive Node::skip overflows an 8 MiB stack near depth 100000; syntax errors are printed by the parser on stderr, not through the "
        "delegate, and BuildFile::load() does not consult Stream::failed() (observation, outside the property's 'well-formed' quantifier)" % (MAX_DEPTH_QUICK, MAX_DEPTH_THOROUGH),
        "[yaml] 'problems only through the error callbacks' is checked as: no abort / signal / sanitizer report, a null description is accompanied by at least one "
        "error callback, error tokens lie inside the parsed buffer.  The loader continues after recoverable diagnostics by design, so a description can be "
        "returned together with error callbacks (counted in yaml_outcomes.loaded_with_recoverable_errors); clients decide on the error count",
    ]
    trusted_base = ["extractors x_ninjalexer, x_depsparsers, x_ninjaloader",
                    "harnesses vc17lex (lex), vc11 (makedeps, depinfo), vc17load (c17decls, c17load), vc19yaml (file, system, model), all built with ASan+UBSan (clang-14)",
                    "python oracles check_tokens (c17lex), corr_makedeps / corr_depinfo (c11), the crash verdict of c17load, judge_yaml (this module)",
                    "the scripted delegate of vc19yaml mode `model` and its replica in lean/LLBuild/Drv/C19Yaml.lean (incl. BuildNode::configureAttribute and the "
                    "StringMap iteration order handed from the harness to the model); the tree printer of that mode (a second run of the deterministic YAML parser)",
                    "vendored LLVM YAML parser; AddressSanitizer / UndefinedBehaviorSanitizer as the detectors of out-of-bounds reads",
                    "watchdogs: alarm(20) per input in vc17load / vc19yaml, 120 s / 600 s per batch in run_attributed"]

    # ---------------------------------------------------------------------------------------
    def replay(self, ctx, res):
        rec = json.load(open(ctx.replay_path))
        f = rec.get("failure") or {}
        stream = f.get("c19_stream") or f.get("part")
        inp = f.get("input") or {}
        sub = Result()
        if stream == "yaml":
            data = C.unhex(inp["hex"])
            hout, _ = c11.run_attributed([ctx.exe[YAML_HARNESS], inp["mode"]], [C.hexs(data)], watchdog=60)
            C.log("replay yaml (%s): %r\n  impl: %s" % (inp["mode"], data[:300], hout[0][:400]))
            g, _p = judge_yaml(inp["mode"], data, f.get("shape", "replay"), hout[0])
            if g:
                sub.oracle_failures.append(g)
            sub.evaluations += 1
        elif stream == "yamlmodel":
            data = None if inp.get("hex") is None else C.unhex(inp["hex"])
            corr_yamlmodel(ctx, sub, only=(int(inp.get("salt", 0)), data, f.get("shape", "replay")))
            C.log("replay yamlmodel (salt %s): %r -> %d mismatch(es), %d oracle failure(s)" % (inp.get("salt"), (data or b"")[:300], len(sub.mismatches), len(sub.oracle_failures)))
        elif stream == "ninja-lexer":
            c17lex.CHECK.replay(ctx, sub, ctx.replay_path)
        elif stream in ("makedeps", "depinfo"):
            c11.CHECK.replay(ctx, sub)
        elif stream == "ninja-loader":
            corr_loader(ctx, sub)
        else:
            C.log("replay file has no input this check can run (kind=%s)" % rec.get("kind"))
        absorb(res, sub, stream or "replay")
        res.rule = "replay of one recorded input"

    def correspond(self, ctx, res):
        if getattr(ctx, "replay_path", None):
            return self.replay(ctx, res)
        # the YAML stream (no model) runs beside the model-bound streams
        ysub = Result()
        yerr = []

        ymsub = Result()

        def yaml_thread():
            try:
                corr_yamlmodel(ctx, ymsub)
                corr_yaml(YCtx(ctx), ysub)
            except Exception as e:          # reported below as a broken tie
                import traceback
                traceback.print_exc()
                yerr.append("%s: %s" % (type(e).__name__, e))
        th = threading.Thread(target=yaml_thread)
        th.start()
        sub = Result()
        c17lex.CHECK.correspond_lex(ctx, sub)
        sub.rule = ("every lexer input of C17LEX (corpus regressions, every prefix of each corpus manifest, identifiers one edit away from a keyword, high-byte frames, "
                    "grammar-generated manifests, random bytes; several mode cycles) on exact-size heap buffers under ASan+UBSan; judged on sanitizer / termination / "
                    "tiling / end-of-file; non-trivial = at least 3 distinct token kinds")
        absorb(res, tagged(sub, "ninja-lexer"), "ninja-lexer", keep=lambda f: f.get("oracle") in LEX_ORACLES)
        for fn, tag in ((c11.corr_makedeps, "makedeps"), (c11.corr_depinfo, "depinfo")):
            sub = Result()
            fn(ctx, sub)
            sub.rule = "see C11: valid files, every proper prefix, seeded mutations, every string over the structural bytes up to a length bound, under ASan+UBSan in exact-size heap buffers"
            absorb(res, tagged(sub, tag), tag, keep=lambda f: f.get("kind") in DEPS_KINDS)
        sub = Result()
        corr_loader(ctx, sub)
        absorb(res, tagged(sub, "ninja-loader"), "ninja-loader", keep=lambda f: f.get("kind") in ("crash", "parser-protocol"))
        th.join()
        if yerr:
            res.mismatches.append({"stream": "c19yaml", "input": "the YAML pass raised", "impl": yerr[0]})
        absorb(res, ysub, "yaml")
        absorb(res, ymsub, "yamlmodel")
        interleave_samples(res, ["yaml", "yamlmodel","ninja-lexer", "makedeps", "depinfo", "ninja-loader"])
        res.exhaustive = False

    def match_known(self, failure, known):
        m = known.get("match", {})
        return all(failure.get(k) == v for k, v in m.items())

    def search(self, ctx, res, why):
        return


class YCtx:
    """the YAML pass draws from its own generator stream so that it can run beside the other passes"""

    def __init__(self, ctx):
        self.__dict__.update(ctx.__dict__)
        self.rng = C.Rng(ctx.seed, "C19/yaml")


CHECK = Check()
