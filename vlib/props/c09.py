"""C09 (signature half) — definitions differing in a signature-relevant part have different signatures;
an unchanged definition has the same signature in every process."""
import json, os
from .. import common as C
from ..runner import PropertyCheck

SHELL_ONLY = ("args", "env", "deps", "style", "inh", "csi", "sig")


def hl(l):
    return ",".join(C.hexs(x) for x in l) if l else "."


def line_of(d):
    b = lambda x: "1" if x else "0"
    return " ".join([d["tool"], C.hexs(d["name"]), hl(d["inputs"]), hl(d["outputs"]), b(d["ami"]), b(d["amo"]), b(d["aood"]),
                     hl(d["args"]), hl([k for k, _ in d["env"]]), hl([v for _, v in d["env"]]), hl(d["deps"]),
                     str(d["style"]), b(d["inh"]), b(d["csi"]), C.hexs(d["sig"])] +
                    ["%s=%s" % (k, enc_kv(k, v)) for k, v in d.get("tail", [])])


# ----------------------------------------------------------------------------------------------------------------
# The other tools (clang, mkdir, archive, shared-library, swift-compiler, symlink, stale-file-removal) and node rules.
# A definition is dict(tool, name, inputs, outputs, ami, amo, aood, x={attribute: value}); value types by attribute:
KEYTYPE = {"args": "l", "deps": "s", "executable": "s", "compiler-style": "s", "other-args": "l", "module-name": "s",
           "module-aliases": "l", "module-output-path": "s", "sources": "l", "objects": "l", "import-paths": "l",
           "temps-path": "s", "is-library": "b", "enable-whole-module-optimization": "b", "num-threads": "s",
           "contents": "s", "link-output-path": "s", "expectedOutputs": "l", "roots": "l", "type": "i", "typeattr": "i",
           "producers": "l", "is-mutated": "b", "is-command-timestamp": "b", "working-directory": "s", "control-enabled": "b",
           "repair-via-ownership-analysis": "b"}
# python oracle, independent restatement: the attributes that each tool's getSignature() hashes (besides the
# ExternalCommand part name/inputs/outputs/three flags) ...
HASHED_KEYS = {"clang": ["args", "deps"], "mkdir": [], "archive": [], "shared-library": ["executable", "compiler-style", "other-args"],
               "swift-compiler": ["executable", "module-name", "module-aliases", "module-output-path", "sources", "objects",
                                  "import-paths", "temps-path", "other-args", "is-library", "enable-whole-module-optimization",
                                  "num-threads"],
               "symlink": ["contents"], "stale-file-removal": [], "node": ["type", "producers"]}
# ... and the attributes that are NOT hashed although they change what the command does.  Empty since fixes F49-F52
# (shell working-directory / control-enabled, clang deps, shared-library executable / other-args / compiler-style,
# swift-compiler enable-whole-module-optimization / num-threads are hashed now and listed in HASHED_KEYS / `relevant`).
BEHAVIOURAL_UNHASHED = {}
# unhashed-but-behavioural pairs and histories count as oracle failures (family "unsigned-attribute")
STRICT_UNSIGNED_ATTRIBUTES = True
EXT_TOOLS = ("clang", "mkdir", "archive", "shared-library", "swift-compiler")     # ExternalCommand subclasses


def enc_kv(k, v):
    t = KEYTYPE[k]
    if t == "s":
        return C.hexs(v)
    if t == "l":
        return hl(v)
    if t == "b":
        return "1" if v else "0"
    return str(v)


def oline_of(d):
    b = lambda x: "1" if x else "0"
    return " ".join([d["tool"], C.hexs(d["name"]), hl(d["inputs"]), hl(d["outputs"]), b(d["ami"]), b(d["amo"]), b(d["aood"])] +
                    ["%s=%s" % (k, enc_kv(k, v)) for k, v in d["x"].items()])


def any_line(d):
    return oline_of(d) if "x" in d else line_of(d)


def freeze(v):
    return tuple(v) if isinstance(v, list) else v


def is_virtual(n):
    return len(n) >= 2 and n[:1] == b"<" and n[-1:] == b">"


def node_type(name, x):
    """final BuildNode::NodeType ordinal: createNode() by the shape of the name, then the attributes in file order"""
    t = 1 if name.endswith(b"/") else 3 if is_virtual(name) else 0
    if x.get("typeattr"):
        t = x["typeattr"] - 1
    if x.get("is-command-timestamp"):
        t = 3
    return t


def loadable(d):
    """what the loader's configure* functions insist on"""
    t = d["tool"]
    if not d["name"]:
        return False
    if t in ("archive", "shared-library"):
        return sum(1 for n in d["inputs"] if not is_virtual(n)) >= 1 and sum(1 for n in d["outputs"] if not is_virtual(n)) == 1
    if t == "symlink":
        return len(d["outputs"]) == 1
    if t == "node":
        p = d["x"]["producers"]
        return len(p) >= 1 and len(set(p)) == len(p) and all(p)
    return True


def ohashed(d):
    t, x = d["tool"], d["x"]
    if t == "symlink":
        return (t, tuple(d["outputs"]), x["contents"], tuple(d["inputs"]))
    if t == "stale-file-removal":
        return (t, d["name"])
    if t == "node":
        return (t, x["type"], tuple(x["producers"]))
    # shared-library: the scalar configureAttribute overload accepts the three ExternalCommand flags and IGNORES them
    # (it does not delegate to ExternalCommand), so the members keep their defaults whatever the build file says
    flags = (False, False, False) if t == "shared-library" else (d["ami"], d["amo"], d["aood"])
    return (t, d["name"], tuple(d["inputs"]), tuple(d["outputs"])) + flags + tuple(freeze(x.get(k)) for k in HASHED_KEYS[t])


def behavioural(d):
    """the unhashed attributes that change what the command does"""
    src = dict(d.get("tail", [])) if "x" not in d else d["x"]
    return tuple((k, freeze(src.get(k))) for k in BEHAVIOURAL_UNHASHED.get(d["tool"], []))


def ovariants(d):
    """every loadable definition differing from d in exactly one attribute / one boundary move"""
    out = []
    t, x = d["tool"], d["x"]

    def put(kind, **kw):
        n = dict(d)
        nx = dict(x)
        for k, v in kw.items():
            if k in ("name", "inputs", "outputs", "ami", "amo", "aood"):
                n[k] = v
            else:
                nx[k.replace("_", "-")] = v
        if t == "node":
            nx["type"] = node_type(n["name"], nx)
        n["x"] = nx
        if loadable(n):
            out.append((kind, n))
    put("name", name=d["name"] + b"x")
    if len(d["name"]) > 1:
        put("name", name=d["name"][:-1])
    if t not in ("stale-file-removal", "node"):
        for attr in ("inputs", "outputs"):
            for kind, nl in list_variants(attr, d[attr], b"n"):
                if all(nl):
                    put(kind, **{attr: nl})
        if d["inputs"]:
            put("move:inputs>outputs", inputs=d["inputs"][:-1], outputs=[d["inputs"][-1]] + d["outputs"])
        if d["outputs"]:
            put("move:outputs>inputs", inputs=d["inputs"] + [d["outputs"][0]], outputs=d["outputs"][1:])
    if t in EXT_TOOLS:
        for f in ("ami", "amo", "aood"):
            put(("ignored-flag:" if t == "shared-library" else "flag:") + f, **{f: not d[f]})
    for k, v in x.items():
        if k in ("type", "typeattr"):
            continue
        ty = KEYTYPE[k]
        tag = k if k in HASHED_KEYS[t] else "unhashed:" + k
        if ty == "b":
            put(tag, **{k: not v})
        elif ty == "s":
            if k == "num-threads":
                put(tag, **{k: b"4" if v != b"4" else b"2"})
            elif k == "compiler-style":
                for cs in (b"cl", b"clang", b"swiftc"):
                    if cs != v:
                        put(tag, **{k: cs})
            else:
                put(tag, **{k: v + b"x"})
                if v:
                    put(tag, **{k: v[:-1]})
        elif ty == "l":
            for kind, nl in list_variants(tag, v, b"n"):
                if k != "producers" or all(nl):
                    put(kind, **{k: nl})
    # moves across the boundaries of members that are adjacent in the hash chain
    if t == "clang" and d["outputs"]:
        put("move:outputs>args", outputs=d["outputs"][:-1], args=[d["outputs"][-1]] + x["args"])
    if t == "swift-compiler":
        chain = ["module-aliases", "sources", "objects", "import-paths", "other-args"]
        for a, b in zip(chain, chain[1:]):
            if x[a]:
                put("move:%s>%s" % (a, b), **{a: x[a][:-1], b: [x[a][-1]] + x[b]})
            if x[b]:
                put("move:%s>%s" % (b, a), **{a: x[a] + [x[b][0]], b: x[b][1:]})
        for lst, sc in (("module-aliases", "module-output-path"), ("import-paths", "temps-path")):
            if x[lst] and not x[sc]:                 # the last element becomes the scalar hashed right after the list
                put("move:%s>%s" % (lst, sc), **{lst: x[lst][:-1], sc: x[lst][-1]})
        if x["executable"]:
            put("move:executable>module-name", executable=x["executable"][:-1], module_name=x["executable"][-1:] + x["module-name"])
        if d["outputs"]:
            put("move:outputs>executable", outputs=d["outputs"][:-1], executable=d["outputs"][-1])
    if t == "symlink":
        if d["inputs"] and not x["contents"]:
            put("move:inputs>contents", contents=d["inputs"][0], inputs=d["inputs"][1:])
        if x["contents"]:
            put("move:contents>inputs", contents=b"", inputs=[x["contents"]] + d["inputs"])
            put("move:contents>output", contents=x["contents"][1:], outputs=[d["outputs"][0] + x["contents"][:1]])
    if t == "node":
        for ta in range(5):
            if ta != x["typeattr"]:
                put("type", typeattr=ta)
        p = x["producers"]
        if len(p) >= 2:
            put("producers:merge2", producers=[p[0] + p[1]] + p[2:])
    return out


def relevant(d):
    """Independent restatement of the signature-relevant part (python oracle).  The explicit signature
    replaces the built-in strategy: args/env/deps/deps-style/inherit-env/can-safely-interrupt/working-directory/
    control-enabled (docs/buildsystem.rst)."""
    common = (d["tool"], d["name"], tuple(d["inputs"]), tuple(d["outputs"]), d["ami"], d["amo"], d["aood"])
    if d["tool"] != "shell":
        return common
    if d["sig"]:
        return common + (("explicit", d["sig"]),)
    tail = dict(d.get("tail", []))
    return common + (("builtin", tuple(d["args"]), tuple(d["env"]), tuple(d["deps"]), d["style"], d["inh"], d["csi"],
                      tail.get("working-directory", b""), tail.get("control-enabled", True)),)


def show(d):
    r = {}
    for k, v in d.items():
        if isinstance(v, bytes):
            r[k] = v.decode("latin-1")
        elif isinstance(v, dict):
            r[k] = show(v)
        elif isinstance(v, list):
            r[k] = [x.decode("latin-1") if isinstance(x, bytes) else [y.decode("latin-1") if isinstance(y, bytes) else y for y in x] for x in v]
        else:
            r[k] = v
    return r


def list_variants(attr, l, fresh):
    """single-attribute edits of one string list: element edits and every move of a boundary between adjacent elements"""
    out = []
    out.append((attr + ":append", l + [fresh]))
    out.append((attr + ":prepend", [fresh] + l))
    if l:
        out.append((attr + ":remove-last", l[:-1]))
        out.append((attr + ":remove-first", l[1:]))
        out.append((attr + ":dup-last", l + [l[-1]]))
    for i, e in enumerate(l):
        out.append((attr + ":change", l[:i] + [e + b"x"] + l[i + 1:]))
        if e:
            out.append((attr + ":change", l[:i] + [e[:-1]] + l[i + 1:]))
        for k in range(0, len(e) + 1):       # split one element in two (includes splitting off an empty string)
            out.append((attr + ":split", l[:i] + [e[:k], e[k:]] + l[i + 1:]))
    for i in range(len(l) - 1):
        a, b = l[i], l[i + 1]
        if a != b:
            out.append((attr + ":swap", l[:i] + [b, a] + l[i + 2:]))
        out.append((attr + ":merge", l[:i] + [a + b] + l[i + 2:]))
        if a:
            out.append((attr + ":shift", l[:i] + [a[:-1], a[-1:] + b] + l[i + 2:]))
        if b:
            out.append((attr + ":shift", l[:i] + [a + b[:1], b[1:]] + l[i + 2:]))
    return out


def variants(d):
    """every definition differing from d in exactly one attribute / one boundary move: [(kind, def)]"""
    out = []

    def put(kind, **kw):
        n = dict(d)
        n.update(kw)
        out.append((kind, n))
    shell = d["tool"] == "shell"
    put("name", name=d["name"] + b"x")
    if d["name"]:
        put("name", name=d["name"][:-1])
    for attr in ("inputs", "outputs") + (("args", "deps") if shell else ()):
        for kind, nl in list_variants(attr, d[attr], b"n"):
            put(kind, **{attr: nl})
    # boundary moves between adjacent lists of the hash chain
    if d["inputs"]:
        put("move:inputs>outputs", inputs=d["inputs"][:-1], outputs=[d["inputs"][-1]] + d["outputs"])
    if d["outputs"]:
        put("move:outputs>inputs", inputs=d["inputs"] + [d["outputs"][0]], outputs=d["outputs"][1:])
    for f in ("ami", "amo", "aood"):
        put("flag:" + f, **{f: not d[f]})
    if shell:
        env = d["env"]
        put("env:append", env=env + [(b"N", b"n")])
        put("env:prepend", env=[(b"N", b"n")] + env)
        if env:
            put("env:remove-last", env=env[:-1])
            put("env:remove-first", env=env[1:])
        for i, (k, v) in enumerate(env):
            put("env:key", env=env[:i] + [(k + b"x", v)] + env[i + 1:])
            put("env:value", env=env[:i] + [(k, v + b"x")] + env[i + 1:])
            if k != v:
                put("env:swap-kv", env=env[:i] + [(v, k)] + env[i + 1:])
            if k:
                put("env:kv-shift", env=env[:i] + [(k[:-1], k[-1:] + v)] + env[i + 1:])
            if v:
                put("env:kv-shift", env=env[:i] + [(k + v[:1], v[1:])] + env[i + 1:])
        for i in range(len(env) - 1):
            if env[i] != env[i + 1]:
                put("env:swap", env=env[:i] + [env[i + 1], env[i]] + env[i + 2:])
            (k1, v1), (k2, v2) = env[i], env[i + 1]
            put("env:pair-shift", env=env[:i] + [(k1, v1 + k2), (b"", v2)] + env[i + 2:])
        a, dp = d["args"], d["deps"]
        if len(a) >= 2:
            put("move:args>env", args=a[:-2], env=[(a[-2], a[-1])] + env)
        if env:
            put("move:env>args", args=a + [env[0][0], env[0][1]], env=env[1:])
            put("move:env>deps", env=env[:-1], deps=[env[-1][0], env[-1][1]] + dp)
        if len(dp) >= 2:
            put("move:deps>env", env=env + [(dp[0], dp[1])], deps=dp[2:])
        if not env:
            if a:
                put("move:args>deps", args=a[:-1], deps=[a[-1]] + dp)
            if dp:
                put("move:deps>args", args=a + [dp[0]], deps=dp[1:])
        # working-directory (absolute: configureAttribute makes a relative one absolute against the process cwd) and
        # control-enabled: hashed by the built-in strategy since F49, replaced by an explicit signature
        tl = dict(d.get("tail", []))
        wd, ce = tl.get("working-directory", b""), tl.get("control-enabled", True)
        pre = "irrelevant:" if d["sig"] else ""

        def tail(wd, ce):
            return ([("working-directory", wd)] if wd else []) + ([("control-enabled", ce)] if not ce else [])
        put(pre + "working-directory", tail=tail(wd + b"/w d", ce))
        if wd:
            put(pre + "working-directory", tail=tail(b"", ce))
            put(pre + "working-directory", tail=tail(wd[:-1], ce))
        put(pre + "control-enabled", tail=tail(wd, not ce))
        if dp and not wd and dp[-1].startswith(b"/") and not d["sig"]:
            put("move:deps>working-directory", deps=dp[:-1], tail=tail(dp[-1], ce))
        for s in range(4):
            if s != d["style"]:
                put("style", style=s)
        put("flag:inh", inh=not d["inh"])
        put("flag:csi", csi=not d["csi"])
        if d["sig"]:
            put("sig:change", sig=d["sig"] + b"x")
            put("sig:clear", sig=b"")
            # the explicit signature replaces the built-in strategy: these edits must NOT change the signature
            put("irrelevant:args", args=a + [b"zz"])
            put("irrelevant:style", style=(d["style"] + 1) % 4)
            put("irrelevant:inh", inh=not d["inh"])
        else:
            put("sig:set", sig=b"s")
            if a:
                put("sig:set", sig=a[-1])
    return out


def flat(d, style):
    """the definition with list boundaries erased (and, optionally, the used deps styles identified)"""
    env = [x for kv in d["env"] for x in kv]
    st = d["style"] if not style else min(d["style"], 1)
    return (d["tool"], d["name"], tuple(d["inputs"] + d["outputs"]), d["ami"], d["amo"], d["aood"],
            tuple(d["args"] + env + d["deps"]), st, d["inh"], d["csi"], d["sig"])


def family(kind, b, v):
    if "x" in b:
        return "list-boundary" if kind.startswith("move:") else "global" if kind == "any" else kind.split(":")[0]
    if kind == "any":     # a colliding pair met outside the single-attribute enumeration: classify by what separates them
        if flat(b, False) == flat(v, False):
            return "list-boundary"
        if dict(b, style=0) == dict(v, style=0) and b["style"] and v["style"]:
            return "deps-style-both-used"
        if flat(b, True) == flat(v, True):
            return "list-boundary+deps-style"
        return "global"
    if kind.startswith("move:"):
        return "list-boundary"
    if kind == "style":
        return "deps-style-both-used" if b["style"] != 0 and v["style"] != 0 else "deps-style-unused-vs-used"
    return kind.split(":")[0]



# ----------------------------------------------------------------------------------------------------------------
# Attributes -> members (stream `c09configure`).  A definition is an ORDERED list of entries, as the keys stand in
# the command's mapping after `tool:`:  ("i", [names]) inputs | ("o", [names]) outputs | ("d", text) description |
# ("s", key, text) scalar attribute | ("l", key, [texts]) list attribute | ("m", key, [(k, v)]) map attribute.
FLAG_ATTR = {"ami": b"allow-missing-inputs", "amo": b"allow-modified-outputs", "aood": b"always-out-of-date"}
STYLE_NAMES = {1: b"makefile", 2: b"dependency-info", 3: b"makefile-ignoring-subsequent-outputs"}
# python restatement of the hashed attributes of the shell tool (HASHED_KEYS has the other tools); both are compared with the
# table the Lean side derives from the GENERATED configure tables and recipes (driver mode `c09attrcheck hashed`)
SHELL_HASHED = ["args", "env", "deps", "deps-style", "inherit-env", "can-safely-interrupt", "signature", "working-directory",
                "control-enabled"]
EXT_FLAGS = ["allow-missing-inputs", "allow-modified-outputs", "always-out-of-date"]
# attributes that may be added / edited without moving the signature (python restatement of `deliberatelyUnsigned`)
UNSIGNED_EDITS = {"shell": ["d", "repair"], "phony": ["d", "repair"], "clang": ["d", "repair"], "mkdir": ["d", "repair"],
                  "archive": ["d", "repair"], "swift-compiler": ["d", "repair"], "shared-library": ["d"],
                  "symlink": ["d", "repair", "link-output-path"], "stale-file-removal": ["d", "expectedOutputs", "roots"]}


def entry_enc(e):
    if e[0] in ("i", "o"):
        return "%s=%s" % (e[0], hl(e[1]))
    if e[0] == "d":
        return "d=%s" % C.hexs(e[1])
    if e[0] == "s":
        return "s:%s=%s" % (C.hexs(e[1]), C.hexs(e[2]))
    if e[0] == "l":
        return "l:%s=%s" % (C.hexs(e[1]), hl(e[2]))
    return "m:%s=%s" % (C.hexs(e[1]), ",".join("%s:%s" % (C.hexs(k), C.hexs(v)) for k, v in e[2]) if e[2] else ".")


def cline(cwd, tool, name, entries):
    return " ".join([C.hexs(cwd), tool, C.hexs(name)] + [entry_enc(e) for e in entries])


def entry_group(e):
    """entries with different groups touch different members: their relative order does not matter"""
    return e[0] if e[0] in ("i", "o", "d") else e[1]


def entries_of(d):
    """the canonical entry list of a generated definition (shell / phony dicts and the `x` dicts of the other tools)"""
    bt = lambda v: b"true" if v else b"false"
    es = []
    if d["inputs"]:
        es.append(("i", list(d["inputs"])))
    if d["outputs"]:
        es.append(("o", list(d["outputs"])))
    if d["tool"] != "shared-library":          # its scalar overload ignores them; covered by the `ignored` variants
        for f, a in FLAG_ATTR.items():
            if d[f]:
                es.append(("s", a, b"true"))
    if "x" in d:
        for k, v in d["x"].items():
            ty = KEYTYPE[k]
            if ty == "s":
                es.append(("s", k.encode(), v))
            elif ty == "l":
                if v:
                    es.append(("l", k.encode(), list(v)))
            elif ty == "b":
                es.append(("s", k.encode(), bt(v)))
        return es
    if d["tool"] == "shell":
        if d["args"]:
            es.append(("l", b"args", list(d["args"])))
        if d["env"]:
            es.append(("m", b"env", list(d["env"])))
        if d["deps"]:
            es.append(("l", b"deps", list(d["deps"])))
        if d["style"]:
            es.append(("s", b"deps-style", STYLE_NAMES[d["style"]]))
        if not d["inh"]:
            es.append(("s", b"inherit-env", b"false"))
        if not d["csi"]:
            es.append(("s", b"can-safely-interrupt", b"false"))
        if d["sig"]:
            es.append(("s", b"signature", d["sig"]))
        for k, v in d.get("tail", []):
            es.append(("s", k.encode(), bt(v) if KEYTYPE[k] == "b" else v))
    return es


def obs_fields(line):
    """`loaded k=v ... diags=..` -> dict; other outcomes -> {'outcome': first word, ...}"""
    parts = line.split(" ")
    r = {"outcome": parts[0]}
    for p in parts[1:]:
        if "=" in p:
            k, v = p.split("=", 1)
            r[k] = v
        else:
            r[p] = True
    return r


class Check(PropertyCheck):
    prop = "C09"
    module = "LLBuild.Props.C09All"
    theorems = ["LLBuild.Signature.C09_sig_injective", "LLBuild.Signature.C09_sig_injective_external",
                "LLBuild.Signature.C09_sig_pure", "LLBuild.Signature.C09_sig_defined",
                "LLBuild.Signature.C09_seed_fixed", "LLBuild.Signature.C09_prefix_not_injective",
                "LLBuild.Signature.C09_prefix_external_not_injective",
                "LLBuild.Signature.C09_prefix_collision_inputs_outputs", "LLBuild.Signature.C09_prefix_collision_args_env",
                "LLBuild.Signature.C09_prefix_collision_deps_style",
                # every other class with a regenerated recipe (Props/C09Classes.lean)
                "LLBuild.Signature.C09_sig_iff_shell", "LLBuild.Signature.C09_sig_iff_external",
                "LLBuild.Signature.C09_sig_iff_command", "LLBuild.Signature.C09_sig_iff_clang",
                "LLBuild.Signature.C09_sig_iff_swift", "LLBuild.Signature.C09_sig_iff_sharedLibrary", "LLBuild.Signature.C09_sig_iff_symlink",
                "LLBuild.Signature.C09_symlink_without_output_undefined", "LLBuild.Signature.C09_sig_iff_buildNode",
                "LLBuild.Signature.C09_sig_iff_all_classes", "LLBuild.Signature.C09_sig_defined_all_classes",
                "LLBuild.Signature.C09_sig_pure_all_classes", "LLBuild.Signature.C09_tool_classes",
                "LLBuild.Signature.C09_sig_iff_every_tool", "LLBuild.Signature.C09_unsigned_attributes",
                "LLBuild.Signature.C09_signed_attributes_configurable",
                "LLBuild.Signature.C09_lists_delimited", "LLBuild.Signature.C09_prefix_lists_not_delimited",
                # definition (keys of the build file) -> members, through the generated configure* tables (Props/C09Attrs.lean)
                "LLBuild.BSAttrs.C09_tables_are_class_chains", "LLBuild.BSAttrs.C09_unsigned_assignments_pinned",
                "LLBuild.BSAttrs.C09_hashed_attributes", "LLBuild.BSAttrs.C09_every_attribute_accounted",
                "LLBuild.BSAttrs.C09_derived_members_from_hashed", "LLBuild.BSAttrs.C09_attribute_conversions",
                "LLBuild.BSAttrs.C09_definition_change_changes_signature", "LLBuild.BSAttrs.C09_configure_change_changes_signature",
                "LLBuild.BSAttrs.C09_distinct_keys_independent", "LLBuild.BSAttrs.C09_hashed_members_independent_of_unsigned",
                "LLBuild.BSAttrs.C09_definition_equal_signature_equal", "LLBuild.BSAttrs.C09_scalar_args_same_command",
                "LLBuild.BSAttrs.C09_split_scalars_same_command", "LLBuild.BSAttrs.C09_working_directory_same_command",
                "LLBuild.BSAttrs.C09_boolean_values_that_load",
                # outputs that no longer match what the command produced (generated chain of ExternalCommand::isResultValid)
                "LLBuild.BSAttrs.C09_result_valid_iff", "LLBuild.BSAttrs.C09_output_change_invalidates",
                "LLBuild.BSAttrs.C09_matching_outputs_keep_result", "LLBuild.BSAttrs.C09_result_valid_tools",
                # history half, on the abstract engine (tie to BuildEngine.cpp: the engine checks C01/C02)
                "LLBuild.Engine.C02_null_build_after_build", "LLBuild.Engine.C09_changed_definition_reruns",
                "LLBuild.Engine.C09_changed_definition_signature_differs", "LLBuild.Engine.C09_unchanged_definition_needs_other_reason"]
    extractors = ["x_signature", "x_bsattrs"]
    harnesses = [("vc09", "plain")]
    assumptions = [
        "injectivity is proved for the pre-hash term; collisions of llvm::hash_combine's 64-bit mixing are out of scope (a collision met by the correspondence/oracle is still reported)",
        "list lengths below 2^64 (terms carry unbounded naturals)",
        "the null-build / re-run-iff half of C09 rests on the engine model (C02) and is not part of this check",
        "definition -> members: the configure* functions are interpreted from tables regenerated from the clang AST (x_bsattrs); a Definition is the ORDERED key list BuildFileImpl::parseCommandsMapping hands to the command (the YAML layer and its `inputs`/`outputs`/`description` dispatch are C17/C19's); nodes are implicit (no `nodes:` section entry overrides the virtual-by-name rule); the tool-level `control-enabled` of the shell tool is not set",
        "outputs that no longer match: the per-output rule of ExternalCommand::isResultValid is an extracted decision chain (C09_result_valid_iff); FileInfo is abstract (equal / different / missing); mkdir, symlink and stale-file-removal have validity rules of their own (listed by C09_result_valid_tools, exercised by the older histories only); that an invalid result leads to re-execution is the engine's part (C02)",
        "ctx.error(..) without `return false` does not stop the load (BuildFileImpl::numErrors is never consulted): such definitions are `loaded` with diagnostics and the theorems cover them; the frontend builds them and exits 1",
        "hand models of StringRef::getAsInteger(10,int), llvm::sys::fs::make_absolute (POSIX, cwd beginning with one '/'), StringRef::split(KeepEmpty=false), createNode's virtual-name rule: tied by the c09configure correspondence only",
        "symlink commands have exactly one declared output (what configureOutputs accepts; without an `outputs:` key the real getSignature() reads outputs[0] out of bounds - model: no term)",
        "shell working-directory is compared as stored (absolute); a RELATIVE working-directory is made absolute against the process cwd by configureAttribute, so its signature (like what the command does) depends on where llbuild runs - generators use absolute values only",
        "attributes judged not to change what a command does stay unhashed: repair-via-ownership-analysis, description, symlink link-output-path (isResultValid stats the actual path; history re-runs), stale-file-removal expectedOutputs/roots (always runs)",
    ]
    trusted_base = ["extractor x_signature (clang-14 JSON AST -> recipe; overload resolved through the callee decl id; Hashing.h text shapes; "
                    "tool -> command class -> nearest getSignature override and the attribute names of the configureAttribute overloads are read at TEXT level)",
                    "hand model of llvm::hash_value/hash_combine/hash_short/hash_state (bit-exact correspondence on every run)",
                    "harness vc09 (real BuildSystem + BuildFile loader; getSignature() observed in commandPreparing; mode `configure` reads the private members of ExternalCommand / ShellCommand by re-reading those two headers with `class` -> `struct`)",
                    "extractor x_bsattrs (clang-14 JSON AST of every configure* body -> attribute tables; statement shapes matched exactly, fail closed; tool -> command class and DefaultShellPath / createNode / getInputs read at text level)",
                    "python oracle `relevant` (independent restatement of the signature-relevant part)"]

    # ------------------------------------------------------------------ generation
    def bases(self, ctx, n):
        rng = ctx.rng
        words = [b"a", b"b", b"ab", b"ba", b"a b", b"", b"x=1", b"k", b"v", b"-c", b"/p/q", b"<t>", b"d/", b"a,b", b"\"q\"", b"s"]
        nodes = [w for w in words if w]

        def lst(pool, mx):
            return [rng.choice(pool) for _ in range(rng.below(mx + 1))]
        out = []
        # hand-written seeds: the three pre-finding witnesses' left sides and an everything-empty definition
        seed = dict(tool="shell", name=b"C1", inputs=[b"a", b"b"], outputs=[b"c"], ami=False, amo=False, aood=False,
                    args=[b"x", b"k", b"v"], env=[], deps=[], style=0, inh=True, csi=True, sig=b"")
        out.append(seed)
        out.append(dict(seed, deps=[b"d", b"e"], style=1, env=[(b"k", b"v")]))
        out.append(dict(seed, inputs=[], outputs=[], args=[], name=b""))
        out.append(dict(seed, tool="phony"))
        out.append(dict(seed, sig=b"sig"))
        for i in range(n):
            shell = rng.chance(4, 5)
            d = dict(tool="shell" if shell else "phony", name=rng.choice([b"C", b"cmd 1", b"<c>", b"a", b""]) if rng.chance(1, 4) else b"C%d" % i,
                     inputs=lst(nodes, 3), outputs=lst(nodes, 3),
                     ami=rng.chance(1, 4), amo=rng.chance(1, 4), aood=rng.chance(1, 4),
                     args=[], env=[], deps=[], style=0, inh=True, csi=True, sig=b"")
            if shell:
                d["args"] = lst(words, 4)
                d["env"] = [(rng.choice(words), rng.choice(words)) for _ in range(rng.below(3))]
                d["deps"] = lst(words, 3)
                d["style"] = rng.below(4)
                d["inh"] = rng.chance(1, 2)
                d["csi"] = rng.chance(1, 2)
                d["sig"] = rng.choice([b"s", b"sig 2", b"a"]) if rng.chance(1, 6) else b""
                if rng.chance(1, 3):
                    d["tail"] = ([("working-directory", rng.choice([b"/w", b"/p/q", b"/a b"]))] if rng.chance(2, 3) else []) + \
                                ([("control-enabled", False)] if rng.chance(1, 2) else [])
            out.append(d)
        return out

    def obases(self, ctx, n):
        """base definitions of the other tools and of node rules (all loadable)"""
        rng = ctx.rng
        words = [b"a", b"b", b"ab", b"ba", b"a b", b"", b"x=1", b"k", b"v", b"-c", b"/p/q", b"<t>", b"d/", b"a,b", b"\"q\"", b"s"]
        nodes = [w for w in words if w]
        plain = [w for w in nodes if not is_virtual(w)]

        def lst(pool, mx, mn=0):
            return [rng.choice(pool) for _ in range(mn + rng.below(mx + 1 - mn))]

        def ext(tool, i, **x):
            return dict(tool=tool, name=b"%s%d" % (tool[:2].encode(), i), inputs=lst(nodes, 3), outputs=lst(nodes, 3),
                        ami=rng.chance(1, 4), amo=rng.chance(1, 4), aood=rng.chance(1, 4), x=x)
        out = []
        # hand-written seeds: one of each tool
        out.append(dict(tool="clang", name=b"CC", inputs=[b"a.c", b"b.h"], outputs=[b"a.o"], ami=False, amo=False, aood=False,
                        x={"args": [b"cc", b"-c", b"a.c"], "deps": b"a.d"}))
        out.append(dict(tool="mkdir", name=b"MK", inputs=[], outputs=[b"dir"], ami=False, amo=False, aood=False, x={}))
        out.append(dict(tool="archive", name=b"AR", inputs=[b"a.o", b"b.o"], outputs=[b"lib.a"], ami=False, amo=False, aood=False, x={}))
        out.append(dict(tool="shared-library", name=b"SO", inputs=[b"a.o"], outputs=[b"lib.so"], ami=False, amo=False, aood=False,
                        x={"executable": b"cc", "compiler-style": b"clang", "other-args": [b"-O"]}))
        out.append(dict(tool="swift-compiler", name=b"SW", inputs=[b"a.swift"], outputs=[b"a.o"], ami=False, amo=False, aood=False,
                        x={"executable": b"swiftc", "module-name": b"M", "module-aliases": [b"A=B"], "module-output-path": b"",
                           "sources": [b"a.swift", b"b.swift"], "objects": [b"a.o", b"b.o"], "import-paths": [b"/i"], "temps-path": b"tmp",
                           "other-args": [b"-O"], "is-library": False, "enable-whole-module-optimization": False, "num-threads": b"0"}))
        out.append(dict(tool="symlink", name=b"LN", inputs=[b"a"], outputs=[b"lnk"], ami=False, amo=False, aood=False,
                        x={"contents": b"target", "link-output-path": b""}))
        out.append(dict(tool="stale-file-removal", name=b"SFR", inputs=[], outputs=[], ami=False, amo=False, aood=False,
                        x={"expectedOutputs": [b"/a", b"/b"], "roots": [b"/"]}))
        for nm in (b"out", b"<v>", b"dir/"):
            x = {"typeattr": 0, "producers": [b"P1", b"P2"], "is-mutated": False, "is-command-timestamp": False}
            x["type"] = node_type(nm, x)
            out.append(dict(tool="node", name=nm, inputs=[], outputs=[], ami=False, amo=False, aood=False, x=x))
        tools = ["clang", "clang", "swift-compiler", "swift-compiler", "symlink", "mkdir", "archive", "shared-library", "stale-file-removal", "node", "node"]
        for i in range(n):
            t = tools[i % len(tools)]
            if t == "clang":
                d = ext(t, i, args=lst(words, 4), deps=rng.choice([b"", b"d.d", b"a b.d"]))
            elif t == "mkdir":
                d = ext(t, i)
                d["outputs"] = lst(plain, 2, 1)
            elif t in ("archive", "shared-library"):
                d = ext(t, i)
                d["inputs"] = lst(plain, 3, 1) + ([b"<t>"] if rng.chance(1, 4) else [])
                d["outputs"] = [rng.choice(plain)] + ([b"<t>"] if rng.chance(1, 4) else [])
                if t == "shared-library":
                    d["ami"] = d["amo"] = d["aood"] = False       # its scalar overload ignores the flags (see notes)
                    d["x"] = {"executable": rng.choice([b"cc", b"", b"/usr/bin/c c"]), "compiler-style": rng.choice([b"cl", b"clang", b"swiftc"]),
                              "other-args": lst(words, 3)}
            elif t == "swift-compiler":
                d = ext(t, i, **{"executable": rng.choice([b"swiftc", b"", b"/x/swiftc", b"s c"]), "module-name": rng.choice(words),
                                 "module-aliases": lst(words, 2), "module-output-path": rng.choice([b"", b"M.swiftmodule", b"a"]),
                                 "sources": lst(words, 3), "objects": lst(words, 3), "import-paths": lst(words, 2),
                                 "temps-path": rng.choice([b"", b"tmp", b"a"]), "other-args": lst(words, 3),
                                 "is-library": rng.chance(1, 2), "enable-whole-module-optimization": rng.chance(1, 2),
                                 "num-threads": rng.choice([b"0", b"4"])})
            elif t == "symlink":
                d = dict(tool=t, name=b"ln%d" % i, inputs=lst(nodes, 3), outputs=[rng.choice(nodes)], ami=False, amo=False, aood=False,
                         x={"contents": rng.choice(words), "link-output-path": rng.choice([b"", b"", b"other"])})
            elif t == "stale-file-removal":
                d = dict(tool=t, name=b"sfr%d" % i, inputs=[], outputs=[], ami=False, amo=False, aood=False,
                         x={"expectedOutputs": lst(words, 3), "roots": lst([b"/", b"/a", b"r"], 2)})
            else:
                nm = rng.choice([b"out", b"<v>", b"dir/", b"a b", b"<x", b"n%d" % i])
                prods = []
                for _ in range(1 + rng.below(3)):
                    c = rng.choice([b"P", b"Q", b"PQ", b"p q", b"R%d" % i])
                    if c not in prods:
                        prods.append(c)
                x = {"typeattr": rng.below(5), "producers": prods, "is-mutated": rng.chance(1, 4), "is-command-timestamp": rng.chance(1, 6)}
                x["type"] = node_type(nm, x)
                d = dict(tool=t, name=nm, inputs=[], outputs=[], ami=False, amo=False, aood=False, x=x)
            if loadable(d):
                out.append(d)
        return out

    # ------------------------------------------------------------------ two-build histories through bin/llbuild
    def histories(self, ctx, res):
        """change ONE attribute between two builds of the real tool; the command must run again.  Controls: a hashed
        attribute (must re-run) and no change (must not run).  Attributes that are not hashed are findings."""
        import shutil, subprocess
        exe = os.path.join(C.BUILD, "plain", "bin", "llbuild")
        if not os.path.exists(exe):
            res.mismatches.append({"stream": "c09history", "input": "bin/llbuild not built", "impl": exe})
            return
        root = os.path.join(C.BUILD, "scratch", "c09-hist-%d" % os.getpid())
        shutil.rmtree(root, ignore_errors=True)
        fake = ("#!/bin/sh\n# stands in for cc / swiftc: records its command line in the output, writes the dependency files\n"
                "D=\"$(dirname \"$0\")\"\nif [ \"$1\" = \"--version\" ]; then echo fake 1.0; exit 0; fi\n"
                "echo \"$@\" > \"$D/out\"\nprintf 'out: %s/src\\n' \"$D\" > \"$D/src.d\"\nmkdir -p \"$D/tmp\"\n"
                "printf 'out: %s/src\\n' \"$D\" > \"$D/tmp/M.d\"\necho ran >> \"$D/log\"\n")

        def body(tool, d, attrs):
            y = "client:\n  name: basic\ntargets:\n  \"\": [\"%s/out\"]\ndefault: \"\"\ncommands:\n  C:\n    tool: %s\n    outputs: [\"%s/out\"]\n" % (d, tool, d)
            for k, v in attrs:
                y += "    %s: %s\n" % (k, v.replace("$D", d))
            return y
        shell = [("args", '["/bin/sh", "-c", "(pwd; echo fd=$LLBUILD_CONTROL_FD) > $D/out; echo ran >> $D/log"]')]
        clang = [("args", '["/bin/sh", "-c", "echo obj > $D/out; echo ran >> $D/log"]')]
        shlib = [("inputs", '["$D/src"]')]
        swift = [("inputs", '["$D/src"]'), ("executable", '"$D/fake"'), ("module-name", '"M"'), ("sources", '["$D/src"]'),
                 ("objects", '["$D/out"]'), ("temps-path", '"$D/tmp"')]
        cases = [  # (tool, attribute, hashed?, common attributes, first value, second value)
            ("shell", "args (control: hashed)", True, [], shell[0][1], shell[0][1].replace("echo ran", "echo  ran")),
            ("shell", "(control: nothing changed)", None, shell, None, None),
            ("shell", "working-directory", True, shell, '"$D/w1"', '"$D/w2"'),
            ("shell", "control-enabled", True, shell, "true", "false"),
            ("shell", "working-directory (replaced by an explicit signature)", None, shell + [("signature", '"s"')], '"$D/w1"', '"$D/w2"'),
            ("clang", "deps", True, clang, '"$D/d1.d"', '"$D/d2.d"'),
            ("shared-library", "other-args", True, shlib + [("executable", '"$D/fake"'), ("compiler-style", '"clang"')], '["-O1"]', '["-O2"]'),
            ("shared-library", "compiler-style", True, shlib + [("executable", '"$D/fake"'), ("other-args", '["-O1"]')], '"clang"', '"swiftc"'),
            ("shared-library", "executable", True, shlib + [("compiler-style", '"clang"')], '"$D/fake"', '"$D/fake2"'),
            ("swift-compiler", "enable-whole-module-optimization", True, swift, "false", "true"),
            ("swift-compiler", "num-threads", True, swift + [("enable-whole-module-optimization", "true")], "0", "4"),
            ("swift-compiler", "other-args (control: hashed)", True, swift, '["-O"]', '["-Onone"]'),
            ("symlink", "link-output-path", False, [("contents", '"target"')], '"$D/l1"', '"$D/l2"'),
            ("symlink", "contents (control: hashed)", True, [], '"t1"', '"t2"'),
            # null builds run nothing, whatever the command left at its output path
            ("shell", "(null build: the output is a dangling symlink)", None,
             [("args", '["/bin/sh", "-c", "ln -sf $D/nowhere $D/out; echo ran >> $D/log"]')], None, None),
            ("shell", "(null build: the output is a symlink to a file)", None,
             [("args", '["/bin/sh", "-c", "ln -sf $D/src $D/out; echo ran >> $D/log"]')], None, None),
            ("shell", "(null build: the output is a directory)", None,
             [("args", '["/bin/sh", "-c", "mkdir -p $D/out; echo ran >> $D/log"]')], None, None),
            ("shell", "(null build: the command does not create its output)", None,
             [("args", '["/bin/sh", "-c", "echo ran >> $D/log"]')], None, None),
        ]
        rows = []
        for i, (tool, attr, hashed, common, v1, v2) in enumerate(cases):
            d = os.path.join(root, "h%d" % i)
            os.makedirs(os.path.join(d, "w1"))
            os.makedirs(os.path.join(d, "w2"))
            for f in ("fake", "fake2"):
                with open(os.path.join(d, f), "w") as fh:
                    fh.write(fake)
                os.chmod(os.path.join(d, f), 0o755)
            for f in ("src", "d1.d", "d2.d"):
                open(os.path.join(d, f), "w").write("out: %s/src\n" % d if f.endswith(".d") else "x\n")
            key = attr.split(" ")[0]
            started = []

            def build(value):
                attrs = list(common) + ([(key, value)] if value is not None else [])
                open(os.path.join(d, "build.llbuild"), "w").write(body(tool, d, attrs))
                p = subprocess.run([exe, "buildsystem", "build", "--serial", "-C", d], stdout=subprocess.PIPE, stderr=subprocess.STDOUT, timeout=60)
                txt = p.stdout.decode("utf-8", "replace")
                # a started command prints its description line; `log` counts the runs of the tools that spawn a process
                started.append(len([l for l in txt.split("\n") if l.strip()]))
                return p.returncode, txt
            rc1, t1 = build(v1)
            rc0, t0 = build(v1)               # null build in between: nothing may run
            rc2, t2 = build(v2)
            ran_null, ran_again = bool(t0.strip()), bool(t2.strip())
            row = {"tool": tool, "attribute": attr, "hashed": hashed, "first_build_exit": rc1, "null_build_ran": ran_null,
                   "reran_after_change": ran_again, "dir": d}
            rows.append(row)
            res.evaluations += 3
            if rc1 != 0 or ran_null:
                res.oracle_failures.append({"what": "history driver: first build failed or the null build ran something (%s %s): %s" % (tool, attr, (t1 + t0)[-200:]),
                                            "kind": "history-driver", "family": "history", "tool": tool, "attribute": attr, "input": row})
            elif hashed is True and not ran_again:
                res.oracle_failures.append({"what": "changing the hashed attribute %s of a %s command did not re-run it" % (attr, tool),
                                            "kind": "not-rerun", "family": "history", "tool": tool, "attribute": attr, "input": row})
            elif hashed is None and ran_again:
                res.oracle_failures.append({"what": "a %s command whose signature-relevant definition did not change ran again: %s" % (tool, attr),
                                            "kind": "rerun-without-change", "family": "history", "tool": tool, "attribute": attr, "input": row})
            elif hashed is False and not ran_again and STRICT_UNSIGNED_ATTRIBUTES:
                res.oracle_failures.append({"what": "changing only `%s` of a %s command (it changes what the command does) did not re-run it" % (attr, tool),
                                            "kind": "not-rerun", "family": "unsigned-attribute", "tool": tool, "attribute": "%s:%s" % (tool, attr), "input": row})
        res.extra["histories"] = [{k: r[k] for k in ("tool", "attribute", "hashed", "reran_after_change")} for r in rows]
        res.distribution["two_build_histories"] = len(rows)
        res.distribution["histories_unhashed_attribute_not_rerun"] = sum(1 for r in rows if r["hashed"] is False and not r["reran_after_change"])
        if not any(o.get("family") in ("history", "unsigned-attribute") and o.get("input", {}).get("dir", "").startswith(root) for o in res.oracle_failures):
            shutil.rmtree(root, ignore_errors=True)

    # ------------------------------------------------------------------ attributes -> members
    def configure_stream(self, ctx, res):
        """Every generated definition as an ordered key list, plus order permutations, repeated keys, scalar forms of list
        attributes, invalid values, unknown attributes, relative working directories: the members the REAL loader leaves in
        the command object (vc09 configure) against `BSAttrs.run` on the generated tables (driver mode c09configure)."""
        import threading
        rng = ctx.rng
        exe = ctx.exe[("vc09", "plain")]
        cwd = os.path.join(C.BUILD, "scratch", "c09-cfg-cwd")
        os.makedirs(os.path.join(cwd, "rel"), exist_ok=True)
        cwdb = cwd.encode()
        n = 600 if ctx.thorough else 60
        bases = [b for b in self.bases(ctx, 3 * n) + self.obases(ctx, 4 * n) if b["tool"] != "node" and b["name"]]
        lines, index = [], {}
        equal_groups = []      # (why, [line indices]) : the real loader must leave the SAME observation
        sig_groups = []        # (why, [line indices]) : ... the same signature
        kinds = {}

        def put(tool, name, es, kind):
            l = cline(cwdb, tool, name, es)
            if l not in index:
                index[l] = len(lines)
                lines.append(l)
            kinds[kind] = kinds.get(kind, 0) + 1
            return index[l]
        wds = [b"", b"rel", b"rel/x y", b"/abs/dir", b"//net", b"//net/x", b"///x", b"a/", b"/", b".", b"//", b"./rel"]
        bad_bools = [b"yes", b"", b"True", b"FALSE", b"1", b"false ", b"tru"]
        for d in bases:
            tool, name = d["tool"], d["name"]
            # a node that is both input and output of the command is a cycle: the engine then calls cycleDetected() through a
            # static_cast of the delegate to BuildSystemFrontendDelegate, which the harness's delegate is not
            d = dict(d, outputs=[o for o in d["outputs"] if o not in d["inputs"]])
            if not loadable(dict(d, x=d.get("x", {"producers": [b"p"]}))) and tool in ("archive", "shared-library", "symlink"):
                continue
            es = entries_of(d)
            c0 = put(tool, name, es, "canonical")
            # 1 order of distinct keys: any permutation that keeps the relative order of entries of the same key
            grp = [c0]
            for _ in range(2):
                keys = [rng.below(1000) for _ in es]
                slots = sorted(range(len(es)), key=lambda i: (keys[i], i))
                bygroup = {}
                for pos, i in enumerate(slots):
                    bygroup.setdefault(entry_group(es[i]), []).append(pos)
                perm = [None] * len(es)
                for g, poss in bygroup.items():
                    for pos, e in zip(sorted(poss), [e for e in es if entry_group(e) == g]):
                        perm[pos] = e
                grp.append(put(tool, name, perm, "permutation"))
            equal_groups.append(("order of distinct keys", grp))
            # 2 a key repeated (before / after, other value): overwrite or append as the C++ statement does
            if es:
                i = rng.below(len(es))
                e = es[i]
                if e[0] in ("i", "o"):
                    dup = (e[0], [b"zz" + e[0].encode()] + e[1][:1])
                elif e[0] == "d":
                    dup = ("d", e[1] + b"2")
                elif e[0] == "s":
                    dup = ("s", e[1], e[2] if e[2] in (b"true", b"false") else e[2] + b"2")
                    if e[2] in (b"true", b"false") and rng.chance(1, 2):
                        dup = ("s", e[1], b"false" if e[2] == b"true" else b"true")
                elif e[0] == "l":
                    dup = ("l", e[1], [b"zz"] + e[2][:1])
                else:
                    dup = ("m", e[1], [(b"ZZ", b"zz")] + e[2][:1])
                j = rng.below(len(es) + 1)
                put(tool, name, es[:j] + [dup] + es[j:], "repeated-key")
                if e[0] == "l" and rng.chance(1, 2):     # the same key once as a list and once as a scalar
                    put(tool, name, es[:j] + [("s", e[1], b" ".join(e[2]))] + es[j:], "repeated-key")
            # 3 scalar forms of list attributes and equal conversions
            for i, e in enumerate(es):
                if e[0] == "l" and e[1] == b"args" and tool in ("shell", "clang") and e[2][:2] == [b"/bin/sh", b"-c"] and len(e[2]) == 3:
                    equal_groups.append(("scalar args = [/bin/sh, -c, value]", [c0, put(tool, name, es[:i] + [("s", b"args", e[2][2])] + es[i + 1:], "scalar-form")]))
                if e[0] == "l" and e[1] in (b"sources", b"objects", b"import-paths", b"other-args") and tool in ("swift-compiler", "shared-library") \
                        and all(x and b" " not in x for x in e[2]):
                    sep = rng.choice([b" ", b"  ", b" "])
                    sc = rng.choice([b"", b" "]) + sep.join(e[2]) + rng.choice([b"", b"  "])
                    equal_groups.append(("space-separated scalar = list", [c0, put(tool, name, es[:i] + [("s", e[1], sc)] + es[i + 1:], "scalar-form")]))
                if e[0] == "l" and e[1] == b"deps" and tool == "shell" and len(e[2]) == 1:
                    equal_groups.append(("scalar deps = one-element list", [c0, put(tool, name, es[:i] + [("s", b"deps", e[2][0])] + es[i + 1:], "scalar-form")]))
            if tool in ("shell", "clang") and rng.chance(1, 2):
                v = rng.choice([b"echo hi", b"", b"a 'b' c", b"x"])
                a = put(tool, name, [e for e in es if entry_group(e) != b"args"] + [("s", b"args", v)], "scalar-form")
                b2 = put(tool, name, [e for e in es if entry_group(e) != b"args"] + [("l", b"args", [b"/bin/sh", b"-c", v])], "scalar-form")
                equal_groups.append(("scalar args = [/bin/sh, -c, value]", [a, b2]))
            if tool in ("swift-compiler", "shared-library") and rng.chance(1, 2):
                k = rng.choice([b"sources", b"objects", b"import-paths", b"other-args"] if tool == "swift-compiler" else [b"other-args"])
                put(tool, name, es + [("s", k, rng.choice([b"", b" ", b"a  b ", b" -O1 -g", b"one"]))], "scalar-form")
            # 4 deliberately unsigned keys: adding / editing them must not move the signature
            for what in UNSIGNED_EDITS[tool]:
                if what == "d":
                    extra = [("d", rng.choice([b"Compiling x", b"", b"d d"]))]
                elif what == "repair":
                    extra = [("s", b"repair-via-ownership-analysis", rng.choice([b"true", b"false"]))]
                elif what == "link-output-path":
                    extra = [("s", b"link-output-path", rng.choice([b"other", b"", b"/l p"]))]
                else:
                    extra = [("l", what.encode(), [b"/zz", b"q"])]
                j = rng.below(len(es) + 1)
                sig_groups.append(("unsigned key " + what, [c0, put(tool, name, es[:j] + extra + es[j:], "unsigned-key")]))
            # 5 invalid values, unknown keys, wrong value kinds
            r = rng.below(8)
            j = rng.below(len(es) + 1)
            if r == 0:
                key = rng.choice([b"allow-missing-inputs", b"always-out-of-date", b"repair-via-ownership-analysis", b"inherit-env", b"can-safely-interrupt",
                                  b"control-enabled", b"is-library", b"enable-whole-module-optimization"])
                put(tool, name, es[:j] + [("s", key, rng.choice(bad_bools))] + es[j:], "invalid-value")
            elif r == 1:
                put(tool, name, es[:j] + [("s", rng.choice([b"bogus", b"arg", b"Args", b"inputs2", b""]), b"v")] + es[j:], "unknown-key")
            elif r == 2:
                key = rng.choice([b"args", b"env", b"deps", b"sources", b"contents", b"roots", b"executable", b"other-args", b"allow-missing-inputs"])
                val = rng.choice([("s", key, b"v w"), ("l", key, [b"v", b"w"]), ("l", key, []), ("m", key, [(b"K", b"V")]), ("m", key, [])])
                put(tool, name, es[:j] + [val] + es[j:], "value-kind")
            elif r == 3:
                put(tool, name, es[:j] + [("s", b"deps-style", rng.choice([b"makefile", b"Makefile", b"", b"unused", b"dependency-info"]))] + es[j:], "invalid-value")
            elif r == 4:
                put(tool, name, es[:j] + [("s", b"num-threads", rng.choice([b"4", b"04", b"-0", b"-1", b"+4", b"4x", b"", b" 4", b"2147483647", b"2147483648",
                                                                             b"-2147483648", b"-2147483649", b"99999999999999999999999", b"0x10"]))] + es[j:], "invalid-value")
            elif r == 5:
                put(tool, name, es[:j] + [("s", b"compiler-style", rng.choice([b"gcc", b"", b"Clang", b"cl", b"swiftc"]))] + es[j:], "invalid-value")
            elif r == 6:
                io = rng.choice(["i", "o"])
                nl = rng.choice([[], [b"<v%>"], [b"%a", b"<%b>"], [b"<a%", b"%b>"], [b"%x", b"%y"], [b"<>"], [b"%d/", b"<%d>/"]])
                put(tool, name, es[:j] + [(io, [x.replace(b"%", io.upper().encode()) for x in nl])] + es[j:], "node-lists")
            else:
                put(tool, name, es[:j] + [("l", b"args", [])] + es[j:], "invalid-value")
            # 6 working directory of a shell command: relative values are made absolute against the process cwd
            if tool == "shell":
                put(tool, name, [e for e in es if entry_group(e) != b"working-directory"] + [("s", b"working-directory", rng.choice(wds))], "working-directory")
        # hand-written: every shape once, whatever the seed
        hw = [("shell", [("s", b"working-directory", w)]) for w in wds] + \
             [("archive", [("i", [b"<v>"]), ("o", [b"x"]), ("o", [b"y"])]), ("archive", [("o", [b"<v>"]), ("i", [b"a", b"<b>", b"c"])]),
              ("shared-library", [("i", [b"a.o"]), ("o", [b"l.so", b"m.so"]), ("s", b"compiler-style", b"gcc"), ("s", b"allow-missing-inputs", b"true"), ("s", b"anything", b"x")]),
              ("shared-library", [("s", b"other-args", b" -O1  -g "), ("l", b"other-args", [b"a b"]), ("s", b"compiler-style", b"cl")]),
              ("symlink", [("o", [b"a", b"b"])]), ("symlink", [("o", [])]), ("symlink", [("s", b"contents", b"x")]),
              ("symlink", [("o", [b"l"]), ("o", [b"m"]), ("s", b"contents", b"t g"), ("s", b"link-output-path", b"p q")]),
              ("stale-file-removal", [("l", b"roots", [b"/a", b"/b", b"/a"]), ("l", b"roots", [b"/b"]), ("l", b"expectedOutputs", [b"x"]), ("i", [b"ignored"]), ("o", [b"ignored"])]),
              ("stale-file-removal", [("s", b"roots", b"/a")]), ("stale-file-removal", [("m", b"roots", [])]),
              ("mkdir", [("o", [b"d ir"])]), ("mkdir", []), ("phony", [("o", [b"<x>"]), ("d", b"unused by phony")]),
              ("clang", [("s", b"args", b"cc -c"), ("s", b"deps", b"a.d"), ("l", b"deps", [b"x"])]),
              ("shell", [("l", b"args", [b"a'b", b"c d", b"e"]), ("m", b"env", [(b"K", b"V"), (b"K", b"W")]), ("m", b"env", [])]),
              ("shell", [("s", b"deps", b"d1"), ("l", b"deps", [b"d2", b"d3"]), ("s", b"deps", b"d4"), ("s", b"deps-style", b"makefile"), ("s", b"deps-style", b"dependency-info")]),
              ("swift-compiler", [("s", b"num-threads", b"-0"), ("s", b"sources", b"a  b c"), ("l", b"sources", [b"a b"]), ("s", b"is-library", b"true"), ("s", b"is-library", b"false")])]
        for tool, es in hw:
            put(tool, b"HW", es, "hand-written")
        r = {}
        ta = threading.Thread(target=lambda: r.__setitem__("h", C.run_lines([exe, "configure"], lines)))
        tm = threading.Thread(target=lambda: r.__setitem__("m", C.run_lines(self.model_cmd("c09configure"), lines)))
        ta.start(); tm.start(); ta.join(); tm.join()
        (hrc, hout, herr), (mrc, mout, merr) = r["h"], r["m"]
        if hrc != 0 or len(hout) != len(lines):
            res.mismatches.append({"stream": "c09configure", "input": "harness exit %d, %d/%d lines" % (hrc, len(hout), len(lines)),
                                   "impl": herr[-300:], "model": lines[len(hout)] if len(hout) < len(lines) else ""})
            return
        model_ok = mrc == 0 and len(mout) == len(lines)
        if ctx.model_ok and not model_ok:
            res.mismatches.append({"stream": "c09configure", "input": "model driver exit %d" % mrc, "model": merr[-300:]})
        nm = 0
        outcomes = {}
        for i, l in enumerate(lines):
            o = hout[i].split(" ")[0]
            if o == "loaded" and not hout[i].endswith("diags=."):
                o = "loaded-with-diagnostics"
            outcomes[o] = outcomes.get(o, 0) + 1
            if o not in ("loaded", "loaded-with-diagnostics", "aborted"):
                res.mismatches.append({"stream": "c09configure", "input": l, "impl": hout[i], "model": mout[i] if model_ok else "?"})
            elif model_ok and mout[i] != hout[i]:
                nm += 1
                if nm <= 10:
                    res.mismatches.append({"stream": "c09configure", "input": l, "model": mout[i], "impl": hout[i]})
        res.extra["configure_model_impl_mismatches"] = nm
        # property oracle on the REAL observations (independent of the Lean model)
        for why, grp in equal_groups:
            base = hout[grp[0]]
            if not (base.startswith("loaded ") and base.endswith("diags=.")):
                continue
            for j in grp[1:]:
                if hout[j] != base:
                    res.oracle_failures.append({"what": "two definitions that are the same command (%s) load differently" % why,
                                                "kind": "definition-equivalence", "family": "configure", "tool": lines[j].split(" ")[1],
                                                "input": {"lines": [lines[grp[0]], lines[j]], "observed": [base, hout[j]]}})
        for why, grp in sig_groups:
            a, b2 = obs_fields(hout[grp[0]]), obs_fields(hout[grp[1]])
            if a["outcome"] == b2["outcome"] == "loaded" and "sig" in a and "sig" in b2 and a["sig"] != b2["sig"]:
                res.oracle_failures.append({"what": "adding a key that is deliberately not part of the signature (%s) changed the signature" % why,
                                            "kind": "impure", "family": "configure", "tool": lines[grp[0]].split(" ")[1],
                                            "input": {"lines": [lines[grp[0]], lines[grp[1]]], "observed": [hout[grp[0]], hout[grp[1]]]}})
        # definitions whose observed members differ in a hashed member must differ in the signature (shell: every member is observed)
        by = {}
        for i, l in enumerate(lines):
            f = obs_fields(hout[i])
            if f["outcome"] == "loaded" and l.split(" ")[1] == "shell" and "sig" in f:
                by.setdefault(f["sig"], []).append((i, f))
        hashed_view = lambda f, nm: (nm, f["in"], f["out"], f["ami"], f["amo"], f["aood"]) + ((("explicit", f["sigdata"]),) if f["sigdata"] != "-" else
                                    (("builtin", f["args"], f["env"], f["deps"], f["style"], f["inh"], f["csi"], f["wd"], f["ce"]),))
        for sg, items in by.items():
            views = {}
            for i, f in items:
                views.setdefault(hashed_view(f, lines[i].split(" ")[2]), i)
            if len(views) > 1:
                i, j = list(views.values())[:2]
                res.oracle_failures.append({"what": "two shell definitions whose loaded members differ in a hashed member have the same signature %s" % sg,
                                            "kind": "collision", "attribute": "configure", "family": "configure", "tool": "shell",
                                            "input": {"lines": [lines[i], lines[j]], "observed": [hout[i], hout[j]]}})
        res.evaluations += len(lines)
        d = res.distribution
        d["configure_definitions"] = len(lines)
        d["configure_kinds"] = kinds
        d["configure_outcomes"] = outcomes
        d["configure_equivalence_groups"] = len(equal_groups) + len(sig_groups)
        res.samples.append({"configure": lines[0], "observation": hout[0]})

    def attr_tables(self, ctx, res):
        """the python tables of hashed / unsigned attributes against the ones Lean derives from the GENERATED tables"""
        rc, out, err = C.run_lines(self.model_cmd("c09attrcheck"), ["lits", "keys", "hashed", "unsigned"])
        if rc != 0 or len(out) != 4:
            if ctx.model_ok:
                res.mismatches.append({"stream": "c09attrcheck", "input": "model driver exit %d" % rc, "model": err[-300:]})
            return
        if not out[0].startswith("ok ") or out[1] != "ok":
            res.mismatches.append({"stream": "c09attrcheck", "input": "literal / key self-check", "model": out[0] + " / " + out[1], "impl": "ok"})
        gen = {}
        for part in out[2].split(";"):
            t, _, names = part.partition(":")
            gen[t] = [x for x in names.split(",") if x]
        want = {"shell": SHELL_HASHED + EXT_FLAGS, "phony": list(EXT_FLAGS)}
        for t, keys in HASHED_KEYS.items():
            if t != "node":
                want[t] = list(keys) + (EXT_FLAGS if t in EXT_TOOLS and t != "shared-library" else [])
        for t in sorted(set(gen) | set(want)):
            if sorted(gen.get(t, [])) != sorted(want.get(t, [])):
                res.mismatches.append({"stream": "c09attrcheck", "input": "hashed attributes of tool %s" % t,
                                       "model": ",".join(sorted(gen.get(t, []))), "impl": "python HASHED_KEYS: " + ",".join(sorted(want.get(t, [])))})
        un = {}
        for part in out[3].split(";"):
            f = part.split(":")
            if len(f) == 4 and f[1] in ("scalar", "list", "map"):
                un.setdefault(f[0], set()).add(f[2])
        for t, keys in UNSIGNED_EDITS.items():
            py = {k if k != "repair" else "repair-via-ownership-analysis" for k in keys if k != "d"}
            if un.get(t, set()) != py:
                res.mismatches.append({"stream": "c09attrcheck", "input": "unsigned attributes of tool %s" % t,
                                       "model": ",".join(sorted(un.get(t, set()))), "impl": "python UNSIGNED_EDITS: " + ",".join(sorted(py))})
        res.evaluations += 4
        res.extra["generated_hashed_attributes"] = gen

    # ------------------------------------------------------------------ outputs, `is-mutated` nodes: histories through bin/llbuild
    def mutated_configs(self, ctx):
        """(outputs in declaration order, set of outputs declared `is-mutated: true`, optional = an output the producer does not create)"""
        import itertools
        rng = C.Rng(ctx.seed, "C09/mutated-outputs")
        names = ["app", "app.map", "app.sym", "app.dbg"]
        allc = []
        for k in (2, 3, 4):
            for order in itertools.permutations(names[:k]):
                for r in range(0, k + 1):
                    for mut in itertools.combinations(names[:k], r):
                        allc.append((list(order), sorted(mut), None))
        # always: the two orders of a mutated and a plain output, nothing mutated, everything mutated, a mutated node in the middle
        fixed = [(["app", "app.map"], ["app"], None), (["app.map", "app"], ["app"], None), (["app", "app.map"], [], None),
                 (["app", "app.map"], ["app", "app.map"], None), (["app.map", "app", "app.sym"], ["app"], None),
                 (["app", "app.map", "app.sym", "app.dbg"], ["app.map"], None), (["app", "app.map", "app.sym"], ["app"], "app"),
                 (["app", "app.map", "app.sym"], ["app"], "app.sym")]
        if ctx.thorough:
            return fixed + allc
        picked = []
        for _ in range(10):
            c = rng.choice(allc)
            c = (c[0], c[1], rng.choice(c[0]) if rng.chance(1, 5) else None)
            if c not in picked and c not in fixed:
                picked.append(c)
        return fixed + picked

    def run_mutated_config(self, exe, d, cfg, rng):
        """One description, one chain of builds; returns (steps, failures).  The producer P writes every output (but `optional`) from
        `src` and has a command-timestamp output; the mutator M is ordered after P through that node (the in-tree lit test
        tests/BuildSystem/Build/mutable-outputs.llbuild) and appends to every `is-mutated` output in place."""
        import subprocess
        outs, mutated, optional = cfg
        os.makedirs(d)
        q = lambda x: '"%s"' % x

        def manifest(extra=""):
            y = "client:\n  name: basic\n\ntools: {}\n\ntargets:\n  \"\": [\"<M>\"]\n\nnodes:\n  \"<P.ts>\":\n    is-command-timestamp: true\n"
            for o in mutated:
                y += "  %s:\n    is-mutated: true\n" % q(o)
            body = "echo P >> log.txt; " + "; ".join("(cat src; echo %s) > %s" % (o, o) for o in outs if o != optional) + extra
            y += "\ncommands:\n  P:\n    tool: shell\n    inputs: [\"src\"]\n    outputs: [%s, \"<P.ts>\"]\n    args: [\"/bin/sh\", \"-c\", %s]\n" % (
                ", ".join(q(o) for o in outs), q(body))
            mbody = "echo M >> log.txt" + "".join("; test -f %s && echo stripped >> %s" % (o, o) for o in mutated if o != optional) + "; true"
            y += "\n  M:\n    tool: shell\n    inputs: [\"<P.ts>\"]\n    outputs: [\"<M>\"]\n    args: [\"/bin/sh\", \"-c\", %s]\n" % q(mbody)
            open(os.path.join(d, "build.llbuild"), "w").write(y)
        open(os.path.join(d, "src"), "w").write("object code\n")
        manifest()
        steps, failures = [], []

        missing_now = {optional} if optional else set()     # outputs the stored result records as missing

        def model_line(edit_kind, edit_on):
            """the scan as ExternalCommand::isResultValid sees it, for the Lean chain (driver mode c09valid)"""
            f = []
            for o in outs:
                rec = "-" if o in missing_now else "1"
                cur = rec
                if o == edit_on:
                    cur = "-" if edit_kind == "delete" else "2"
                f.append("0%s:%s:%s" % ("1" if o in mutated else "0", rec, cur))
            return "0 1 " + " ".join(f) + " 10:-:-"

        def build(what, expect_p, edit=None):
            log = os.path.join(d, "log.txt")
            if os.path.exists(log):
                os.remove(log)
            p = subprocess.run([exe, "buildsystem", "build", "--serial", "--db", "build.db", "-f", "build.llbuild"], cwd=d,
                               stdout=subprocess.PIPE, stderr=subprocess.STDOUT, timeout=60)
            ran = open(log).read().split() if os.path.exists(log) else []
            st = {"step": what, "exit": p.returncode, "ran": ran, "expected_P": expect_p}
            steps.append(st)
            want = ["P", "M"] if expect_p else []
            if p.returncode != 0:
                failures.append(("history-driver", "build failed (exit %d): %s" % (p.returncode, p.stdout.decode("utf-8", "replace")[-200:]), st))
            elif ran != want:
                kind = "not-rerun" if expect_p else "rerun-without-change"
                failures.append((kind, "%s: executed %s, the property requires %s" % (what, ran, want), st))
            elif expect_p:
                # a re-executed producer restores every output it writes
                for o in outs:
                    if o != optional and not open(os.path.join(d, o)).read().startswith("object code"):
                        failures.append(("output-not-restored", "%s: %s does not hold what P produces after a successful build" % (what, o), st))
        build("initial build", True)
        build("null build", False)
        edits = []
        for o in outs:
            if o != optional:
                edits.append(("delete", o))
                edits.append(("overwrite", o))
        for o in mutated:
            if o != optional:
                edits.append(("modify-in-place", o))
        if optional:
            edits.append(("appear", optional))
        edits += [("null", None), ("input", None), ("definition", None)]
        edits = rng.shuffle(edits)
        gen = 0
        for kind, o in edits:
            path = os.path.join(d, o) if o else None
            if kind == "delete":
                os.remove(path)
                expect = True                                     # existence changed: mutated or not
            elif kind == "overwrite":
                open(path, "w").write("tampered with, and longer than anything the build writes: %s\n" % ("x" * 40))
                expect = o not in mutated                         # a mutated output is compared by existence only
            elif kind == "modify-in-place":
                open(path, "a").write("edited in place\n")
                expect = False
            elif kind == "appear":
                open(path, "w").write("appeared\n")
                expect = True                                     # recorded as missing, exists now
            elif kind == "input":
                gen += 1
                open(os.path.join(d, "src"), "w").write("object code %s\n" % ("v" * gen))
                expect = True
            elif kind == "definition":
                gen += 1
                manifest("; echo %d > /dev/null" % gen)
                expect = True
            else:
                expect = False
            ml = model_line(kind, o) if kind not in ("input", "definition") else None
            build("%s %s" % (kind, o or ""), expect)
            steps[-1]["model_line"] = ml
            if kind == "appear":
                missing_now.discard(o)         # P re-ran and recorded the file it found
            if rng.chance(1, 3):
                build("null build after %s %s" % (kind, o or ""), False)
        return steps, failures

    def mutated_histories(self, ctx, res, only=None):
        """Outputs that no longer match what the command produced, with `is-mutated` nodes (ExternalCommand::isResultValid): a
        command is re-executed iff its definition or an input changed, a NON-mutated output no longer matches (deleted, overwritten,
        appeared), or a mutated output disappeared / appeared - not when a mutated output was modified in place, and not otherwise."""
        import shutil
        from concurrent.futures import ThreadPoolExecutor
        exe = os.path.join(C.BUILD, "plain", "bin", "llbuild")
        if not os.path.exists(exe):
            res.mismatches.append({"stream": "c09mutated", "input": "bin/llbuild not built", "impl": exe})
            return
        root = os.path.join(C.BUILD, "scratch", "c09-mut-%d" % os.getpid())
        shutil.rmtree(root, ignore_errors=True)
        cfgs = [only] if only else self.mutated_configs(ctx)

        def one(i):
            cfg = cfgs[i]
            return self.run_mutated_config(exe, os.path.join(root, "m%d" % i), cfg, C.Rng(ctx.seed, "C09/mutated-outputs/%d" % i))
        with ThreadPoolExecutor(max_workers=6) as ex:
            results = list(ex.map(one, range(len(cfgs))))
        nb, nf = 0, 0
        # the generated decision chain of ExternalCommand::isResultValid against what the tool did (definition and inputs unchanged)
        ml = [(st["model_line"], st) for _, (steps, _) in zip(cfgs, results) for st in steps if st.get("model_line") and st["exit"] == 0]
        if ml:
            rc, out, err = C.run_lines(self.model_cmd("c09valid"), [l for l, _ in ml])
            if rc != 0 or len(out) != len(ml):
                if ctx.model_ok:
                    res.mismatches.append({"stream": "c09valid", "input": "model driver exit %d" % rc, "model": err[-300:]})
            else:
                for (l, st), verdict in zip(ml, out):
                    impl = "invalid" if "P" in st["ran"] else "valid"
                    if verdict != impl and sum(1 for m in res.mismatches if m.get("stream") == "c09valid") < 6:
                        res.mismatches.append({"stream": "c09valid", "input": l, "model": verdict, "impl": "%s (%s: executed %s)" % (impl, st["step"], st["ran"])})
                d0 = res.distribution
                d0["result_valid_scans_compared"] = len(ml)
        for cfg, (steps, failures) in zip(cfgs, results):
            nb += len(steps)
            for kind, what, st in failures:
                nf += 1
                if sum(1 for o in res.oracle_failures if o.get("family") == "mutated-output") < 8:
                    res.oracle_failures.append({
                        "what": "outputs %s, is-mutated %s%s - %s" % (cfg[0], cfg[1], (", %s not produced" % cfg[2]) if cfg[2] else "", what),
                        "kind": kind, "family": "mutated-output", "tool": "shell", "attribute": st["step"].split(" ")[0],
                        "input": {"config": [cfg[0], cfg[1], cfg[2]], "step": st, "steps": [s["step"] for s in steps]}})
        res.evaluations += nb
        d = res.distribution
        d["mutated_output_configurations"] = len(cfgs)
        d["mutated_output_builds"] = nb
        res.extra["mutated_output_failures"] = nf
        if not nf:
            shutil.rmtree(root, ignore_errors=True)

    def run_defs(self, ctx, res, lines, tag):
        """two harness processes (different environment and working directory) + the Lean model"""
        import threading
        exe = ctx.exe[("vc09", "plain")]
        r = {}

        def a():
            r["A"] = C.run_lines([exe, "sig"], lines, env={"C09_PROC": "A"})

        def b():
            p = __import__("subprocess").run([exe, "sig"], input=("\n".join(lines) + "\n").encode(), stdout=-1, stderr=-1,
                                             cwd="/", env={"C09_PROC": "B", "PATH": "/usr/bin", "TZ": "UTC+7", "LANG": "C"})
            o = p.stdout.decode().split("\n")
            if o and o[-1] == "":
                o.pop()
            r["B"] = (p.returncode, o, p.stderr.decode("utf-8", "replace"))

        def m():
            r["M"] = C.run_lines(self.model_cmd("c09sig"), lines)
        ts = [threading.Thread(target=f) for f in (a, b, m)]
        [t.start() for t in ts]
        [t.join() for t in ts]
        (arc, aout, aerr), (brc, bout, berr), (mrc, mout, merr) = r["A"], r["B"], r["M"]
        if arc != 0 or len(aout) != len(lines) or brc != 0 or len(bout) != len(lines):
            res.mismatches.append({"stream": tag, "input": "harness exit %d/%d, %d,%d/%d lines" % (arc, brc, len(aout), len(bout), len(lines)), "impl": (aerr + berr)[-300:]})
            return None
        model_ok = mrc == 0 and len(mout) == len(lines)
        if ctx.model_ok and not model_ok:
            res.mismatches.append({"stream": tag, "input": "model driver exit %d" % mrc, "model": merr[-300:]})
        nm = 0
        for i in range(len(lines)):
            if aout[i] != bout[i]:
                res.oracle_failures.append({"what": "the same definition has different signatures in two processes: %s vs %s" % (aout[i], bout[i]),
                                            "kind": "process-dependent", "family": "process", "input": {"line": lines[i]}})
            if len(aout[i]) != 16:
                res.mismatches.append({"stream": tag, "input": lines[i], "model": mout[i] if model_ok else "?", "impl": aout[i]})
            elif model_ok and mout[i] != aout[i]:
                nm += 1
                if nm <= 10:
                    res.mismatches.append({"stream": tag, "input": lines[i], "model": mout[i], "impl": aout[i]})
        res.extra.setdefault("model_impl_value_mismatches", 0)
        res.extra["model_impl_value_mismatches"] += nm
        return aout

    def model_cmd(self, mode):
        if os.environ.get("VERIF_C09_PRIVATE_DRIVER"):
            return ["lake", "--dir", C.LEAN, "env", "lean", "--run", os.path.join(C.LEAN, "DriverC09.lean"), mode]
        return [C.model_exe(), mode]

    def pairs(self, ctx, res, bases, tag, line_of=line_of, relevant=relevant, variants=variants):
        defs, index, pairs = [], {}, []

        def idx(d):
            l = line_of(d)
            if l not in index:
                index[l] = len(defs)
                defs.append(d)
            return index[l]
        for b in bases:
            bi = idx(b)
            for kind, v in variants(b):
                pairs.append((bi, idx(v), kind))
        lines = [line_of(d) for d in defs]
        sigs = self.run_defs(ctx, res, lines, tag)
        if sigs is None:
            return
        kinds, nontriv = {}, 0
        for bi, vi, kind in pairs:
            b, v = defs[bi], defs[vi]
            rb, rv = relevant(b), relevant(v)
            kname = (b["tool"] + "/" + kind) if "x" in b else kind
            kinds[kname] = kinds.get(kname, 0) + 1
            if rb != rv:
                nontriv += 1
                if sigs[bi] == sigs[vi]:
                    res.oracle_failures.append({
                        "what": "two definitions differing in a signature-relevant part (%s) have the same signature %s" % (kind, sigs[bi]),
                        "kind": "collision", "attribute": kind, "family": family(kind, b, v), "tool": b["tool"],
                        "input": {"base": show(b), "variant": show(v), "lines": [lines[bi], lines[vi]]}})
            elif sigs[bi] != sigs[vi]:
                res.oracle_failures.append({
                    "what": "two definitions with the same signature-relevant part (%s) have different signatures %s / %s" % (kind, sigs[bi], sigs[vi]),
                    "kind": "impure", "attribute": kind, "family": family(kind, b, v), "tool": b["tool"],
                    "input": {"base": show(b), "variant": show(v), "lines": [lines[bi], lines[vi]]}})
            elif behavioural(b) != behavioural(v):
                # same signature although an attribute that changes what the command does differs: a finding
                attr = "%s:%s" % (b["tool"], kind.split(":")[1] if ":" in kind else kind)
                un = res.extra.setdefault("unsigned_attribute_pairs", {})
                un[attr] = un.get(attr, 0) + 1
                f = {"what": "two %s definitions that differ only in `%s` (it changes what the command does) have the same signature %s" % (b["tool"], attr.split(":")[1], sigs[bi]),
                     "kind": "collision", "attribute": attr, "family": "unsigned-attribute", "tool": b["tool"],
                     "input": {"base": show(b), "variant": show(v), "lines": [lines[bi], lines[vi]]}}
                if STRICT_UNSIGNED_ATTRIBUTES:
                    if sum(1 for o in res.oracle_failures if o.get("attribute") == attr) < 2:
                        res.oracle_failures.append(f)
                else:
                    res.extra.setdefault("unsigned_attribute_samples", {}).setdefault(attr, f["input"]["lines"])
        # all definitions of the run against each other: equal signature => equal relevant part
        by = {}
        glob = 0
        for i, s in enumerate(sigs):
            by.setdefault((defs[i]["tool"], s), []).append(i)
        for (_, s), ii in by.items():
            rels = {}
            for i in ii:
                rels.setdefault(relevant(defs[i]), i)
            if len(rels) > 1:
                glob += 1
                i, j = list(rels.values())[:2]
                if not any(f.get("kind") == "collision" and set(f["input"]["lines"]) == {lines[i], lines[j]} for f in res.oracle_failures):
                    res.oracle_failures.append({
                        "what": "two definitions with different signature-relevant parts have the same signature %s" % s,
                        "kind": "collision", "attribute": "any", "family": family("any", defs[i], defs[j]), "tool": defs[i]["tool"],
                        "input": {"base": show(defs[i]), "variant": show(defs[j]), "lines": [lines[i], lines[j]]}})
        res.evaluations += 2 * len(defs)
        res.distinct_nontrivial += nontriv
        d = res.distribution
        d["bases"] = d.get("bases", 0) + len(bases)
        d["definitions"] = d.get("definitions", 0) + len(defs)
        d["pairs"] = d.get("pairs", 0) + len(pairs)
        d["pairs_with_different_relevant_part"] = d.get("pairs_with_different_relevant_part", 0) + nontriv
        kd = d.setdefault("pair_kinds", {})
        for k, n in kinds.items():
            kd[k] = kd.get(k, 0) + n
        d["signature_groups_with_two_relevant_parts"] = d.get("signature_groups_with_two_relevant_parts", 0) + glob
        res.samples.append({"definition": lines[0], "signature": sigs[0]})

    def hash_stream(self, ctx, res):
        rng = ctx.rng
        strs = [b"", b"a", b"ab"]
        top = 300 if ctx.thorough else 140
        for n in range(top):
            strs.append(bytes(rng.below(256) for _ in range(n)))
            strs.append(bytes([97 + (i % 3) for i in range(n)]))
        for n in (511, 512, 513, 1000, 4096, 4097):
            strs.append(bytes(rng.below(256) for _ in range(n)))
        lines = [C.hexs(s) for s in strs]
        import threading
        r = {}
        t1 = threading.Thread(target=lambda: r.__setitem__("m", C.run_lines(self.model_cmd("c09hashstr"), lines)))
        t2 = threading.Thread(target=lambda: r.__setitem__("h", C.run_lines([ctx.exe[("vc09", "plain")], "hashstr"], lines)))
        t1.start(); t2.start(); t1.join(); t2.join()
        (mrc, mout, merr), (hrc, hout, herr) = r["m"], r["h"]
        if hrc != 0 or len(hout) != len(lines):
            res.mismatches.append({"stream": "c09hashstr", "input": "harness exit %d" % hrc, "impl": herr[-300:]})
            return
        if mrc != 0 or len(mout) != len(lines):
            if ctx.model_ok:
                res.mismatches.append({"stream": "c09hashstr", "input": "model driver exit %d" % mrc, "model": merr[-300:]})
            return
        for i in range(len(lines)):
            if mout[i] != hout[i] and len(res.mismatches) < 20:
                res.mismatches.append({"stream": "c09hashstr", "input": lines[i][:200], "model": mout[i], "impl": hout[i]})
        res.evaluations += len(lines)
        res.distribution["hash_strings"] = len(lines)
        res.distribution["hash_string_lengths"] = "0..%d, 511..513, 1000, 4096, 4097" % (top - 1)

    def corpus(self, ctx, res):
        p = os.path.join(C.VERIF, "corpus", "C09", "witnesses.ops")
        lines = [l.strip() for l in open(p) if l.strip()]
        sigs = self.run_defs(ctx, res, lines, "c09sig-corpus")
        if sigs is None:
            return
        # lines come in colliding groups of the pre-repair tree: (0,1) (2,3) (4,5,6) (8,9)
        for grp, fam in (((0, 1), "list-boundary"), ((2, 3), "list-boundary"), ((4, 5, 6), "deps-style-both-used"), ((8, 9), "list-boundary")):
            for i in grp[1:]:
                if sigs[grp[0]] == sigs[i]:
                    res.oracle_failures.append({
                        "what": "corpus witness: two different definitions have the same signature %s" % sigs[i],
                        "kind": "collision", "attribute": "corpus", "family": fam, "tool": lines[i].split(" ")[0],
                        "input": {"lines": [lines[grp[0]], lines[i]]}})
        res.evaluations += 2 * len(lines)

    def replay(self, ctx, res):
        f = json.load(open(ctx.replay_path)).get("failure", {})
        lines = f.get("input", {}).get("lines") or ([f["input"]["line"]] if "line" in f.get("input", {}) else [])
        if f.get("family") == "mutated-output":
            cfg = f.get("input", {}).get("config")
            self.mutated_histories(ctx, res, only=(cfg[0], cfg[1], cfg[2]) if cfg else None)
            return
        if f.get("kind") in ("not-rerun", "rerun-without-change", "history-driver"):
            # a two-build history: run them all again; the failing one is reported whatever STRICT_UNSIGNED_ATTRIBUTES says
            self.histories(ctx, res)
            for h in res.extra.get("histories", []):
                if h["tool"] == f.get("tool") and h["attribute"] in str(f.get("attribute")) and h["hashed"] is False and not h["reran_after_change"] \
                        and not any(o.get("tool") == h["tool"] and h["attribute"] in str(o.get("attribute")) for o in res.oracle_failures):
                    res.oracle_failures.append(dict(f, what="(replayed) " + f.get("what", "")))
            return
        if not lines:
            C.log("replay file carries no definition lines")
            return
        sigs = self.run_defs(ctx, res, lines, "c09sig-replay")
        C.log("replay: %s" % list(zip(lines, sigs or [])))
        if sigs and len(sigs) == 2 and (sigs[0] == sigs[1]) == (f.get("kind") == "collision"):
            res.oracle_failures.append(dict(f, what="(replayed) " + f.get("what", "")))

    def correspond(self, ctx, res):
        if getattr(ctx, "replay_path", None):
            return self.replay(ctx, res)
        self.corpus(ctx, res)
        self.hash_stream(ctx, res)
        self.pairs(ctx, res, self.bases(ctx, 2500 if ctx.thorough else 200), "c09sig")
        self.pairs(ctx, res, self.obases(ctx, 1500 if ctx.thorough else 150), "c09sig-tools", line_of=oline_of, relevant=ohashed, variants=ovariants)
        self.configure_stream(ctx, res)
        self.attr_tables(ctx, res)
        self.histories(ctx, res)
        self.mutated_histories(ctx, res)
        res.rule = ("every generated base definition (shell / phony tool, through the real BuildFile loader) against every definition that differs "
                    "from it in exactly one attribute, including every move of a boundary between adjacent lists and between adjacent elements; "
                    "each definition's getSignature() computed in two separate processes and by the Lean model (bit-exact). "
                    "The same for clang / mkdir / archive / shared-library / swift-compiler / symlink / stale-file-removal commands and for node rules "
                    "(BuildNode::getSignature observed on the output node of a producing command).  Stream c09configure: every base definition as an ORDERED key list "
                    "plus order permutations, repeated keys, scalar forms of list attributes, invalid values, unknown keys, wrong value kinds, relative working "
                    "directories: every member the real loader leaves in the command object (signature, inputs, outputs, descriptions, and for the shell tool "
                    "every data member) and every diagnostic against BSAttrs.run on the generated tables; python oracle: equivalent definitions load identically, "
                    "unsigned keys do not move the signature, shell definitions whose loaded hashed members differ have different signatures.  Stream c09mutated: 18 (thorough: all 536) "
                    "descriptions with a `nodes:` section declaring output nodes `is-mutated: true` - a producer with 2-4 file outputs in every declaration order and a "
                    "command-timestamp output, a mutator ordered after it that edits the mutated outputs in place - each driven through a chain of builds of bin/llbuild with "
                    "every output in turn deleted / overwritten, mutated outputs modified in place, an unproduced output appearing, input and definition edits and null builds: "
                    "the producer is re-executed iff definition / input changed, a non-mutated output no longer matches or a mutated output disappeared / appeared; every scan also "
                    "against the generated decision chain of ExternalCommand::isResultValid (c09valid).  18 two-build histories through bin/llbuild "
                    "(one attribute changed between the builds). "
                    "Non-trivial = pairs whose signature-relevant parts differ.")
        res.exhaustive = False

    def search(self, ctx, res, why):
        # a proof obligation or the tie broke and the normal pass found no failing pair: widen the enumeration
        if getattr(ctx, "replay_path", None):
            return
        self.pairs(ctx, res, self.bases(ctx, 3000), "c09sig-search")


CHECK = Check()
