"""C09 (signature half) — definitions differing in a signature-relevant part have different signatures;
an unchanged definition has the same signature in every process."""
import json, os
from .. import common as C
from ..runner import PropertyCheck

SHELL_ONLY = ("args", "env", "deps", "style", "inh", "csi", "sig")


def hl(l):
    return ",".join(C.hexs(x) for x in l) if l else "."


def line_of(d):
    b = lambda x: "1" if x else "0"
    return " ".join([d["tool"], C.hexs(d["name"]), hl(d["inputs"]), hl(d["outputs"]), b(d["ami"]), b(d["amo"]), b(d["aood"]),
                     hl(d["args"]), hl([k for k, _ in d["env"]]), hl([v for _, v in d["env"]]), hl(d["deps"]),
                     str(d["style"]), b(d["inh"]), b(d["csi"]), C.hexs(d["sig"])])


def relevant(d):
    """Independent restatement of the signature-relevant part (python oracle).  The explicit signature
    replaces args/env/deps/deps-style/inherit-env/can-safely-interrupt (docs/buildsystem.rst)."""
    common = (d["tool"], d["name"], tuple(d["inputs"]), tuple(d["outputs"]), d["ami"], d["amo"], d["aood"])
    if d["tool"] != "shell":
        return common
    if d["sig"]:
        return common + (("explicit", d["sig"]),)
    return common + (("builtin", tuple(d["args"]), tuple(d["env"]), tuple(d["deps"]), d["style"], d["inh"], d["csi"]),)


def show(d):
    r = {}
    for k, v in d.items():
        if isinstance(v, bytes):
            r[k] = v.decode("latin-1")
        elif isinstance(v, list):
            r[k] = [x.decode("latin-1") if isinstance(x, bytes) else [y.decode("latin-1") for y in x] for x in v]
        else:
            r[k] = v
    return r


def list_variants(attr, l, fresh):
    """single-attribute edits of one string list: element edits and every move of a boundary between adjacent elements"""
    out = []
    out.append((attr + ":append", l + [fresh]))
    out.append((attr + ":prepend", [fresh] + l))
    if l:
        out.append((attr + ":remove-last", l[:-1]))
        out.append((attr + ":remove-first", l[1:]))
        out.append((attr + ":dup-last", l + [l[-1]]))
    for i, e in enumerate(l):
        out.append((attr + ":change", l[:i] + [e + b"x"] + l[i + 1:]))
        if e:
            out.append((attr + ":change", l[:i] + [e[:-1]] + l[i + 1:]))
        for k in range(0, len(e) + 1):       # split one element in two (includes splitting off an empty string)
            out.append((attr + ":split", l[:i] + [e[:k], e[k:]] + l[i + 1:]))
    for i in range(len(l) - 1):
        a, b = l[i], l[i + 1]
        if a != b:
            out.append((attr + ":swap", l[:i] + [b, a] + l[i + 2:]))
        out.append((attr + ":merge", l[:i] + [a + b] + l[i + 2:]))
        if a:
            out.append((attr + ":shift", l[:i] + [a[:-1], a[-1:] + b] + l[i + 2:]))
        if b:
            out.append((attr + ":shift", l[:i] + [a + b[:1], b[1:]] + l[i + 2:]))
    return out


def variants(d):
    """every definition differing from d in exactly one attribute / one boundary move: [(kind, def)]"""
    out = []

    def put(kind, **kw):
        n = dict(d)
        n.update(kw)
        out.append((kind, n))
    shell = d["tool"] == "shell"
    put("name", name=d["name"] + b"x")
    if d["name"]:
        put("name", name=d["name"][:-1])
    for attr in ("inputs", "outputs") + (("args", "deps") if shell else ()):
        for kind, nl in list_variants(attr, d[attr], b"n"):
            put(kind, **{attr: nl})
    # boundary moves between adjacent lists of the hash chain
    if d["inputs"]:
        put("move:inputs>outputs", inputs=d["inputs"][:-1], outputs=[d["inputs"][-1]] + d["outputs"])
    if d["outputs"]:
        put("move:outputs>inputs", inputs=d["inputs"] + [d["outputs"][0]], outputs=d["outputs"][1:])
    for f in ("ami", "amo", "aood"):
        put("flag:" + f, **{f: not d[f]})
    if shell:
        env = d["env"]
        put("env:append", env=env + [(b"N", b"n")])
        put("env:prepend", env=[(b"N", b"n")] + env)
        if env:
            put("env:remove-last", env=env[:-1])
            put("env:remove-first", env=env[1:])
        for i, (k, v) in enumerate(env):
            put("env:key", env=env[:i] + [(k + b"x", v)] + env[i + 1:])
            put("env:value", env=env[:i] + [(k, v + b"x")] + env[i + 1:])
            if k != v:
                put("env:swap-kv", env=env[:i] + [(v, k)] + env[i + 1:])
            if k:
                put("env:kv-shift", env=env[:i] + [(k[:-1], k[-1:] + v)] + env[i + 1:])
            if v:
                put("env:kv-shift", env=env[:i] + [(k + v[:1], v[1:])] + env[i + 1:])
        for i in range(len(env) - 1):
            if env[i] != env[i + 1]:
                put("env:swap", env=env[:i] + [env[i + 1], env[i]] + env[i + 2:])
            (k1, v1), (k2, v2) = env[i], env[i + 1]
            put("env:pair-shift", env=env[:i] + [(k1, v1 + k2), (b"", v2)] + env[i + 2:])
        a, dp = d["args"], d["deps"]
        if len(a) >= 2:
            put("move:args>env", args=a[:-2], env=[(a[-2], a[-1])] + env)
        if env:
            put("move:env>args", args=a + [env[0][0], env[0][1]], env=env[1:])
            put("move:env>deps", env=env[:-1], deps=[env[-1][0], env[-1][1]] + dp)
        if len(dp) >= 2:
            put("move:deps>env", env=env + [(dp[0], dp[1])], deps=dp[2:])
        if not env:
            if a:
                put("move:args>deps", args=a[:-1], deps=[a[-1]] + dp)
            if dp:
                put("move:deps>args", args=a + [dp[0]], deps=dp[1:])
        for s in range(4):
            if s != d["style"]:
                put("style", style=s)
        put("flag:inh", inh=not d["inh"])
        put("flag:csi", csi=not d["csi"])
        if d["sig"]:
            put("sig:change", sig=d["sig"] + b"x")
            put("sig:clear", sig=b"")
            # the explicit signature replaces the built-in strategy: these edits must NOT change the signature
            put("irrelevant:args", args=a + [b"zz"])
            put("irrelevant:style", style=(d["style"] + 1) % 4)
            put("irrelevant:inh", inh=not d["inh"])
        else:
            put("sig:set", sig=b"s")
            if a:
                put("sig:set", sig=a[-1])
    return out


def flat(d, style):
    """the definition with list boundaries erased (and, optionally, the used deps styles identified)"""
    env = [x for kv in d["env"] for x in kv]
    st = d["style"] if not style else min(d["style"], 1)
    return (d["tool"], d["name"], tuple(d["inputs"] + d["outputs"]), d["ami"], d["amo"], d["aood"],
            tuple(d["args"] + env + d["deps"]), st, d["inh"], d["csi"], d["sig"])


def family(kind, b, v):
    if kind == "any":     # a colliding pair met outside the single-attribute enumeration: classify by what separates them
        if flat(b, False) == flat(v, False):
            return "list-boundary"
        if dict(b, style=0) == dict(v, style=0) and b["style"] and v["style"]:
            return "deps-style-both-used"
        if flat(b, True) == flat(v, True):
            return "list-boundary+deps-style"
        return "global"
    if kind.startswith("move:"):
        return "list-boundary"
    if kind == "style":
        return "deps-style-both-used" if b["style"] != 0 and v["style"] != 0 else "deps-style-unused-vs-used"
    return kind.split(":")[0]


class Check(PropertyCheck):
    prop = "C09"
    module = "LLBuild.Props.C09All"
    theorems = ["LLBuild.Signature.C09_sig_injective", "LLBuild.Signature.C09_sig_injective_external",
                "LLBuild.Signature.C09_sig_pure", "LLBuild.Signature.C09_sig_defined",
                "LLBuild.Signature.C09_seed_fixed", "LLBuild.Signature.C09_prefix_not_injective",
                "LLBuild.Signature.C09_prefix_external_not_injective",
                "LLBuild.Signature.C09_prefix_collision_inputs_outputs", "LLBuild.Signature.C09_prefix_collision_args_env",
                "LLBuild.Signature.C09_prefix_collision_deps_style",
                # history half, on the abstract engine (tie to BuildEngine.cpp: the engine checks C01/C02)
                "LLBuild.Engine.C02_null_build_after_build", "LLBuild.Engine.C09_changed_definition_reruns",
                "LLBuild.Engine.C09_changed_definition_signature_differs", "LLBuild.Engine.C09_unchanged_definition_needs_other_reason"]
    extractors = ["x_signature"]
    harnesses = [("vc09", "plain")]
    assumptions = [
        "injectivity is proved for the pre-hash term; collisions of llvm::hash_combine's 64-bit mixing are out of scope (a collision met by the correspondence/oracle is still reported)",
        "list lengths below 2^64 (terms carry unbounded naturals)",
        "the null-build / re-run-iff half of C09 rests on the engine model (C02) and is not part of this check",
        "CommandDef -> field values: the loader's configure* functions store attribute values unchanged (exercised, not proved: every generated definition goes through the real BuildFile loader)",
    ]
    trusted_base = ["extractor x_signature (clang-14 JSON AST -> recipe; overload resolved through the callee decl id; Hashing.h text shapes)",
                    "hand model of llvm::hash_value/hash_combine/hash_short/hash_state (bit-exact correspondence on every run)",
                    "harness vc09 (real BuildSystem + BuildFile loader; getSignature() observed in commandPreparing)",
                    "python oracle `relevant` (independent restatement of the signature-relevant part)"]

    # ------------------------------------------------------------------ generation
    def bases(self, ctx, n):
        rng = ctx.rng
        words = [b"a", b"b", b"ab", b"ba", b"a b", b"", b"x=1", b"k", b"v", b"-c", b"/p/q", b"<t>", b"d/", b"a,b", b"\"q\"", b"s"]
        nodes = [w for w in words if w]

        def lst(pool, mx):
            return [rng.choice(pool) for _ in range(rng.below(mx + 1))]
        out = []
        # hand-written seeds: the three pre-finding witnesses' left sides and an everything-empty definition
        seed = dict(tool="shell", name=b"C1", inputs=[b"a", b"b"], outputs=[b"c"], ami=False, amo=False, aood=False,
                    args=[b"x", b"k", b"v"], env=[], deps=[], style=0, inh=True, csi=True, sig=b"")
        out.append(seed)
        out.append(dict(seed, deps=[b"d", b"e"], style=1, env=[(b"k", b"v")]))
        out.append(dict(seed, inputs=[], outputs=[], args=[], name=b""))
        out.append(dict(seed, tool="phony"))
        out.append(dict(seed, sig=b"sig"))
        for i in range(n):
            shell = rng.chance(4, 5)
            d = dict(tool="shell" if shell else "phony", name=rng.choice([b"C", b"cmd 1", b"<c>", b"a", b""]) if rng.chance(1, 4) else b"C%d" % i,
                     inputs=lst(nodes, 3), outputs=lst(nodes, 3),
                     ami=rng.chance(1, 4), amo=rng.chance(1, 4), aood=rng.chance(1, 4),
                     args=[], env=[], deps=[], style=0, inh=True, csi=True, sig=b"")
            if shell:
                d["args"] = lst(words, 4)
                d["env"] = [(rng.choice(words), rng.choice(words)) for _ in range(rng.below(3))]
                d["deps"] = lst(words, 3)
                d["style"] = rng.below(4)
                d["inh"] = rng.chance(1, 2)
                d["csi"] = rng.chance(1, 2)
                d["sig"] = rng.choice([b"s", b"sig 2", b"a"]) if rng.chance(1, 6) else b""
            out.append(d)
        return out

    def run_defs(self, ctx, res, lines, tag):
        """two harness processes (different environment and working directory) + the Lean model"""
        import threading
        exe = ctx.exe[("vc09", "plain")]
        r = {}

        def a():
            r["A"] = C.run_lines([exe, "sig"], lines, env={"C09_PROC": "A"})

        def b():
            p = __import__("subprocess").run([exe, "sig"], input=("\n".join(lines) + "\n").encode(), stdout=-1, stderr=-1,
                                             cwd="/", env={"C09_PROC": "B", "PATH": "/usr/bin", "TZ": "UTC+7", "LANG": "C"})
            o = p.stdout.decode().split("\n")
            if o and o[-1] == "":
                o.pop()
            r["B"] = (p.returncode, o, p.stderr.decode("utf-8", "replace"))

        def m():
            r["M"] = C.run_lines(self.model_cmd("c09sig"), lines)
        ts = [threading.Thread(target=f) for f in (a, b, m)]
        [t.start() for t in ts]
        [t.join() for t in ts]
        (arc, aout, aerr), (brc, bout, berr), (mrc, mout, merr) = r["A"], r["B"], r["M"]
        if arc != 0 or len(aout) != len(lines) or brc != 0 or len(bout) != len(lines):
            res.mismatches.append({"stream": tag, "input": "harness exit %d/%d, %d,%d/%d lines" % (arc, brc, len(aout), len(bout), len(lines)), "impl": (aerr + berr)[-300:]})
            return None
        model_ok = mrc == 0 and len(mout) == len(lines)
        if ctx.model_ok and not model_ok:
            res.mismatches.append({"stream": tag, "input": "model driver exit %d" % mrc, "model": merr[-300:]})
        nm = 0
        for i in range(len(lines)):
            if aout[i] != bout[i]:
                res.oracle_failures.append({"what": "the same definition has different signatures in two processes: %s vs %s" % (aout[i], bout[i]),
                                            "kind": "process-dependent", "family": "process", "input": {"line": lines[i]}})
            if len(aout[i]) != 16:
                res.mismatches.append({"stream": tag, "input": lines[i], "model": mout[i] if model_ok else "?", "impl": aout[i]})
            elif model_ok and mout[i] != aout[i]:
                nm += 1
                if nm <= 10:
                    res.mismatches.append({"stream": tag, "input": lines[i], "model": mout[i], "impl": aout[i]})
        res.extra.setdefault("model_impl_value_mismatches", 0)
        res.extra["model_impl_value_mismatches"] += nm
        return aout

    def model_cmd(self, mode):
        if os.environ.get("VERIF_C09_PRIVATE_DRIVER"):
            return ["lake", "--dir", C.LEAN, "env", "lean", "--run", os.path.join(C.LEAN, "DriverC09.lean"), mode]
        return [C.model_exe(), mode]

    def pairs(self, ctx, res, bases, tag):
        defs, index, pairs = [], {}, []

        def idx(d):
            l = line_of(d)
            if l not in index:
                index[l] = len(defs)
                defs.append(d)
            return index[l]
        for b in bases:
            bi = idx(b)
            for kind, v in variants(b):
                pairs.append((bi, idx(v), kind))
        lines = [line_of(d) for d in defs]
        sigs = self.run_defs(ctx, res, lines, tag)
        if sigs is None:
            return
        kinds, nontriv = {}, 0
        for bi, vi, kind in pairs:
            b, v = defs[bi], defs[vi]
            rb, rv = relevant(b), relevant(v)
            kinds[kind] = kinds.get(kind, 0) + 1
            if rb != rv:
                nontriv += 1
                if sigs[bi] == sigs[vi]:
                    res.oracle_failures.append({
                        "what": "two definitions differing in a signature-relevant part (%s) have the same signature %s" % (kind, sigs[bi]),
                        "kind": "collision", "attribute": kind, "family": family(kind, b, v), "tool": b["tool"],
                        "input": {"base": show(b), "variant": show(v), "lines": [lines[bi], lines[vi]]}})
            elif sigs[bi] != sigs[vi]:
                res.oracle_failures.append({
                    "what": "two definitions with the same signature-relevant part (%s) have different signatures %s / %s" % (kind, sigs[bi], sigs[vi]),
                    "kind": "impure", "attribute": kind, "family": family(kind, b, v), "tool": b["tool"],
                    "input": {"base": show(b), "variant": show(v), "lines": [lines[bi], lines[vi]]}})
        # all definitions of the run against each other: equal signature => equal relevant part
        by = {}
        glob = 0
        for i, s in enumerate(sigs):
            by.setdefault((defs[i]["tool"], s), []).append(i)
        for (_, s), ii in by.items():
            rels = {}
            for i in ii:
                rels.setdefault(relevant(defs[i]), i)
            if len(rels) > 1:
                glob += 1
                i, j = list(rels.values())[:2]
                if not any(f.get("kind") == "collision" and set(f["input"]["lines"]) == {lines[i], lines[j]} for f in res.oracle_failures):
                    res.oracle_failures.append({
                        "what": "two definitions with different signature-relevant parts have the same signature %s" % s,
                        "kind": "collision", "attribute": "any", "family": family("any", defs[i], defs[j]), "tool": defs[i]["tool"],
                        "input": {"base": show(defs[i]), "variant": show(defs[j]), "lines": [lines[i], lines[j]]}})
        res.evaluations += 2 * len(defs)
        res.distinct_nontrivial += nontriv
        d = res.distribution
        d["bases"] = d.get("bases", 0) + len(bases)
        d["definitions"] = d.get("definitions", 0) + len(defs)
        d["pairs"] = d.get("pairs", 0) + len(pairs)
        d["pairs_with_different_relevant_part"] = d.get("pairs_with_different_relevant_part", 0) + nontriv
        kd = d.setdefault("pair_kinds", {})
        for k, n in kinds.items():
            kd[k] = kd.get(k, 0) + n
        d["signature_groups_with_two_relevant_parts"] = d.get("signature_groups_with_two_relevant_parts", 0) + glob
        res.samples.append({"definition": lines[0], "signature": sigs[0]})

    def hash_stream(self, ctx, res):
        rng = ctx.rng
        strs = [b"", b"a", b"ab"]
        top = 300 if ctx.thorough else 140
        for n in range(top):
            strs.append(bytes(rng.below(256) for _ in range(n)))
            strs.append(bytes([97 + (i % 3) for i in range(n)]))
        for n in (511, 512, 513, 1000, 4096, 4097):
            strs.append(bytes(rng.below(256) for _ in range(n)))
        lines = [C.hexs(s) for s in strs]
        import threading
        r = {}
        t1 = threading.Thread(target=lambda: r.__setitem__("m", C.run_lines(self.model_cmd("c09hashstr"), lines)))
        t2 = threading.Thread(target=lambda: r.__setitem__("h", C.run_lines([ctx.exe[("vc09", "plain")], "hashstr"], lines)))
        t1.start(); t2.start(); t1.join(); t2.join()
        (mrc, mout, merr), (hrc, hout, herr) = r["m"], r["h"]
        if hrc != 0 or len(hout) != len(lines):
            res.mismatches.append({"stream": "c09hashstr", "input": "harness exit %d" % hrc, "impl": herr[-300:]})
            return
        if mrc != 0 or len(mout) != len(lines):
            if ctx.model_ok:
                res.mismatches.append({"stream": "c09hashstr", "input": "model driver exit %d" % mrc, "model": merr[-300:]})
            return
        for i in range(len(lines)):
            if mout[i] != hout[i] and len(res.mismatches) < 20:
                res.mismatches.append({"stream": "c09hashstr", "input": lines[i][:200], "model": mout[i], "impl": hout[i]})
        res.evaluations += len(lines)
        res.distribution["hash_strings"] = len(lines)
        res.distribution["hash_string_lengths"] = "0..%d, 511..513, 1000, 4096, 4097" % (top - 1)

    def corpus(self, ctx, res):
        p = os.path.join(C.VERIF, "corpus", "C09", "witnesses.ops")
        lines = [l.strip() for l in open(p) if l.strip()]
        sigs = self.run_defs(ctx, res, lines, "c09sig-corpus")
        if sigs is None:
            return
        # lines come in colliding groups of the pre-repair tree: (0,1) (2,3) (4,5,6) (8,9)
        for grp, fam in (((0, 1), "list-boundary"), ((2, 3), "list-boundary"), ((4, 5, 6), "deps-style-both-used"), ((8, 9), "list-boundary")):
            for i in grp[1:]:
                if sigs[grp[0]] == sigs[i]:
                    res.oracle_failures.append({
                        "what": "corpus witness: two different definitions have the same signature %s" % sigs[i],
                        "kind": "collision", "attribute": "corpus", "family": fam, "tool": lines[i].split(" ")[0],
                        "input": {"lines": [lines[grp[0]], lines[i]]}})
        res.evaluations += 2 * len(lines)

    def replay(self, ctx, res):
        f = json.load(open(ctx.replay_path)).get("failure", {})
        lines = f.get("input", {}).get("lines") or ([f["input"]["line"]] if "line" in f.get("input", {}) else [])
        if not lines:
            C.log("replay file carries no definition lines")
            return
        sigs = self.run_defs(ctx, res, lines, "c09sig-replay")
        C.log("replay: %s" % list(zip(lines, sigs or [])))
        if sigs and len(sigs) == 2 and (sigs[0] == sigs[1]) == (f.get("kind") == "collision"):
            res.oracle_failures.append(dict(f, what="(replayed) " + f.get("what", "")))

    def correspond(self, ctx, res):
        if getattr(ctx, "replay_path", None):
            return self.replay(ctx, res)
        self.corpus(ctx, res)
        self.hash_stream(ctx, res)
        self.pairs(ctx, res, self.bases(ctx, 2500 if ctx.thorough else 200), "c09sig")
        res.rule = ("every generated base definition (shell / phony tool, through the real BuildFile loader) against every definition that differs "
                    "from it in exactly one attribute, including every move of a boundary between adjacent lists and between adjacent elements; "
                    "each definition's getSignature() computed in two separate processes and by the Lean model (bit-exact). "
                    "Non-trivial = pairs whose signature-relevant parts differ.")
        res.exhaustive = False

    def search(self, ctx, res, why):
        # a proof obligation or the tie broke and the normal pass found no failing pair: widen the enumeration
        if getattr(ctx, "replay_path", None):
            return
        self.pairs(ctx, res, self.bases(ctx, 3000), "c09sig-search")


CHECK = Check()
