"""C07 — dependency cycles are always detected and reported accurately, never falsely."""
from .engine_common import EngineCheck

E = "LLBuild.Engine."


class Check(EngineCheck):
    prop = "C07"
    module = "LLBuild.Props.C07All"
    theorems = [E + "C07_lasso", E + "C07_empty_report_only_when_root_complete", E + "C07_wait_for_is_real", E + "C07_parked_dep", E + "C07_failure_has_cause", E + "C07_cycle_never_succeeds", E + "Clean_not_cyclic",
                "LLBuild.Refine.refinement_final", "LLBuild.Refine.EngineImpl_sound_C07_cycle", "LLBuild.Refine.EngineImpl_sound_C05_quiescent",
                "LLBuild.Refine.build_terminates", "LLBuild.Refine.EngineImpl_terminates", "LLBuild.Refine.EngineImpl_sound_C07_cycle_sized",
                # on the concrete model's printed traces (Props/EngineImplSched4.lean): a reported cycle is a real wait-for lasso of
                # tokens of the same trace; the empty report only after the root completed (F30); a statically acyclic program never
                # gets a report; a cycle in the reference graph (value, must-follow, single-use or recorded edges) is never survived
                "LLBuild.Refine.EngineImpl_sound_C07_reported_cycle_real", "LLBuild.Refine.EngineImpl_sound_C07_empty_report",
                "LLBuild.Refine.EngineImpl_sound_C07_never_falsely", "LLBuild.Refine.EngineImpl_sound_C07_cycle_always_detected",
                "LLBuild.Refine.EngineImpl_sound_C07_value_cycle", "LLBuild.Refine.runBuildA_CY_blocked",
                E + "engine_fingerprint_matches_model"]
    mix = [(0.35, {"cyclic": True}), (0.25, {"cyclic": True, "malformed": True}), (0.15, {"cyclic": True, "cancel": True}), (0.1, {}),
           # cycles that appear after an input changed and close through dependencies an earlier build recorded
           (0.15, {"latent": True})]
    budget = (300, 3000)
    assumptions = EngineCheck.assumptions + [
        "'never stalls': for the transliterated engine it is the theorem EngineImpl_terminates (no build emits the stall or fuel marker, under the computable size condition histSized); on the real engine it is additionally watched by the harness's watchdog; 'a real cycle is always reported' is proved in the form C07_cycle_never_succeeds (no accepted history ends a build of a key in a cyclic set successfully) for cycles through value-carrying requests at monitor level, and as EngineImpl_sound_C07_cycle_always_detected for cycles through ANY edge (value, must-follow, single-use, recorded dependencies being scanned) on the concrete model; on the real engine's traces the python reference evaluation of the demanded graph judges in addition"]


CHECK = Check()
