"""C03 (database layer) — build state survives restarts exactly: the real core::BuildDB (createSQLiteBuildDB)
against the Lean model LLBuild/Model/BuildDB.lean, plus a python oracle that restates the property on the
real code's outputs (read-your-writes + frame across reopen, version gate, second writer refused).

Reusable by the engine-level checks and by c04.py:
    model_cmd(mode)                     the model driver command line (shared exe, or a private link of it)
    Spec                                the python restatement of "the database is a durable map key -> result"
    gen_history(rng, ...)               one structured op history with the Spec's expectations attached
    run_db(ctx, lines, model_mode)      feed op lines to harness `vc03 db` and to the model
    KEY_POOL / key_pool(rng, thorough)  the key generator (NUL, non-UTF-8, numeric-looking spellings, long keys)
"""
import os, subprocess, threading
from .. import common as C
from ..runner import PropertyCheck

# --------------------------------------------------------------------------------------------------
# model driver (until the modes are in the shared Driver.lean a private executable is linked from the
# same compiled modules; after integration the shared exe is used)
# --------------------------------------------------------------------------------------------------
_PRIVATE_MAIN = """import LLBuild.Drv.Common
import LLBuild.Drv.C03
import LLBuild.Drv.C04
open LLBuild.Drv
def allModes : List (String × Mode) := LLBuild.Drv.C03.modes ++ LLBuild.Drv.C04.modes
def main (args : List String) : IO UInt32 := do
  let stdin ← IO.getStdin
  let stdout ← IO.getStdout
  match args with
  | [m] =>
    match allModes.lookup m with
    | some f => f stdin stdout; return 0
    | none => IO.eprintln s!"unknown mode {m}"; return 2
  | _ => IO.eprintln "usage: <mode>"; return 2
"""
_MODS = ["Model/Bytes", "Generated/SQLiteDB", "Model/BuildDB", "Drv/Common", "Drv/C03", "Drv/C04"]
_model = {}


def model_cmd(mode):
    if "exe" not in _model:
        shared = C.model_exe()
        ok = False
        if os.path.exists(shared):
            p = subprocess.run([shared, "c03merged"], input=b"", stdout=subprocess.PIPE, stderr=subprocess.PIPE)
            ok = p.returncode == 0
        if ok:
            _model["exe"] = shared
        else:
            d = os.path.join(C.BUILD, "model")
            os.makedirs(d, exist_ok=True)
            src = os.path.join(d, "DriverC03.lean")
            with open(src, "w") as f:
                f.write(_PRIVATE_MAIN)
            exe = os.path.join(d, "c03model")
            with C.Lock("lake"):
                rc, out = C.run(["lake", "build"] + ["+LLBuild.%s:c.o" % m.replace("/", ".") for m in _MODS], cwd=C.LEAN)
                if rc == 0:
                    rc, out = C.run(["lake", "env", "lean", "--root=" + d, "-c", os.path.join(d, "DriverC03.c"), src], cwd=C.LEAN)
                if rc == 0:
                    ir = os.path.join(C.LEAN, ".lake", "build", "ir", "LLBuild")
                    rc, out = C.run(["leanc", "-O2", "-o", exe, os.path.join(d, "DriverC03.c")] +
                                    [os.path.join(ir, m + ".c.o.export") for m in _MODS], cwd=C.LEAN)
            if rc != 0:
                C.log("private model driver failed to build:\n" + out[-2000:])
                exe = None
            _model["exe"] = exe
    return [_model["exe"], mode] if _model["exe"] else None


# --------------------------------------------------------------------------------------------------
# key / value generators
# --------------------------------------------------------------------------------------------------
NUMERIC_LOOKING = [b"0123", b"123", b"1e3", b"1000", b".5", b"0.5", b" 12 ", b"12", b"+7", b"7", b"-0", b"0", b"1.0", b"1",
                   b"00", b"5.", b"1e-2", b"0.01", b"9223372036854775807", b"9223372036854775808", b"1E2", b"100"]
PLAIN = [b"", b"a", b"b", b"a\x00b", b"a\x00", b"\x00", b"\xff\xfe", b"\x80", b"N/path/to/file.o", b"Ccommand", b"1e", b"0x10", b"e3", b"1 2"]
ALPHA = [0, 0x30, 0x31, 0x32, 0x39, 0x65, 0x2e, 0x20, 0x61, 0xff, 0x80, 0x2d, 0x2b, 0x45]


def key_pool(rng, thorough, n=8):
    pool = [rng.choice(NUMERIC_LOOKING) for _ in range(3)] + [rng.choice(PLAIN) for _ in range(2)]
    pool.append(rng.bytes_from(ALPHA, 6))
    pool.append(rng.bytes_from(ALPHA, 6))
    pool.append(bytes([rng.choice(ALPHA)]) + b"L" * (10240 if thorough else 300) + rng.bytes_from(ALPHA, 3))
    # pairs that NUMERIC affinity would merge
    a = rng.choice([(b"0123", b"123"), (b"1e3", b"1000"), (b".5", b"0.5"), (b" 12 ", b"12"), (b"1.0", b"1")])
    pool += list(a)
    out = []
    for k in pool:
        if k not in out:
            out.append(k)
    return rng.shuffle(out)[:max(n, 4)]


def rand_value(rng):
    k = rng.below(6)
    if k == 0:
        return b""
    if k == 1:
        return bytes([0])
    return rng.bytes_from(list(range(256)), 12, 1)


def rand_u64(rng):
    k = rng.below(8)
    if k == 0:
        return 0
    if k == 1:
        return (1 << 64) - 1
    if k == 2:
        return 1 << 63
    return rng.next() >> rng.below(64)


# --------------------------------------------------------------------------------------------------
# python oracle: the property restated (no ids, no affinity, no caches): a durable map key -> result
# --------------------------------------------------------------------------------------------------
def fmt_deps(deps):
    return ",".join("%s:%d" % (C.hexs(k), f) for k, f in deps) if deps else "."


def fmt_result(r):
    return "value=%s sig=%d built=%d computed=%d t=3,5 deps=%s" % (C.hexs(r["value"]), r["sig"], r["built"], r["computed"], fmt_deps(r["deps"]))


class Spec:
    """What the property text promises, as a state machine over the same op lines.  `expect(line)` returns the
    output the property demands for that op (None = the property says nothing, e.g. raw dumps)."""

    def __init__(self, schema_version):
        self.schema_version = schema_version
        self.file = None          # None | dict(client, iteration, data)
        self.lock = None
        self.conns = {}

    def fresh(self, client):
        return {"client": client, "iteration": 0, "data": {}}

    def _open(self, c):
        """returns an error string or None"""
        cn = self.conns[c]
        if self.lock is not None and self.lock != c:
            return "error=busy"
        if cn["state"] == "closed":
            if self.file is None or self.file["client"] != cn["client"]:
                if not cn["recreate"]:
                    return "error=version"
                self.file = self.fresh(cn["client"])      # never interpreted: recreated empty
            cn["state"] = "open"
        return None

    def _view(self, c):
        cn = self.conns[c]
        return cn["pending"] if cn["state"] == "txn" else self.file

    def others_open(self, c):
        return [i for i, cn in self.conns.items() if i != c and cn["state"] != "closed"]

    def expect(self, line):
        f = line.split(" ")
        op = f[0]
        if op == "reset":
            self.__init__(self.schema_version)
            return "ok"
        if op == "crash":
            self.conns, self.lock = {}, None
            return "ok"
        if op == "raw":
            return None
        c = int(f[1])
        if op == "new":
            self._drop(c)
            self.conns[c] = {"client": int(f[2]), "recreate": f[3] == "1", "state": "closed", "pending": None}
            return "ok"
        if c not in self.conns:
            return "no-conn"
        cn = self.conns[c]
        if op == "drop":
            self._drop(c)
            return "ok"
        if op == "complete":
            if cn["state"] == "txn":
                self.file, self.lock = cn["pending"], None
            cn["state"], cn["pending"] = "closed", None
            return "ok"
        e = self._open(c)
        if e:
            return e
        if op == "epoch":
            return "epoch=%d" % self._view(c)["iteration"]
        if op == "setiter":
            self._view(c)["iteration"] = int(f[2])
            return "ok"
        if op == "start":
            if cn["state"] == "txn":
                return "error=other"
            self.lock = c
            cn["state"] = "txn"
            cn["pending"] = {"client": self.file["client"], "iteration": self.file["iteration"], "data": dict(self.file["data"])}
            return "ok"
        if op == "set":
            deps = [] if f[7] == "." else [(C.unhex(d.split(":")[0]), int(d.split(":")[1])) for d in f[7].split(",")]
            self._view(c)["data"][C.unhex(f[2])] = {"value": C.unhex(f[3]), "sig": int(f[4]), "built": int(f[5]), "computed": int(f[6]), "deps": deps}
            return "ok"
        if op == "lookup":
            r = self._view(c)["data"].get(C.unhex(f[2]))
            return fmt_result(r) if r else "none"
        if op == "keys":
            d = self._view(c)["data"]
            rows = sorted("key=%s|%s" % (C.hexs(k), fmt_result(r)) for k, r in d.items())
            return "n=%d/%d" % (len(d), len(d)) + "".join(" ; " + r for r in rows)
        return None

    def _drop(self, c):
        if c in self.conns:
            if self.lock == c:
                self.lock = None
            del self.conns[c]


class VersionLedger:
    """The version clause of the property restated on the real code's answers, for ANY op history: "a database
    written under a different schema or client version is never interpreted".  Every record is stored under the
    (schema, client) version pair of the BuildDB object that stored it (the schema version is the same for every
    object of one binary, so the pair is identified by the client version).  A lookup or key enumeration through an
    object with another pair must never hand out such a record - however long that object has been alive, whoever
    recreated the file in between - unless the very same record was also stored for that key under the reader's
    own pair.  `observe(line, impl_output)` returns None or the discriminating details of a violation."""

    def __init__(self, schema_version):
        self.schema_version = schema_version
        self.client = {}          # slot -> client version of the live BuildDB object
        self.written = {}         # key hex -> {result text -> set of client versions that stored it}

    def observe(self, line, impl):
        f = line.split(" ")
        op = f[0]
        if op == "reset":
            self.client, self.written = {}, {}
            return None
        if op == "crash":
            self.client = {}
            return None
        if op in ("raw", "busyms") or len(f) < 2:
            return None
        c = int(f[1])
        if op == "new":
            self.client[c] = int(f[2])
            return None
        if op == "drop":
            self.client.pop(c, None)
            return None
        if c not in self.client:
            return None
        me = self.client[c]
        if op == "set" and impl == "ok":
            deps = [] if f[7] == "." else [(C.unhex(d.split(":")[0]), int(d.split(":")[1])) for d in f[7].split(",")]
            r = fmt_result({"value": C.unhex(f[3]), "sig": int(f[4]), "built": int(f[5]), "computed": int(f[6]), "deps": deps})
            self.written.setdefault(f[2], {}).setdefault(r, set()).add(me)
            return None
        found = []
        if op == "lookup" and impl.startswith("value="):
            found = [(f[2], impl)]
        elif op == "keys" and impl.startswith("n="):
            found = [tuple(r[4:].split("|", 1)) for r in impl.split(" ; ")[1:]]
        for k, r in found:
            who = self.written.get(k, {}).get(r)
            if who and me not in who:
                return {"key": k, "record": r[:200], "reader_version_pair": [self.schema_version, me],
                        "writer_version_pairs": [[self.schema_version, w] for w in sorted(who)]}
        return None


# --------------------------------------------------------------------------------------------------
# structured histories ("valid" stream): processes come and go, builds commit or crash, versions differ,
# a second writer knocks while a build holds the database, a BuildDB object outlives a recreate
# --------------------------------------------------------------------------------------------------
def gen_history(rng, schema_version, thorough=False, nbuilds=None, keys=None, crashy=True):
    """returns (lines, expected) — expected[i] is the Spec's demand for lines[i] (None = unconstrained)"""
    spec = Spec(schema_version)
    keys = keys or key_pool(rng, thorough)
    lines, exp = [], []

    def emit(l):
        lines.append(l)
        exp.append(spec.expect(l))
        return exp[-1]

    def close_idle(except_c=None):
        # discipline: nobody stays open on the file while another client version may recreate it
        for i in list(spec.conns):
            if i != except_c and spec.conns[i]["state"] == "open":
                emit("complete %d" % i)

    def a_set(c, epoch):
        k = rng.choice(keys)
        nd = rng.below(5) if rng.chance(3, 4) else 0
        deps = [(rng.choice(keys), rng.below(4)) for _ in range(nd)]
        built = epoch if rng.chance(3, 4) else rand_u64(rng) % (epoch + 1)
        comp = rng.below(built + 1) if built < (1 << 62) else built
        emit("set %d %s %s %d %d %d %s" % (c, C.hexs(k), C.hexs(rand_value(rng)), rand_u64(rng), built, comp, fmt_deps(deps)))

    emit("reset")
    nb = nbuilds if nbuilds is not None else 2 + rng.below(5)
    clients = [1, 1, 1, 2] if rng.chance(1, 2) else [1]
    long_lived = None     # a BuildDB object that stays alive across other processes' lifetimes
    for b in range(nb):
        client = rng.choice(clients)
        if long_lived is not None and rng.chance(1, 2):
            c = long_lived
            client = spec.conns[c]["client"]
        else:
            c = rng.below(3)
            if c == long_lived:
                long_lived = None
            close_idle(c)
            # refuse branch: the read-only opener never recreates
            if rng.chance(1, 6) and spec.file is not None:
                emit("new 5 %d 0" % rng.choice([1, 2, 3]))
                emit(rng.choice(["epoch 5", "keys 5", "lookup 5 %s" % C.hexs(rng.choice(keys))]))
                emit("drop 5")
            emit("new %d %d 1" % (c, client))
        close_idle(c)
        if rng.chance(1, 2):
            emit("epoch %d" % c)
        for _ in range(rng.below(3)):
            emit("lookup %d %s" % (c, C.hexs(rng.choice(keys))))
        r = emit("start %d" % c)
        if r != "ok":
            emit("drop %d" % c)
            continue
        epoch = spec._view(c)["iteration"] + 1
        for _ in range(1 + rng.below(5)):
            a_set(c, epoch)
            if rng.chance(1, 5):
                emit("lookup %d %s" % (c, C.hexs(rng.choice(keys))))
        # a second engine knocks while the build holds the database
        if rng.chance(1, 4):
            emit("new 6 %d 1" % client)
            emit(rng.choice(["start 6", "epoch 6", "set 6 %s aa 1 1 1 ." % C.hexs(rng.choice(keys)), "setiter 6 99"]))
            emit("drop 6")
            if rng.chance(1, 2):
                emit("raw")
        if crashy and rng.chance(1, 6):
            emit("crash" if rng.chance(1, 2) else "drop %d" % c)
            long_lived = None
        else:
            emit("setiter %d %d" % (c, epoch))
            emit("complete %d" % c)
            if rng.chance(1, 3):
                long_lived = c
            elif c != long_lived and rng.chance(2, 3):
                emit("drop %d" % c)
        emit("raw")
        # a later process reads everything back
        if rng.chance(2, 3):
            close_idle()
            cl = spec.file["client"] if spec.file else 1
            emit("new 7 %d 0" % cl)
            for k in rng.shuffle(keys)[:4]:
                emit("lookup 7 %s" % C.hexs(k))
            emit("keys 7")
            emit("epoch 7")
            emit("drop 7")
    return lines, exp


def foreign_history(rng, schema_version, keys):
    """object A (client a) builds and stays alive; object B with a DIFFERENT version pair takes the file over
    (recreates it) and builds, storing the same and other keys; then A is used again, through every entry point
    first (lookup / keys / epoch / start / set), with recreateUnmatchedVersion true (BuildSystem) and false (C API):
    A must see an empty recreated database or a version error, never B's records.  Then A or a later process builds
    on, and a fresh process reads everything back."""
    spec = Spec(schema_version)
    lines, exp = [], []

    def emit(l):
        lines.append(l)
        exp.append(spec.expect(l))
        return exp[-1]

    def build(c, ks):
        if emit("start %d" % c) != "ok":
            return
        e = spec._view(c)["iteration"] + 1
        for k in ks:
            deps = [(rng.choice(keys), rng.below(4)) for _ in range(rng.below(3))]
            emit("set %d %s %s %d %d %d %s" % (c, C.hexs(k), C.hexs(rand_value(rng)), rand_u64(rng), e, 1 + rng.below(e), fmt_deps(deps)))
        emit("setiter %d %d" % (c, e))
        emit("complete %d" % c)

    emit("reset")
    a = rng.choice([1, 2, 3])
    b = rng.choice([x for x in (1, 2, 3, 65537) if x != a])
    ra = 1 if rng.chance(1, 2) else 0
    if not ra:
        emit("new 4 %d 1" % a); emit("epoch 4"); emit("drop 4")       # the C API opener needs an existing file of its version
    emit("new 0 %d %d" % (a, ra))
    ka = rng.shuffle(keys)[:2 + rng.below(3)]
    for _ in range(1 + rng.below(2)):
        build(0, ka)
    # B takes over: its own open() still checks, so the file is recreated under B's pair
    emit("new 1 %d 1" % b)
    kb = ka[:1 + rng.below(len(ka))] + rng.shuffle(keys)[:1 + rng.below(2)]
    for _ in range(1 + rng.below(2)):
        build(1, kb)
    if rng.chance(1, 2):
        emit("drop 1")
    emit("raw")
    # A again
    first = rng.below(5)
    if first == 3:
        emit("start 0")
    elif first == 4:
        emit("epoch 0")
    for k in rng.shuffle(kb):
        emit("lookup 0 %s" % C.hexs(k))
    emit("keys 0")
    emit("epoch 0")
    if first == 3:
        e = 1
        if spec.conns[0]["state"] == "txn":
            e = spec._view(0)["iteration"] + 1
            emit("set 0 %s %s 5 %d %d ." % (C.hexs(ka[0]), C.hexs(rand_value(rng)), e, e))
            emit("setiter 0 %d" % e)
        emit("complete 0")
    elif rng.chance(1, 2):
        emit("complete 0")
        build(0, ka[:2])
    emit("raw")
    for i in list(spec.conns):
        # (A too, even where the property says its start was refused: a reader knocking on a lock that should not
        # exist would only exercise the half-open object, observation O1)
        if spec.conns[i]["state"] == "open" or i == 0:
            emit("complete %d" % i)
    cl = spec.file["client"] if spec.file else a
    emit("new 7 %d 0" % cl)
    for k in rng.shuffle(list(dict.fromkeys(ka + kb)))[:5]:
        emit("lookup 7 %s" % C.hexs(k))
    emit("keys 7")
    emit("epoch 7")
    emit("drop 7")
    return lines, exp


def f21_history(schema_version):
    """a BuildDB object outlives a recreate by another client version, then builds again"""
    h = lambda s: C.hexs(s)
    ops = ["reset", "new 0 1 1", "start 0", "set 0 %s aa 1 1 1 ." % h(b"a"), "set 0 %s bb 1 1 1 %s:0" % (h(b"b"), h(b"a")), "setiter 0 1", "complete 0",
           "new 1 2 1", "epoch 1", "drop 1", "new 2 1 1", "epoch 2", "drop 2",
           "start 0", "set 0 %s cc 2 2 2 ." % h(b"c"), "set 0 %s dd 2 2 2 %s:0,%s:3" % (h(b"d"), h(b"b"), h(b"a")), "setiter 0 2", "complete 0", "drop 0",
           "new 3 1 0", "lookup 3 %s" % h(b"d"), "lookup 3 %s" % h(b"b"), "lookup 3 %s" % h(b"c"), "keys 3", "drop 3"]
    spec = Spec(schema_version)
    return ops, [spec.expect(l) for l in ops]


def f8_history(schema_version):
    h = lambda s: C.hexs(s)
    ops = ["reset", "new 0 1 1", "start 0",
           "set 0 %s aa 5 1 1 %s:1,%s:2,%s:3" % (h(b"0123"), h(b"1e3"), h(b".5"), h(b" 12 ")),
           "set 0 %s bb 6 1 1 ." % h(b"123"), "setiter 0 1", "complete 0", "drop 0",
           "new 1 1 0", "lookup 1 %s" % h(b"0123"), "lookup 1 %s" % h(b"123"), "lookup 1 %s" % h(b"1e3"), "keys 1", "drop 1"]
    spec = Spec(schema_version)
    return ops, [spec.expect(l) for l in ops]


def malformed_history(rng, keys):
    """ops in any order on few slots, avoiding only the two situations the model does not describe: using a
    connection again after open() hit a lock, and opening under another client version while a third
    connection sits open on the file"""
    lines = ["reset"]
    state = {}       # slot -> 'closed' | 'open' ; tracked loosely, only to keep the discipline
    client = {}
    locked = None
    for _ in range(10 + rng.below(25)):
        c = rng.below(3)
        k = rng.below(14)
        if c not in state or k == 0:
            for i in list(state):
                if state[i] == "open" and i != c:
                    lines.append("complete %d" % i)
                    state[i] = "closed"
                    if locked == i:
                        locked = None
            if locked == c:
                locked = None
            client[c] = rng.choice([1, 1, 2])
            lines.append("new %d %d %d" % (c, client[c], 1 if rng.chance(4, 5) else 0))
            state[c] = "closed"
            continue
        if k == 1:
            lines.append("drop %d" % c)
            del state[c]
            if locked == c:
                locked = None
            continue
        if k == 2:
            lines.append("complete %d" % c)
            state[c] = "closed"
            if locked == c:
                locked = None
            continue
        if k == 3:
            lines.append("raw")
            continue
        if locked is not None and locked != c:
            # would hit the lock: allowed once, then the connection is dropped if it was closed
            lines.append(rng.choice(["start %d", "epoch %d", "keys %d"]) % c)
            if state[c] == "closed":
                lines.append("drop %d" % c)
                del state[c]
            continue
        # one connection at a time outside transactions (an un-reset SELECT of another connection keeps a SHARED lock)
        for i in list(state):
            if i != c and state[i] == "open":
                lines.append("complete %d" % i)
                state[i] = "closed"
        if k in (4, 5):
            lines.append("start %d" % c)
            if locked is None:
                locked = c
        elif k == 6:
            lines.append("setiter %d %d" % (c, rand_u64(rng)))
        elif k in (7, 8, 9):
            nd = rng.below(4)
            deps = [(rng.choice(keys), rng.below(4)) for _ in range(nd)]
            lines.append("set %d %s %s %d %d %d %s" % (c, C.hexs(rng.choice(keys)), C.hexs(rand_value(rng)), rand_u64(rng), rand_u64(rng), rand_u64(rng), fmt_deps(deps)))
        elif k in (10, 11):
            lines.append("lookup %d %s" % (c, C.hexs(rng.choice(keys))))
        elif k == 12:
            lines.append("keys %d" % c)
        else:
            lines.append("epoch %d" % c)
        state[c] = "open"
    lines.append("crash")
    lines.append("raw")
    return lines


def run_db(ctx, lines, model_mode="c03db", scratch=None, env=None):
    """(model (rc, out, err) or None, harness (rc, out, err))"""
    scratch = scratch or os.path.join(C.BUILD, "scratch", "c03-%d" % os.getpid())
    os.makedirs(scratch, exist_ok=True)
    r = {}
    mc = model_cmd(model_mode)

    def a():
        r["m"] = C.run_lines(mc, lines) if mc else None

    def b():
        r["h"] = C.run_lines([ctx.exe[("vc03", "plain")], "db", scratch], lines, env=env)
    ta, tb = threading.Thread(target=a), threading.Thread(target=b)
    ta.start(); tb.start(); ta.join(); tb.join()
    return r["m"], r["h"]


def short(l):
    """abbreviate very long hex fields of an op line for reports"""
    import re
    return re.sub(r"([0-9a-f]{40})[0-9a-f]{40,}", lambda m: m.group(1) + "..", l)


def schema_version():
    """currentSchemaVersion as extracted (the oracle needs nothing else from the source)"""
    import re
    txt = open(os.path.join(C.LEAN, "LLBuild", "Generated", "SQLiteDB.lean")).read()
    return int(re.search(r"def currentSchemaVersion : Nat := (\d+)", txt).group(1))


def classify(line, impl, want):
    """discriminating keys for known_findings matching"""
    op = line.split(" ")[0]
    d = {"op": op}
    if op in ("lookup", "keys") and want is not None:
        d["kind"] = "lost-or-altered-result"
    elif want in ("error=busy", "error=version"):
        d["kind"] = "gate"
    else:
        d["kind"] = "other"
    return d


NUMERIC_TEMPLATES = [b"%d", b"0%d", b"%d.%d", b".%d", b"%d.", b"%de%d", b"%dE-%d", b" %d", b"%d ", b"+%d", b"-%d", b"-%d.%de%d", b"%d.%d0", b"0.000%d",
                     b"%de", b"%d e1", b"0x%d", b"%d.%d.%d", b"--%d", b"%de+%d", b"\t%d\n", b"%d\x00", b"1%d00000000000000000", b"%d000e-3"]


def numeric_text(rng):
    t = rng.choice(NUMERIC_TEMPLATES)
    n = t.count(b"%d")
    vals = []
    for _ in range(n):
        k = rng.below(6)
        vals.append([0, 1, 12, 123, 5, 1000][k] if rng.chance(1, 2) else rng.below(10 ** (1 + rng.below(7))))
    small = tuple(v % 40 if (t in (b"%de%d", b"%dE-%d", b"-%d.%de%d", b"%de+%d") and i == n - 1) else v for i, v in enumerate(vals))
    return t % small


DECL_TYPES = [b"STRING", b"TEXT", b"BLOB", b"INTEGER", b"REAL", b"NUMERIC", b"VARCHAR(10)", b"", b"INT", b"CLOB", b"DOUBLE", b"FLOAT", b"string",
              b"Text", b"DECIMAL(10,5)", b"BOOLEAN", b"DATE", b"CHARINT", b"BLOBTEXT", b"REALBLOB", b"POINT", b"STRING BLOB"]


class Check(PropertyCheck):
    prop = "C03"
    module = "LLBuild.Props.C03All"
    theorems = ["LLBuild.BuildDB.C03_wiring", "LLBuild.BuildDB.C03_dep_codec", "LLBuild.BuildDB.C03_dep_codec_keys",
                "LLBuild.BuildDB.C03_dep_blob_codec", "LLBuild.BuildDB.C03_stored_key_faithful",
                "LLBuild.BuildDB.C03_affinity_witness", "LLBuild.BuildDB.C03_read_your_writes",
                "LLBuild.BuildDB.C03_commit_visible", "LLBuild.BuildDB.C03_version_gate",
                "LLBuild.BuildDB.C03_writes_need_lock", "LLBuild.BuildDB.C03_merged_injective_partial", "LLBuild.BuildDB.C03_merged_wraps",
                # follow-up: op sequences over any number of connections (Lemmas/BuildDBLock, BuildDBMap, BuildDBInv, BuildDBSpec)
                "LLBuild.BuildDB.C03_reachable_inv", "LLBuild.BuildDB.C03_refines_map", "LLBuild.BuildDB.C03_frame",
                "LLBuild.BuildDB.C03_read_your_writes_seq", "LLBuild.BuildDB.C03_lock_step", "LLBuild.BuildDB.C03_single_writer",
                "LLBuild.BuildDB.C03_other_writers_refused",
                # engine level on the concrete engine model (Props/EngineImplSched4.lean): a new engine over the committed store
                "LLBuild.Refine.EngineImpl_sound_C03_restart_snapshot", "LLBuild.Refine.EngineImpl_sound_C03_restart_reference",
                "LLBuild.Refine.EngineImpl_sound_C03_restart_transparent", "LLBuild.Refine.EngineImpl_sound_C03_restart_split_value",
                "LLBuild.Refine.EngineImpl_C03_killed_build_is_restart", "LLBuild.Engine.C03_restart_transparent",
                # … and where a restart IS visible (decide witnesses, replayed on the real engine): F55, a harness-only case, upToDate's epoch
                "LLBuild.Refine.C03_not_transparent_after_failed_build", "LLBuild.Refine.C03_not_transparent_stale_signature",
                "LLBuild.Refine.C03_snapshots_differ"]
    extractors = ["x_sqlitedb"]
    harnesses = [("vc03", "plain"), ("vengine", "plain")]
    assumptions = [
        "SQLite: a transaction (BEGIN EXCLUSIVE .. END) is atomic and durable; an EXCLUSIVE lock excludes every other connection; rowid allocation is max+1; type affinity follows datatype3.html (the affinity function is corresponded against the real library, not proved)",
        "the engine's key table (BuildDBDelegate) is a bijection key <-> KeyID stable for the life of the BuildDB object (the model uses the key bytes as KeyID)",
        "not modelled (generator keeps away, see notes): a BuildDB object used again after open() failed on a lock (half-open state), and a connection left open on a file that another client version unlinks and recreates (orphaned inode)",
        "hand model of SQLiteBuildDB tied by extractor x_sqlitedb (DDL, SQL text, bind/column wiring, codec constants, version gate, brackets) and by differential correspondence of op histories",
        "engine-level clause (restart-split = single-engine execution): theorems about the concrete engine model (EngineImpl_sound_C03_restart_transparent: values and executed sets across one restart after histories whose completed builds succeeded; EngineImpl_sound_C03_restart_split_value: values with a restart before every build); the real engine runs every generated history in one engine, with a restart at every build boundary, and with a restart right after each failed build (stream restart-split); after a FAILED build the executed sets legitimately differ (known finding F55), and only there",
    ]
    trusted_base = ["extractor x_sqlitedb", "correspondence harness vc03 (db, affinity, merged) and its generators",
                    "python oracle Spec (independent restatement: durable map key -> result, version gate, one writer)"]

    # ---- streams ---------------------------------------------------------------------------------
    def stream_db(self, ctx, res):
        sv = schema_version()
        rng = ctx.rng
        nvalid = 400 if ctx.thorough else 60
        nmal = 400 if ctx.thorough else 60
        lines, exp, tag = [], [], []
        for hist, name in ((f8_history(sv), "f8"), (f21_history(sv), "f21")):
            lines += hist[0]; exp += hist[1]; tag += [name] * len(hist[0])
        for i in range(nvalid):
            l, e = gen_history(rng, sv, ctx.thorough and i % 20 == 0)
            lines += l; exp += e; tag += ["valid"] * len(l)
        for i in range(nmal):
            l = malformed_history(rng, key_pool(rng, False))
            lines += l; exp += [None] * len(l); tag += ["malformed"] * len(l)
        # a long-lived object vs another version pair (own generator stream: the streams above stay as they were)
        frng = C.Rng(ctx.seed, "C03/foreign")
        nforeign = 150 if ctx.thorough else 30
        for i in range(nforeign):
            l, e = foreign_history(frng, sv, key_pool(frng, False))
            lines += l; exp += e; tag += ["foreign-version"] * len(l)
        lines.append("busyms"); exp.append("busyms=5000"); tag.append("busy")
        m, (hrc, hout, herr) = run_db(ctx, lines)
        # the real code dying in the middle of a history is a concrete failure of that history, not the end of the check:
        # report it with its input and carry on with the next history in a new process
        DIED = "<process died>"
        deaths = 0
        while hrc != 0 and len(hout) < len(lines) and deaths < 8:
            at = len(hout)
            hs = max(i for i in range(at + 1) if lines[i] == "reset")
            deaths += 1
            res.oracle_failures.append({"what": "the process using the database died (exit %d) while executing %r" % (hrc, short(lines[at])[:120]), "kind": "process-died",
                                        "op": lines[at].split(" ")[0], "stream": tag[at], "input": {"history": [short(x) for x in lines[hs:at + 1][-80:]], "op": short(lines[at]), "stderr": herr[-300:]}})
            nxt = next((i for i in range(at + 1, len(lines)) if lines[i] == "reset"), len(lines))
            hout += [DIED] * (nxt - at)
            if nxt < len(lines):
                hrc, more, herr = C.run_lines([ctx.exe[("vc03", "plain")], "db", os.path.join(C.BUILD, "scratch", "c03-%d" % os.getpid())], lines[nxt:])
                hout += more
            else:
                hrc = 0
        if hrc != 0 or len(hout) != len(lines):
            res.mismatches.append({"stream": "c03db", "input": "harness exit %d, %d/%d lines" % (hrc, len(hout), len(lines)), "impl": herr[-300:]})
            return
        model_ok = m is not None and m[0] == 0 and len(m[1]) == len(lines)
        if ctx.model_ok and not model_ok:
            res.mismatches.append({"stream": "c03db", "input": "model driver failed", "model": (m[2][-300:] if m else "no driver")})
        ops = {}
        outcomes = {}
        nontriv = 0
        hist_start = 0
        ledger = VersionLedger(sv)
        reopened_foreign = 0
        alive = set()      # slots holding a BuildDB object according to the ops themselves
        orphan_lines = 0
        for i, line in enumerate(lines):
            if line == "reset":
                hist_start = i
            w = line.split(" ")
            if w[0] in ("reset", "crash"):
                alive.clear()
            elif w[0] == "new":
                alive.add(w[1])
            # a connection left open on a file that another client version unlinked and recreated works on an orphaned
            # inode: the model forgets it (`forgetOpen`) and answers no-conn although the object exists — outside the model
            orphaned = model_ok and m[1][i] == "no-conn" and len(w) > 1 and w[1] in alive and hout[i] != "no-conn"
            if w[0] == "drop" and len(w) > 1:
                alive.discard(w[1])
            if orphaned:
                orphan_lines += 1
                continue
            # the version clause, on every stream (structured, unstructured, fixed scenarios)
            fv = ledger.observe(line, hout[i])
            if fv is not None:
                if len(res.oracle_failures) < 40:
                    res.oracle_failures.append(dict(fv, what="a BuildDB object with version pair %s was handed a record that was only ever stored under version pair(s) %s: the database of another schema/client version was interpreted" % (
                        fv["reader_version_pair"], fv["writer_version_pairs"]), kind="foreign-version-record-interpreted", op=line.split(" ")[0], stream=tag[i],
                        input={"history": [short(x) for x in lines[hist_start:i + 1][-80:]], "op": short(line), "answer": short(hout[i])[:300]}))
                continue
            if tag[i] == "foreign-version" and line.startswith(("lookup 0", "keys 0")) and exp[i] in ("none", "n=0/0", "error=version"):
                reopened_foreign += 1
            op = line.split(" ")[0]
            ops[op] = ops.get(op, 0) + 1
            o = hout[i].split("=")[0].split(" ")[0] if hout[i].startswith(("error", "none", "ok", "no-conn")) else "data"
            key = hout[i] if hout[i].startswith("error") else o
            outcomes[key] = outcomes.get(key, 0) + 1
            if hout[i] == DIED:
                continue
            if op == "busyms":
                if hout[i] != exp[i]:
                    res.oracle_failures.append({"what": "busy timeout requested by open() is %s, expected 5000 ms" % hout[i], "op": "busyms", "kind": "busy-timeout", "input": line})
                continue
            if model_ok and m[1][i] != hout[i] and len(res.mismatches) < 20:
                res.mismatches.append({"stream": "c03db", "input": {"history": [short(x) for x in lines[hist_start:i + 1][-40:]], "op": short(line), "tag": tag[i]}, "model": short(m[1][i]), "impl": short(hout[i])})
            if exp[i] is not None:
                if op in ("lookup", "keys") and hout[i] not in ("none", "n=0/0") and not hout[i].startswith("error"):
                    nontriv += 1
                if hout[i] != exp[i]:
                    f = {"what": "the database answered %r where the property demands %r" % (hout[i][:200], exp[i][:200]),
                         "input": {"history": [short(x) for x in lines[hist_start:i + 1][-60:]], "op": short(line)}, "stream": tag[i]}
                    f.update(classify(line, hout[i], exp[i]))
                    if len(res.oracle_failures) < 40:
                        res.oracle_failures.append(f)
        res.distribution["c03db_orphaned_inode_lines_not_compared"] = orphan_lines
        res.evaluations += len(lines)
        res.distinct_nontrivial += nontriv
        res.distribution["db_ops"] = ops
        res.distribution["db_outcomes"] = dict(sorted(outcomes.items(), key=lambda kv: -kv[1])[:12])
        res.distribution["db_histories"] = {"valid": nvalid, "malformed": nmal, "fixed_scenarios": 2, "foreign_version": nforeign}
        res.distribution["reads_through_a_long_lived_object_after_a_takeover_by_another_version"] = reopened_foreign
        res.distinct_nontrivial += reopened_foreign
        res.samples.append({"op": lines[12], "impl": hout[12][:200]})

    def stream_affinity(self, ctx, res):
        rng = ctx.rng
        n = 40000 if ctx.thorough else 6000
        texts = list(NUMERIC_LOOKING) + PLAIN
        lines = []
        for d in DECL_TYPES:
            for a, b in ((b"0123", b"123"), (b"1e3", b"1000"), (b".5", b"0.5"), (b" 12 ", b"12"), (b"a", b"a"), (b"a\x00b", b"a"), (b"", b"")):
                lines.append((d, a, b))
        for _ in range(n):
            d = rng.choice(DECL_TYPES)
            a = numeric_text(rng) if rng.chance(2, 3) else (rng.choice(texts) if rng.chance(1, 2) else rng.bytes_from(ALPHA, 6))
            k = rng.below(4)
            b = a if k == 0 else (numeric_text(rng) if k == 1 else rng.choice(texts) if k == 2 else a.strip() or b"0")
            lines.append((d, a, b))
        ls = ["%s %s %s" % (C.hexs(d), C.hexs(a), C.hexs(b)) for d, a, b in lines]
        mc = model_cmd("c03affinity")
        r = {}
        t1 = threading.Thread(target=lambda: r.__setitem__("m", C.run_lines(mc, ls) if mc else None))
        t2 = threading.Thread(target=lambda: r.__setitem__("h", C.run_lines([ctx.exe[("vc03", "plain")], "affinity"], ls)))
        t1.start(); t2.start(); t1.join(); t2.join()
        m, (hrc, hout, herr) = r["m"], r["h"]
        if hrc != 0 or len(hout) != len(ls):
            res.mismatches.append({"stream": "c03affinity", "input": "harness exit %d" % hrc, "impl": herr[-300:]})
            return
        model_ok = m is not None and m[0] == 0 and len(m[1]) == len(ls)
        if ctx.model_ok and not model_ok:
            res.mismatches.append({"stream": "c03affinity", "input": "model driver failed", "model": (m[2][-300:] if m else "no driver")})
            return
        unmod, conv, kinds = 0, 0, {}
        for i, l in enumerate(ls):
            if not model_ok:
                break
            if m[1][i] == "unmodelled":
                unmod += 1
                continue
            ty = hout[i].split(":")[0]
            kinds[ty] = kinds.get(ty, 0) + 1
            if ty in ("integer", "real"):
                conv += 1
            if m[1][i] != hout[i] and len(res.mismatches) < 20:
                res.mismatches.append({"stream": "c03affinity", "input": {"decl": repr(lines[i][0]), "a": repr(lines[i][1]), "b": repr(lines[i][2]), "line": l}, "model": m[1][i], "impl": hout[i]})
        res.evaluations += len(ls)
        res.distinct_nontrivial += conv
        res.distribution["affinity_cases"] = len(ls)
        res.distribution["affinity_storage_classes"] = kinds
        res.distribution["affinity_outside_exact_zone_skipped"] = unmod

    def stream_merged(self, ctx, res):
        scratch = os.path.join(C.BUILD, "scratch", "c03-%d" % os.getpid())
        os.makedirs(scratch, exist_ok=True)
        seq = [(0, False), (65536, True), (1, False), (65537, True), (65535, False), (3, False), (3, True), (4, True), (4, True), (131072 + 4, True)]
        ls = ["%d%s" % (c, " keep" if k else "") for c, k in seq]
        mc = model_cmd("c03merged")
        m = C.run_lines(mc, ls) if mc else None
        hrc, hout, herr = C.run_lines([ctx.exe[("vc03", "plain")], "merged", scratch], ls)
        if hrc != 0 or len(hout) != len(ls):
            res.mismatches.append({"stream": "c03merged", "input": "harness exit %d" % hrc, "impl": herr[-300:]})
            return
        prev = None
        for i, (c, keep) in enumerate(seq):
            if m is not None and m[0] == 0 and len(m[1]) == len(ls):
                if not hout[i].startswith(m[1][i] + " "):
                    res.mismatches.append({"stream": "c03merged", "input": ls[i], "model": m[1][i], "impl": hout[i]})
            kept = hout[i].endswith(" kept")
            if keep and prev is not None and kept != (prev == c):
                res.oracle_failures.append({
                    "what": "BuildSystem with client version %d %s a database written under client version %d" % (c, "interpreted" if kept else "discarded", prev),
                    "call": "getMergedSchemaVersion", "kind": "client-version-wrap" if (kept and (c - prev) % 65536 == 0) else "version-gate",
                    "input": {"written_by_client": prev, "opened_by_client": c}})
            prev = c
        res.evaluations += len(ls)
        res.distribution["merged_version_cases"] = len(ls)

    def correspond(self, ctx, res):
        self.stream_db(ctx, res)
        self.stream_affinity(ctx, res)
        self.stream_merged(ctx, res)
        from .engine_common import EngineCheck
        ec = EngineCheck(); ec.prop = "C03"
        ec.run_restart_split(ctx, res, 900 if ctx.thorough else 240)
        res.rule = ("restart-split: generated engine histories executed in one engine and with a restart at every build boundary, results and "
                    "executed sets compared. " + "db: op histories on the real BuildDB and on the model, compared line by line (structured histories: processes come and go, "
                    "builds commit/crash, client versions differ, second writer knocks, a BuildDB object outlives a recreate; a stream in which an object "
                    "stays alive while another (schema, client) version pair recreates the file and is then used again through every entry point, "
                    "recreate flag true and false; plus unstructured op sequences); on every stream no read may return a record stored only under "
                    "another version pair (VersionLedger); the python Spec states what the property demands for every lookup/keys/epoch/gate outcome of the structured "
                    "histories. Non-trivial (db) = a lookup/keys that returned stored data which the Spec then checked. affinity: (declared type, "
                    "text, probe) triples against the real sqlite3; non-trivial = the text was converted to INTEGER/REAL. merged: BuildSystem "
                    "client versions through a real BuildSystem::attachDB.")
        res.exhaustive = False

    def search(self, ctx, res, why):
        # correspond() already replays the F8 / F21 histories and the structured stream on the real code;
        # a broken proof with no oracle failure means the defect is not one the Spec can see.
        return


CHECK = Check()
