"""C08 — on-disk outputs after any incremental build equal a clean build's
(+ the history halves of C09: null builds / re-run iff, and of C10: failure stops consumers, is retried, converges).

Routes:
  * extractor x_bsrules -> Generated/BuildSystemRules.lean (lookupRule dispatch, validity guards, force-change, signature
    recipes); theorems in Props/C08.lean quantify over them.
  * model correspondence: the Lean driver mode `c08clean` evaluates the model's `Clean` value of every node of a generated
    description (the commands are the same arithmetic in /bin/sh and in Lean); the numbers are compared with the files
    the real `llbuild buildsystem build` leaves behind after an INCREMENTAL build.
  * property oracle (python, independent of the Lean model): after every successful build of a generated history the
    outputs reachable from the built target are compared with a CLEAN build (fresh directory, no database); the executed
    command log is compared with the re-run rule of C09 evaluated on observable state (definitions, stat records);
    failing builds are checked against C10.
"""
import json, os, shutil, stat, subprocess, threading
from .. import common as C
from ..runner import PropertyCheck

MOD = 1000000007


def model_cmd(mode):
    """The shared driver once `LLBuild.Drv.C08.modes` is listed in Driver.lean; until then a private driver generated under
    the build directory (never under lean/) and run with `lake env lean --run`."""
    exe = C.model_exe()
    if os.path.exists(exe):
        p = subprocess.run([exe, mode], input=b"", stdout=subprocess.PIPE, stderr=subprocess.PIPE)
        if p.returncode == 0:
            return [exe, mode], None
    ok, out = C.lake_build(["LLBuild.Drv.C08"])
    if not ok:
        C.log(out[-1500:])
    d = os.path.join(C.BUILD, "drv")
    os.makedirs(d, exist_ok=True)
    path = os.path.join(d, "DriverC08.lean")
    with open(path, "w") as f:
        f.write("import LLBuild.Drv.Common\nimport LLBuild.Drv.C08\nopen LLBuild.Drv\n"
                "def main (args : List String) : IO UInt32 := do\n"
                "  let stdin ← IO.getStdin\n  let stdout ← IO.getStdout\n"
                "  match args with\n  | [m] =>\n    match LLBuild.Drv.C08.modes.lookup m with\n"
                "    | some f => f stdin stdout; return 0\n    | none => IO.eprintln s!\"unknown mode {m}\"; return 2\n"
                "  | _ => return 2\n")
    return ["lake", "env", "lean", "--run", path, mode], C.LEAN


def run_model(mode, lines):
    cmd, cwd = model_cmd(mode)
    data = ("\n".join(lines) + "\n").encode()
    p = subprocess.run(cmd, cwd=cwd, input=data, stdout=subprocess.PIPE, stderr=subprocess.PIPE)
    out = p.stdout.decode().split("\n")
    if out and out[-1] == "":
        out.pop()
    return p.returncode, out, p.stderr.decode()
BASE_T = 1600000000


def mix(h, v):
    return (h * 131 + v + 7) % MOD


# ----------------------------------------------------------------------------------------------------
# build descriptions
# ----------------------------------------------------------------------------------------------------
class Desc:
    """Commands in topological order.  Node kinds: 'file' (source or shell output), 'virt' (<name>),
    'dir' (mkdir output), 'link' (symlink output)."""

    def __init__(self):
        self.cmds = []        # dicts: name tool inputs outputs salt cosmetic aod contents
        self.sources = []     # plain files no command produces (in use or not)
        self.uid = 0
        self.sub = []         # node names of the second target

    # -- queries ------------------------------------------------------------------------------------
    def producer(self):
        p = {}
        for c in self.cmds:
            for o in c["outputs"]:
                p[o] = c
        return p

    @staticmethod
    def kind(n, prod):
        if n.startswith("<"):
            return "virt"
        c = prod.get(n)
        if c is None:
            return "file"
        return {"mkdir": "dir", "symlink": "link"}.get(c["tool"], "file")

    def outputs(self):
        return [o for c in self.cmds for o in c["outputs"]]

    def reach(self, roots):
        """(commands, nodes) reachable from the nodes `roots`"""
        prod = self.producer()
        seenn, seenc, todo = set(), set(), list(roots)
        while todo:
            n = todo.pop()
            if n in seenn:
                continue
            seenn.add(n)
            c = prod.get(n)
            if c is not None and c["name"] not in seenc:
                seenc.add(c["name"])
                todo += c["inputs"]
        return seenc, seenn

    def downstream(self, roots):
        """commands that consume (transitively) an output of a command in `roots`; a phony command's virtual output
        carries no data (documented exception, see C10/F16)"""
        prod = self.producer()
        bad = set()
        changed = True
        while changed:
            changed = False
            for c in self.cmds:
                if c["name"] in bad:
                    continue
                for i in c["inputs"]:
                    p = prod.get(i)
                    if p is not None and (p["name"] in bad or p["name"] in roots) and not (p["tool"] == "phony" and i.startswith("<")):
                        bad.add(c["name"])
                        changed = True
                        break
        return bad

    def targets(self):
        t = {"": self.outputs(), "sub": [n for n in self.sub if n in set(self.outputs())]}
        for i, o in enumerate(self.outputs()):
            t["n%d" % i] = [o]
        return t

    def sig(self, c):
        """the signature-relevant part of a definition (what C09 lists); independent restatement"""
        return json.dumps([c["name"], c["tool"], c["inputs"], c["outputs"], self.script(c) if c["tool"] == "shell" else "",
                           c.get("aod", False), c.get("contents", "")])

    # -- semantics of the generated commands ------------------------------------------------------------
    def data_inputs(self, c, prod):
        return [i for i in c["inputs"] if self.kind(i, prod) == "file"]

    def script(self, c):
        prod = self.producer()
        nm = c["name"]
        b = "echo %s >> log; " % nm
        b += "if [ -e ctl/%s.exit ]; then exit 3; fi; " % nm
        b += "if [ -e ctl/%s.signal ]; then kill -9 $$; fi; " % nm
        b += ": %d; h=%d; " % (c["cosmetic"], c["salt"])
        for f in self.data_inputs(c, prod):
            b += "v=$(cat %s) || exit 1; h=$(( (h*131+v+7) %% %d )); " % (f, MOD)
        j = 0
        for o in c["outputs"]:
            if not o.startswith("<"):
                b += "echo $(( (h*131+%d+7) %% %d )) > %s; touch -d @$((%d+VCLOCK)) %s; " % (j, MOD, o, BASE_T, o)
            j += 1
        b += "if [ -e ctl/%s.late ]; then exit 4; fi; true" % nm
        return b

    def manifest(self):
        L = ["client:", "  name: basic", "  version: 0", "", "targets:"]
        for t, ns in self.targets().items():
            L.append('  "%s": [%s]' % (t, ", ".join('"%s"' % n for n in ns)))
        L += ["", "commands:"]
        for c in self.cmds:
            L.append('  "%s":' % c["name"])
            L.append("    tool: %s" % c["tool"])
            if c["inputs"]:
                L.append("    inputs: [%s]" % ", ".join('"%s"' % i for i in c["inputs"]))
            L.append("    outputs: [%s]" % ", ".join('"%s"' % o for o in c["outputs"]))
            if c["tool"] == "shell":
                L.append('    args: ["/bin/sh", "-c", "%s"]' % self.script(c))
                if c.get("aod"):
                    L.append("    always-out-of-date: true")
            if c["tool"] == "symlink":
                L.append('    contents: "%s"' % c["contents"])
        return "\n".join(L) + "\n"

    def expected(self, srcval):
        """independent evaluation of what the outputs must contain: node -> text ('DIR', 'LINK:x', number)"""
        prod = self.producer()
        val = {}
        out = {}
        for c in self.cmds:
            if c["tool"] == "shell":
                h = c["salt"]
                ok = True
                for f in self.data_inputs(c, prod):
                    v = val.get(f, srcval.get(f))
                    if v is None:
                        ok = False
                        break
                    h = mix(h, v)
                for j, o in enumerate(c["outputs"]):
                    if not o.startswith("<"):
                        if ok:
                            val[o] = mix(h, j)
                            out[o] = "%d\n" % val[o]
                        else:
                            out[o] = None
            elif c["tool"] == "mkdir":
                out[c["outputs"][0]] = "DIR"
            elif c["tool"] == "symlink":
                out[c["outputs"][0]] = "LINK:" + c["contents"]
        return out

    def model_lines(self, srcval):
        """op lines for the Lean driver mode c08clean: node and command tables by index"""
        prod = self.producer()
        nodes = sorted(set(self.outputs()) | {i for c in self.cmds for i in c["inputs"]} |
                       {c["contents"] for c in self.cmds if c["tool"] == "symlink"})
        idx = {n: i for i, n in enumerate(nodes)}
        L = []
        for n in nodes:
            k = self.kind(n, prod)
            st = srcval[n] + 1 if (n not in prod and k == "file" and srcval.get(n) is not None) else 0
            L.append("node %d %d %d" % (idx[n], {"file": 0, "virt": 1, "dir": 2, "link": 3}[k], st))
        for ci, c in enumerate(self.cmds):
            tool = {"shell": 0, "phony": 1, "mkdir": 2, "symlink": 3}[c["tool"]]
            salt = idx[c["contents"]] if c["tool"] == "symlink" else c["salt"]
            L.append("cmd %d %d %d %s %s" % (ci, tool, salt, ",".join(str(idx[i]) for i in c["inputs"]) or ".",
                                             ",".join(str(idx[o]) for o in c["outputs"]) or "."))
        L.append("eval")
        return L, nodes

    def to_json(self):
        return {"cmds": self.cmds, "sources": self.sources, "sub": self.sub}


def gen_desc(rng):
    d = Desc()
    ns = 2 + rng.below(3)
    d.sources = ["s%d" % i for i in range(ns)]
    n = 3 + rng.below(6)
    for _ in range(n):
        add_command(d, rng)
    outs = d.outputs()
    d.sub = [o for o in outs if rng.chance(1, 3)] or outs[:1]
    return d


def avail_nodes(d, upto=None):
    nodes = list(d.sources)
    for c in d.cmds[:upto if upto is not None else len(d.cmds)]:
        nodes += c["outputs"]
    return nodes


def add_command(d, rng, pos=None):
    d.uid += 1
    name = "C%d" % d.uid
    pos = len(d.cmds) if pos is None else pos
    nodes = avail_nodes(d, pos)
    prod = d.producer()
    k = rng.below(20)
    dirs = [n for n in nodes if d.kind(n, prod) == "dir"]
    c = {"name": name, "salt": 1 + rng.below(1000), "cosmetic": 0}
    if k == 0 and len(d.cmds) > 0 and nodes:
        c.update(tool="phony", inputs=rng.shuffle(nodes)[:1 + rng.below(2)], outputs=["<%s>" % name])
    elif k == 1:
        c.update(tool="mkdir", inputs=[], outputs=["d%s" % name])
    elif k == 2:
        files = [n for n in nodes if d.kind(n, prod) == "file"] or ["s0"]
        c.update(tool="symlink", inputs=rng.shuffle(nodes)[:rng.below(2)], outputs=["l%s" % name], contents=rng.choice(files))
    else:
        ins = []
        for _ in range(1 + rng.below(3)):
            if not nodes:
                break
            x = rng.choice(nodes)
            if x not in ins:
                ins.append(x)
        pre = (rng.choice(dirs) + "/") if dirs and rng.chance(1, 2) else "o/"
        if pre != "o/" and pre[:-1] not in ins:
            ins.append(pre[:-1])
        outs = [pre + name + ".a"]
        if k < 7:
            outs.append(pre + name + ".b")
        if k in (6, 8, 9):
            # (a virtual output may stand anywhere in the list: the command's value has one record per declared output)
            outs.insert(rng.below(len(outs) + 1), "<%s>" % name)
        if k == 10:
            outs = ["<%s>" % name]
        c.update(tool="shell", inputs=ins, outputs=outs)
        if k == 11:
            c["aod"] = True
    d.cmds.insert(pos, c)
    return c


def consumers(d, node):
    return [c for c in d.cmds if node in c["inputs"]]


def remove_command(d, rng, c):
    """the command disappears; its dir/link/virtual outputs are unwired from their consumers, its file outputs become
    plain inputs (sources) of whoever still reads them"""
    prod = d.producer()
    d.cmds.remove(c)
    for o in c["outputs"]:
        k = d.kind(o, prod)
        users = consumers(d, o)
        if k == "file":
            if users:
                d.sources.append(o)
        else:
            for u in users:
                u["inputs"] = [i for i in u["inputs"] if i != o]
        if k == "dir":
            # commands writing beneath the directory keep doing so (the engine creates parent directories)
            pass
    for cc in d.cmds:
        if cc["tool"] == "symlink" and cc["contents"] in c["outputs"] and cc["contents"] not in d.sources:
            d.sources.append(cc["contents"])


# ----------------------------------------------------------------------------------------------------
# one history against the real tool
# ----------------------------------------------------------------------------------------------------
def stat_tok(p):
    try:
        st = os.lstat(p)
    except OSError:
        return None
    return (st.st_ino, st.st_size, st.st_mtime_ns, st.st_mode)


def read_node(base, n):
    p = os.path.join(base, n)
    if os.path.islink(p):
        return "LINK:" + os.readlink(p)
    if os.path.isdir(p):
        return "DIR"
    try:
        return open(p).read()
    except OSError:
        return None


class World:
    def __init__(self, exe, base, tag, rng, thorough):
        self.exe, self.rng, self.thorough = exe, rng, thorough
        self.d = os.path.join(base, tag)
        self.clean = os.path.join(base, tag + "-clean")
        self.tag = tag
        self.clock = 1
        self.rec = {}          # command name -> {sig, seen, outs, unc, dirgen}
        self.mkgen = {}        # directory node -> how many times its mkdir command has (re)created it so far
        self.fails = []
        self.trace = []
        self.stats = {"builds": 0, "clean_builds": 0, "success": 0, "failed": 0, "null": 0, "desc_edits": 0, "fs_edits": 0,
                      "executed": 0, "must_run_checked": 0, "must_not_run_checked": 0, "may": 0, "model_nodes": 0}
        self.model_cases = []
        self.broken = set()    # commands made to fail by ctl files
        shutil.rmtree(self.d, ignore_errors=True)
        for x in ("ctl", "o"):
            os.makedirs(os.path.join(self.d, x))

    # -- file system edits (always observable: fresh mtime from the logical clock) ---------------------------------
    def tick(self):
        self.clock += 1
        return self.clock

    def write(self, rel, val):
        p = os.path.join(self.d, rel)
        os.makedirs(os.path.dirname(p) or ".", exist_ok=True)
        if os.path.islink(p) or os.path.isdir(p):
            shutil.rmtree(p, ignore_errors=True) if os.path.isdir(p) and not os.path.islink(p) else os.unlink(p)
        with open(p, "w") as f:
            f.write("%d\n" % val)
        t = (BASE_T + self.tick()) * 10**9
        os.utime(p, ns=(t, t))

    def delete(self, rel):
        p = os.path.join(self.d, rel)
        if os.path.isdir(p) and not os.path.islink(p):
            shutil.rmtree(p)
        elif os.path.lexists(p):
            os.unlink(p)

    def bad(self, what, **kw):
        f = {"what": "[%s] %s" % (self.tag.split("-")[-1], what), "route": "e2e",
             "input": {"history": list(self.trace), "desc": json.loads(json.dumps(self.desc.to_json())), "dir": self.tag}}
        f.update(kw)
        self.fails.append(f)

    # -- builds ------------------------------------------------------------------------------------------
    def run_tool(self, cwd, target, jobs, db):
        args = [self.exe, "buildsystem", "build", "-f", "build.llbuild"] + (["--db", db] if db else ["--no-db"]) + \
               (["--serial"] if jobs == 1 else ["-j", str(jobs)]) + ([target] if target else [])
        try:
            os.unlink(os.path.join(cwd, "log"))
        except FileNotFoundError:
            pass
        env = dict(os.environ)
        env["VCLOCK"] = str(self.tick())
        p = subprocess.run(args, cwd=cwd, stdout=subprocess.PIPE, stderr=subprocess.STDOUT, timeout=120, env=env)
        log = []
        lp = os.path.join(cwd, "log")
        if os.path.exists(lp):
            log = open(lp).read().split()
        return p.returncode, log, p.stdout.decode("utf-8", "replace")

    def src_values(self, base):
        prod = self.desc.producer()
        vals = {}
        for c in self.desc.cmds:
            for i in c["inputs"]:
                if i not in prod and not i.startswith("<"):
                    t = read_node(base, i)
                    try:
                        vals[i] = int(t)
                    except (TypeError, ValueError):
                        vals[i] = None
        return vals

    def expect_run(self, c, prod, pre, post, mk_ran):
        """C09's re-run rule on observable state.  Returns 'Y', 'N' or 'M' (cannot be decided from outside)."""
        d = self.desc
        r = self.rec.get(c["name"])
        if r is None or r["sig"] != d.sig(c) or c.get("aod"):
            return "Y"
        for o in c["outputs"]:
            if not o.startswith("<") and pre.get(o) != r["outs"].get(o):
                return "Y"
        may = r.get("unc", False)
        for i in c["inputs"]:
            k = d.kind(i, prod)
            if k == "virt":
                continue
            if k == "dir":
                # (also when the directory was re-created by an EARLIER build that did not consider this command)
                if mk_ran.get(i) or self.mkgen.get(i, 0) != r.get("dirgen", {}).get(i, self.mkgen.get(i, 0)):
                    may = True
                continue
            if post.get(i) != r["seen"].get(i, "never"):
                return "Y"
        return "M" if may else "N"

    def build(self, target, jobs, label="build"):
        d = self.desc
        self.stats["builds"] += 1
        open(os.path.join(self.d, "build.llbuild"), "w").write(d.manifest())
        prod = d.producer()
        roots = d.targets()[target]
        rc_cmds, rc_nodes = d.reach(roots)
        pre = {n: stat_tok(os.path.join(self.d, n)) for n in set(d.outputs()) | set(d.sources)}
        srcs = self.src_values(self.d)
        missing_src = sorted(n for n in rc_nodes if n not in prod and not n.startswith("<") and srcs.get(n) is None
                             and any(u["tool"] != "symlink" and u["name"] in rc_cmds for u in consumers(d, n)))
        broken = sorted(self.broken & rc_cmds)
        self.last_missing = missing_src
        rc, log, out = self.run_tool(self.d, target, jobs, "build.db")
        self.trace.append({"op": label, "target": target, "jobs": jobs, "rc": rc, "log": log})
        post = {n: stat_tok(os.path.join(self.d, n)) for n in set(d.outputs()) | set(d.sources)}
        byname = {c["name"]: c for c in d.cmds}
        self.stats["executed"] += len(log)
        # every build: only reachable commands, each at most once
        for nm in sorted(set(log)):
            if log.count(nm) > 1:
                self.bad("%s of '%s': command %s executed %d times in one build" % (label, target, nm, log.count(nm)), clause="once", command=nm)
            if nm not in rc_cmds:
                self.bad("%s of '%s': command %s executed although the target does not depend on it" % (label, target, nm), clause="unreachable", command=nm)
        expect_fail = bool(missing_src or broken)
        if expect_fail:
            self.stats["failed"] += 1
            failing = set(broken) | {c["name"] for c in d.cmds if c["tool"] != "symlink" and any(i in missing_src for i in c["inputs"])}
            down = d.downstream(failing)
            if rc == 0:
                self.bad("%s of '%s': the build reports success although commands %s cannot succeed (%s)" % (
                    label, target, sorted(failing), "missing input" if missing_src else "exit/signal"), clause="build-reports-failure")
            for nm in log:
                if nm in down:
                    self.bad("%s of '%s': %s executed although it consumes (transitively) an output of a failed command %s" % (
                        label, target, nm, sorted(failing)), clause="no-downstream-execution", command=nm)
                c = byname.get(nm)
                if c and c["tool"] != "symlink" and any(i in missing_src for i in c["inputs"]):
                    self.bad("%s of '%s': %s executed although its declared input is missing" % (label, target, nm),
                             clause="no-downstream-execution", command=nm)
            # what the failed build may have recorded: unknown from outside for the commands that ran
            for nm in set(log):
                c = byname.get(nm)
                if c is None:
                    continue
                if nm in failing:
                    self.rec.pop(nm, None)
                else:
                    self.rec[nm] = {"sig": d.sig(c), "unc": True,
                                    "seen": {i: post.get(i) for i in c["inputs"]}, "outs": {o: post.get(o) for o in c["outputs"]}}
            for nm in failing:
                self.rec.pop(nm, None)
            for c in d.cmds:      # in-process tools: may or may not have run
                if c["tool"] in ("mkdir", "symlink") and c["name"] in rc_cmds:
                    r = self.rec.get(c["name"])
                    if r is not None:
                        r["unc"] = True
            return False, log
        # a build that can succeed ----------------------------------------------------------------------
        if rc != 0:
            self.bad("%s of '%s': the build fails (exit %d) although every command can succeed: %s" % (label, target, rc, out[-300:]),
                     clause="spurious-failure")
            self.rec = {k: dict(v, unc=True) for k, v in self.rec.items()}
            for nm in log:
                self.rec.pop(nm, None)
            return False, log
        self.stats["success"] += 1
        # which in-process mkdir commands ran (not observable in the log): decided by the same rule
        mk_ran = {}
        for c in d.cmds:
            if c["tool"] == "mkdir" and c["name"] in rc_cmds:
                r = self.rec.get(c["name"])
                o = c["outputs"][0]
                ran = r is None or r["sig"] != d.sig(c) or bool(r.get("unc")) or pre.get(o) is None or not stat.S_ISDIR(pre[o][3])
                mk_ran[o] = ran
                if ran:
                    self.mkgen[o] = self.mkgen.get(o, 0) + 1
                self.rec[c["name"]] = {"sig": d.sig(c), "seen": {}, "outs": {}}
        for c in d.cmds:
            if c["tool"] != "shell" or c["name"] not in rc_cmds:
                continue
            e = self.expect_run(c, prod, pre, post, mk_ran)
            ran = c["name"] in log
            if e == "Y":
                self.stats["must_run_checked"] += 1
                if not ran:
                    r = self.rec.get(c["name"])
                    why = "never built" if r is None else "definition changed" if r["sig"] != d.sig(c) else "always-out-of-date" if c.get("aod") else "an output or input changed"
                    self.bad("%s of '%s': command %s was NOT re-executed although it had to be (%s)" % (label, target, c["name"], why),
                             clause="rerun-missed", command=c["name"], why=why)
            elif e == "N":
                self.stats["must_not_run_checked"] += 1
                if ran:
                    self.bad("%s of '%s': command %s was re-executed although its definition, inputs and outputs are unchanged" % (
                        label, target, c["name"]), clause="rerun-unnecessary", command=c["name"], null=(label == "null build"))
            else:
                self.stats["may"] += 1
            if ran:
                self.rec[c["name"]] = {"sig": d.sig(c), "seen": {i: post.get(i) for i in c["inputs"]},
                                       "outs": {o: post.get(o) for o in c["outputs"]},
                                       "dirgen": {i: self.mkgen.get(i, 0) for i in c["inputs"]}}
            else:
                r = self.rec.get(c["name"])
                if r is not None:
                    r.pop("unc", None)
        # the property: outputs reachable from the target equal a clean build's ----------------------------------
        self.compare_clean(target, jobs, rc_cmds, rc_nodes, label)
        return True, log

    def compare_clean(self, target, jobs, rc_cmds, rc_nodes, label):
        d = self.desc
        prod = d.producer()
        shutil.rmtree(self.clean, ignore_errors=True)
        os.makedirs(os.path.join(self.clean, "o"))
        open(os.path.join(self.clean, "build.llbuild"), "w").write(d.manifest())
        srcs = [n for n in rc_nodes if n not in prod and not n.startswith("<")]
        for s in srcs:
            sp, dp = os.path.join(self.d, s), os.path.join(self.clean, s)
            os.makedirs(os.path.dirname(dp) or ".", exist_ok=True)
            if os.path.isdir(sp) and not os.path.islink(sp):
                os.makedirs(dp, exist_ok=True)
            elif os.path.lexists(sp):
                shutil.copy2(sp, dp, follow_symlinks=False)
        self.stats["clean_builds"] += 1
        rc, log, out = self.run_tool(self.clean, target, jobs, None)
        shell = sorted(c["name"] for c in d.cmds if c["tool"] == "shell" and c["name"] in rc_cmds)
        if rc != 0 or sorted(log) != shell:
            self.bad("reference clean build of '%s' did not run every reachable command once and succeed (exit %d, log %s, want %s) %s" % (
                target, rc, sorted(log), shell, out[-200:]), clause="reference")
            return
        srcval = self.src_values(self.d)
        want = d.expected(srcval)
        outs = [o for o in d.outputs() if o in rc_nodes and not o.startswith("<")]
        diff = []
        for o in outs:
            got, ref = read_node(self.d, o), read_node(self.clean, o)
            if got != ref:
                diff.append({"node": o, "incremental": got, "clean": ref, "producer": prod[o]["name"], "tool": prod[o]["tool"]})
            if ref != want.get(o):
                self.bad("clean build output %s = %r but the command computes %r" % (o, ref, want.get(o)), clause="reference")
        if diff:
            x = diff[0]
            self.bad("after %s of '%s' (%s) output %s contains %r; a clean build of the same description and sources gives %r (%d outputs differ)" % (
                label, target, "serial" if jobs == 1 else "-j%d" % jobs, x["node"], x["incremental"], x["clean"], len(diff)),
                clause="outputs-equal-clean", tool=x["tool"], diff=diff[:4])
        # model correspondence: Clean values of the Lean model for the same description and sources
        lines, nodes = d.model_lines(srcval)
        self.model_cases.append((lines, nodes, {o: read_node(self.d, o) for o in outs}, list(self.trace[-1:]), d.to_json()))
        shutil.rmtree(self.clean, ignore_errors=True)


def run_history(exe, base, idx, rng, thorough):
    """One generated history.  Returns the World (failures, stats, model cases)."""
    w = World(exe, base, "h%d" % idx, rng, thorough)
    d = gen_desc(rng)
    w.desc = d
    for s in d.sources:
        w.write(s, 1 + rng.below(100000))
    jobs_of = lambda: 1 if rng.chance(1, 2) else 4
    tgt_of = lambda: rng.choice([""] * 5 + ["sub"] * 2 + ["n%d" % rng.below(max(1, len(d.outputs())))])
    w.build("", jobs_of(), "first build")
    nops = (14 if thorough else 9) + rng.below(6)
    for step in range(nops):
        prod = d.producer()
        k = rng.below(100)
        files_out = [o for o in d.outputs() if d.kind(o, prod) == "file"]
        used_src = [s for s in d.sources if consumers(d, s)]
        op = None
        if k < 18 and used_src:
            s = rng.choice(used_src)
            w.write(s, 1 + rng.below(10 ** (1 + rng.below(7))))
            op = {"op": "edit-source", "node": s}
            w.stats["fs_edits"] += 1
        elif k < 28 and d.outputs():
            o = rng.choice([o for o in d.outputs() if not o.startswith("<")] or [None])
            if o:
                w.delete(o)
                op = {"op": "delete-output", "node": o}
                w.stats["fs_edits"] += 1
        elif k < 38 and files_out:
            o = rng.choice(files_out)
            links = [x for x in d.outputs() if d.kind(x, prod) == "link" and os.path.islink(os.path.join(w.d, x))]
            if links and rng.chance(1, 3):
                # the link is replaced by another link whose target has the same length (same st_size)
                o = rng.choice(links)
                p = os.path.join(w.d, o)
                old = os.readlink(p)
                new = old[:-1] + ("y" if old[-1:] != "y" else "z")
                os.unlink(p)
                os.symlink(new, p)
                t = (BASE_T + w.tick()) * 10**9
                os.utime(p, ns=(t, t), follow_symlinks=False)
                op = {"op": "retarget-link", "node": o, "to": new}
            else:
                w.write(o, 5 + rng.below(1000))
                op = {"op": "overwrite-output", "node": o}
            w.stats["fs_edits"] += 1
        elif k < 45 and len(d.cmds) < 10:
            c = add_command(d, rng, rng.below(len(d.cmds) + 1) if rng.chance(1, 2) else None)
            op = {"op": "add-command", "command": c["name"]}
        elif k < 52 and len(d.cmds) > 2:
            c = rng.choice(d.cmds)
            remove_command(d, rng, c)
            for s in d.sources:
                if not os.path.lexists(os.path.join(w.d, s)):
                    w.write(s, 1 + rng.below(1000))
            op = {"op": "remove-command", "command": c["name"]}
        elif k < 60:
            # rewire: replace / add / drop one input of a command
            i = rng.below(len(d.cmds))
            c = d.cmds[i]
            if c["tool"] in ("shell", "phony"):
                nodes = [n for n in avail_nodes(d, i) if d.kind(n, prod) in ("file", "virt")]
                keep = [x for x in c["inputs"] if d.kind(x, prod) == "dir"]
                rest = [x for x in c["inputs"] if x not in keep]
                m = rng.below(3)
                if m == 0 and rest:
                    rest.pop(rng.below(len(rest)))
                elif m == 1 and nodes:
                    x = rng.choice(nodes)
                    if x not in rest:
                        rest.insert(rng.below(len(rest) + 1), x)
                elif rest and nodes:
                    x = rng.choice(nodes)
                    if x not in rest:
                        rest[rng.below(len(rest))] = x
                if c["tool"] == "phony" and not rest:
                    rest = c["inputs"]
                c["inputs"] = rest + keep
                op = {"op": "rewire", "command": c["name"], "inputs": c["inputs"]}
        elif k < 68:
            c = rng.choice(d.cmds)
            if c["tool"] == "shell":
                if rng.chance(1, 2):
                    c["salt"] += 1 + rng.below(50)
                    op = {"op": "change-command", "command": c["name"]}
                else:
                    c["cosmetic"] += 1
                    op = {"op": "change-command-cosmetic", "command": c["name"]}
            elif c["tool"] == "symlink":
                files = [n for n in avail_nodes(d, d.cmds.index(c)) if d.kind(n, prod) == "file"] or ["s0"]
                c["contents"] = rng.choice(files)
                op = {"op": "change-symlink", "command": c["name"]}
        elif k < 74 and used_src and len(d.cmds) < 10:
            # a source becomes a produced node
            s = rng.choice(used_src)
            others = [x for x in d.sources if x != s and not x.startswith("o/C")] or []
            d.uid += 1
            c = {"name": "C%d" % d.uid, "tool": "shell", "salt": 1 + rng.below(1000), "cosmetic": 0,
                 "inputs": rng.shuffle(others)[:1 + rng.below(2)], "outputs": [s]}
            first_user = min(d.cmds.index(u) for u in consumers(d, s))
            # the producer goes before every consumer; its inputs are sources no command earlier produces
            c["inputs"] = [x for x in c["inputs"] if x not in prod]
            d.cmds.insert(first_user, c)
            d.sources.remove(s)
            op = {"op": "source-becomes-produced", "node": s, "command": c["name"]}
        elif k < 80 and not w.broken:
            # C10: make a command fail, build (twice), repair, build
            sh = [c for c in d.cmds if c["tool"] == "shell"]
            if sh:
                c = rng.choice(sh)
                mode = rng.choice(["exit", "signal", "late"])
                open(os.path.join(w.d, "ctl", "%s.%s" % (c["name"], mode)), "w").write("x")
                w.broken.add(c["name"])
                # the command must have to run: one of its outputs disappears, or its definition changes
                fo = [o for o in c["outputs"] if not o.startswith("<")]
                if fo and rng.chance(2, 3):
                    w.delete(rng.choice(fo))
                else:
                    c["cosmetic"] += 1
                w.trace.append({"op": "break-command", "command": c["name"], "mode": mode})
                t, j = tgt_of(), jobs_of()
                ok1, log1 = w.build(t, j, "failing build")
                ok2, log2 = w.build(t, j, "repeated failing build")
                cs, _ = d.reach(d.targets()[t])
                # (when a source is missing as well, the tool may cancel the build before it gets to the broken command)
                if c["name"] in cs and c["name"] not in d.downstream(w.broken) and c["name"] not in log2 and not w.last_missing:
                    w.bad("repeated failing build of '%s': the failed command %s was not attempted again" % (t, c["name"]),
                          clause="failed-retried", command=c["name"], mode=mode)
                os.unlink(os.path.join(w.d, "ctl", "%s.%s" % (c["name"], mode)))
                w.broken.discard(c["name"])
                w.trace.append({"op": "repair-command", "command": c["name"]})
                ok3, log3 = w.build(t, j, "build after repair")
                if ok3 and c["name"] in cs and c["name"] not in log3:
                    w.bad("build after repair of '%s': the failed command %s was not executed" % (t, c["name"]), clause="failed-retried",
                          command=c["name"], mode=mode)
                if ok3:
                    w.stats["null"] += 1
                    w.build(t, j, "null build")
                continue
        elif k < 84 and used_src:
            # C10, missing input flavour
            s = rng.choice(used_src)
            w.delete(s)
            w.trace.append({"op": "delete-source", "node": s})
            t, j = "", jobs_of()
            w.build(t, j, "failing build")
            w.write(s, 1 + rng.below(1000))
            w.trace.append({"op": "recreate-source", "node": s})
            w.build(t, j, "build after repair")
            continue
        if op is not None:
            w.trace.append(op)
            if op["op"] not in ("edit-source", "delete-output", "overwrite-output", "retarget-link"):
                w.stats["desc_edits"] += 1
        # build (sometimes two edits accumulate before the next build)
        if rng.chance(3, 4):
            t, j = tgt_of(), jobs_of()
            ok, _ = w.build(t, j)
            if ok and rng.chance(1, 2):
                w.stats["null"] += 1
                w.build(t, rng.choice([j, jobs_of()]), "null build")
    ok, _ = w.build("", jobs_of(), "final build")
    if ok:
        w.stats["null"] += 1
        w.build("", jobs_of(), "null build")
    shutil.rmtree(w.d, ignore_errors=True)
    shutil.rmtree(w.clean, ignore_errors=True)
    return w


# ----------------------------------------------------------------------------------------------------
# stream `disc`: commands with DISCOVERED dependencies (deps: / deps-style: / working-directory) — added after the seeded changes C08-2
# (relative discovered paths resolved against the wrong directory) and C08-5 (only the first rule of a makefile-style dependency file
# read), which the histories above cannot see: none of their commands has a dependency file.  Own RNG stream ("C08x"): the histories
# above are what they were.  The Lean side is the EXTENDED client (Model/BuildSystemClientX.lean, driver mode c08xclean).
# ----------------------------------------------------------------------------------------------------
DISC_STYLES = ["makefile", "makefile-ignoring-subsequent-outputs", "dependency-info"]
DISC_HEADERS = ["src/inc/h0.h", "src/inc/h1.h", "src/inc/h2.h", "src/inc/h 3.h", "src/inc/h4#.h"]      # sources no command produces


class DiscDesc:
    """Shell commands K0.. in topological order.  A command with `deps` writes its own dependency file (a copy of a template rendered by
    c11.py's writers: mk_file = documented Makefile escaping, separators, CRLF; di_encode = dependency-info records) with ONE RULE PER
    OUTPUT, naming header files it really reads — every output's content depends on every header the correct parser reports, in the
    order of the file (`read_list`) —, by paths relative to its working directory or absolute."""

    def __init__(self, rng, k):
        self.k = k
        self.cmds = []
        n = 2 + rng.below(2)
        outs = []
        for i in range(n):
            name = "K%d" % i
            c = {"name": name, "salt": 1 + rng.below(1000), "ver": 0, "src": "src/%s.c" % name,
                 "inputs": ["src/%s.c" % name] + ([rng.choice(outs)] if outs and rng.chance(1, 2) else []),
                 "outputs": ["o/%s.a" % name] + (["o/%s.b" % name] if (i + k) % 2 == 0 else []), "deps": None}
            if i < 2 or rng.chance(2, 3):
                style = DISC_STYLES[(k + i) % 3]
                hs = rng.shuffle(DISC_HEADERS)
                a = hs[:1 + rng.below(2)]
                b = hs[len(a):len(a) + 1 + rng.below(2)]
                rules = [a] + ([b] if len(c["outputs"]) > 1 else [])
                c["deps"] = {"style": style, "wd": ["rel", "none", "abs"][(k // 3 + i) % 3], "rules": rules,
                             "abs": {h: rng.chance(1, 4) for h in DISC_HEADERS}, "depsabs": rng.chance(1, 3),
                             "sep": rng.below(3), "crlf": rng.chance(1, 4)}
                self.normalize(c)
            self.cmds.append(c)
            outs.append(c["outputs"][0])
        self.cmds.append({"name": "L", "salt": 7 + k, "ver": 0, "src": None, "inputs": [c["outputs"][0] for c in self.cmds],
                          "outputs": ["o/prog"], "deps": None})

    @staticmethod
    def normalize(c):
        d = c["deps"]
        want = len(c["outputs"])
        d["rules"] = (d["rules"] + [[]] * want)[:want]
        if d["style"] == "makefile-ignoring-subsequent-outputs":
            # only the first rule counts: the later rules name nothing the first does not (the command reads what it declares)
            d["rules"] = [d["rules"][0]] * want

    def read_list(self, c):
        """the discovered sources of `c`, in the order the correct parser reports them"""
        d = c["deps"]
        if d is None:
            return []
        if d["style"] == "makefile-ignoring-subsequent-outputs":
            return list(d["rules"][0])
        return [h for r in d["rules"] for h in r]

    def wdir(self, c, root):
        d = c["deps"]
        return None if d is None or d["wd"] == "none" else ("src" if d["wd"] == "rel" else root + "/src")

    def spell(self, c, h, root):
        d = c["deps"]
        if d["abs"][h]:
            return root + "/" + h
        return h if d["wd"] == "none" else h[len("src/"):]

    def template(self, c, root):
        from . import c11
        d = c["deps"]
        if d["style"] == "dependency-info":
            recs = [("V", b"llb-1")] + [("I", self.spell(c, h, root).encode()) for r in d["rules"] for h in r] + [("O", c["outputs"][0].encode())]
            return c11.di_encode(recs)
        rules = [(o.encode(), [((d["sep"] + j) % 3, self.spell(c, h, root).encode()) for j, h in enumerate(r)], d["crlf"])
                 for o, r in zip(c["outputs"], d["rules"])]
        return c11.mk_file(rules)

    def script(self, c):
        R = ".." if (c["deps"] and c["deps"]["wd"] != "none") else "."
        q = lambda rel: "'%s/%s'" % (R, rel)
        b = "echo %s >> %s; : %d; h=%d; " % (c["name"], q("log"), c["ver"], c["salt"])
        for f in c["inputs"]:
            b += "v=$(cat %s) || exit 1; h=$(( (h*131+v+7) %% %d )); " % (q(f), MOD)
        for h in self.read_list(c):
            b += "if [ -e %s ]; then w=$(cat %s); h=$(( (h*131+w+1+7) %% %d )); else h=$(( (h*131+7) %% %d )); fi; " % (q(h), q(h), MOD, MOD)
        for j, o in enumerate(c["outputs"]):
            b += "echo $(( (h*131+%d+7) %% %d )) > %s; touch -d @$((%d+VCLOCK)) %s; " % (j, MOD, q(o), BASE_T, q(o))
        if c["deps"]:
            b += "cp %s %s; " % (q("ctl/%s.tmpl" % c["name"]), q("o/%s.d" % c["name"]))
        return b + "true"

    def manifest(self, root):
        L = ["client:", "  name: basic", "  version: 0", "", "targets:",
             '  "": [%s]' % ", ".join('"%s"' % o for c in self.cmds for o in c["outputs"]), "", "commands:"]
        for c in self.cmds:
            L += ['  "%s":' % c["name"], "    tool: shell", "    inputs: [%s]" % ", ".join('"%s"' % i for i in c["inputs"]),
                  "    outputs: [%s]" % ", ".join('"%s"' % o for o in c["outputs"]), '    args: ["/bin/sh", "-c", "%s"]' % self.script(c)]
            d = c["deps"]
            if d:
                dn = "o/%s.d" % c["name"]
                dn = (root + "/" + dn) if d["depsabs"] else (dn if d["wd"] == "none" else "../" + dn)
                L += ['    deps: "%s"' % dn, "    deps-style: %s" % d["style"]]
                if d["wd"] != "none":
                    L.append('    working-directory: "%s"' % self.wdir(c, root))
        return "\n".join(L) + "\n"

    def sig(self, c, root):
        """the definition of a command as the tool sees it (the absolute directory normalised)"""
        txt = json.dumps([c["name"], c["inputs"], c["outputs"], self.script(c)])
        if c["deps"]:
            txt += self.manifest(root).split('  "%s":' % c["name"])[1].split('\n  "')[0] + self.template(c, root).hex()
        return txt.replace(root, "<ROOT>")

    def expected(self, val):
        """independent evaluation: node -> number (`val` = contents of the files no command produces; None = missing)"""
        out = {}
        for c in self.cmds:
            h = c["salt"]
            for f in c["inputs"]:
                v = out.get(f, val.get(f))
                if v is None:
                    h = None
                    break
                h = mix(h, v)
            if h is not None:
                for p in self.read_list(c):
                    h = mix(h, 0 if val.get(p) is None else val[p] + 1)
            for j, o in enumerate(c["outputs"]):
                out[o] = None if h is None else mix(h, j)
        return out

    def to_json(self):
        return {"k": self.k, "cmds": self.cmds}


class DiscWorld:
    def __init__(self, exe, base, k, rng, seed):
        self.exe, self.rng, self.k, self.seed = exe, rng, k, seed
        self.d = os.path.realpath(base) + "/x%d" % k
        self.clean = self.d + "-clean"
        self.clock = 1
        self.rec, self.fails, self.trace, self.model_cases = {}, [], [], []
        self.stats = {"builds": 0, "clean_builds": 0, "null": 0, "executed": 0, "must_run_checked": 0, "must_not_run_checked": 0,
                      "discovered_edits": 0, "discovered_second_edits": 0, "discovered_deletes": 0, "discovered_recreations": 0,
                      "declared_edits": 0, "desc_edits": 0, "output_edits": 0, "unlisted_edits": 0, "model_nodes": 0}
        shutil.rmtree(self.d, ignore_errors=True)
        self.desc = DiscDesc(rng, k)
        self.setup(self.d)

    def setup(self, root):
        for x in ("ctl", "o", "src/inc"):
            os.makedirs(os.path.join(root, x), exist_ok=True)
        open(os.path.join(root, "build.llbuild"), "w").write(self.desc.manifest(root))
        for c in self.desc.cmds:
            if c["deps"]:
                open(os.path.join(root, "ctl", c["name"] + ".tmpl"), "wb").write(self.desc.template(c, root))

    def sources(self):
        return [c["src"] for c in self.desc.cmds if c["src"]] + DISC_HEADERS

    def tick(self):
        self.clock += 1
        return self.clock

    def write(self, rel, val):
        p = os.path.join(self.d, rel)
        with open(p, "w") as f:
            f.write("%d\n" % val)
        t = (BASE_T + self.tick()) * 10**9
        os.utime(p, ns=(t, t))

    def value(self, root, rel):
        try:
            return int(open(os.path.join(root, rel)).read())
        except (OSError, ValueError):
            return None

    def bad(self, what, **kw):
        f = {"what": "[disc %d] %s" % (self.k, what), "route": "e2e", "stream": "disc",
             "input": {"stream": "disc", "k": self.k, "seed": self.seed, "history": list(self.trace), "desc": json.loads(json.dumps(self.desc.to_json()))}}
        f.update(kw)
        self.fails.append(f)

    def run_tool(self, cwd, jobs, db):
        args = [self.exe, "buildsystem", "build", "-f", "build.llbuild"] + (["--db", db] if db else ["--no-db"]) + \
               (["--serial"] if jobs == 1 else ["-j", str(jobs)])
        try:
            os.unlink(os.path.join(cwd, "log"))
        except FileNotFoundError:
            pass
        env = dict(os.environ)
        env["VCLOCK"] = str(self.tick())
        p = subprocess.run(args, cwd=cwd, stdout=subprocess.PIPE, stderr=subprocess.STDOUT, timeout=120, env=env)
        lp = os.path.join(cwd, "log")
        log = open(lp).read().split() if os.path.exists(lp) else []
        return p.returncode, log, p.stdout.decode("utf-8", "replace")

    def build(self, jobs, label="build", why=""):
        d = self.desc
        self.stats["builds"] += 1
        self.setup(self.d)
        allouts = [o for c in d.cmds for o in c["outputs"]]
        watch = set(allouts) | set(self.sources())
        pre = {n: stat_tok(os.path.join(self.d, n)) for n in watch}
        rc, log, out = self.run_tool(self.d, jobs, "build.db")
        post = {n: stat_tok(os.path.join(self.d, n)) for n in watch}
        self.trace.append({"op": label, "jobs": jobs, "rc": rc, "log": log, "why": why})
        self.stats["executed"] += len(log)
        if rc != 0:
            self.bad("%s: the build fails (exit %d) although every command can succeed: %s" % (label, rc, out[-300:]), clause="spurious-failure")
            self.rec = {}
            return False
        for nm in sorted(set(log)):
            if log.count(nm) > 1:
                self.bad("%s: command %s executed %d times in one build" % (label, nm, log.count(nm)), clause="once", command=nm)
        # C09's re-run rule on observable state, extended: ... or a recorded DISCOVERED source changed
        for c in d.cmds:
            r = self.rec.get(c["name"])
            reason = cat = None
            if r is None:
                reason = cat = "never built"
            elif r["sig"] != d.sig(c, self.d):
                reason = cat = "definition changed"
            elif any(pre.get(o) != r["outs"].get(o) for o in c["outputs"]):
                reason = cat = "an output changed"
            elif any(post.get(i) != r["seen"].get(i, "never") for i in c["inputs"]):
                reason = cat = "a declared input changed"
            else:
                ch = [h for h in r["disc"] if post.get(h) != r["seen"].get(h, "never")]
                if ch:
                    cat = "a discovered source changed"
                    reason = "the discovered source %s (listed in its dependency file, rule %s) changed" % (
                        ch[0], [j + 1 for j, rr in enumerate((c["deps"] or {}).get("rules", [])) if ch[0] in rr])
            ran = c["name"] in log
            if reason is not None:
                self.stats["must_run_checked"] += 1
                if not ran:
                    self.bad("%s (%s): command %s was NOT re-executed although it had to be (%s)" % (label, why, c["name"], reason),
                             clause="rerun-missed", command=c["name"], why=cat,
                             deps_style=(c["deps"] or {}).get("style"), working_directory=(c["deps"] or {}).get("wd"))
            else:
                self.stats["must_not_run_checked"] += 1
                if ran:
                    self.bad("%s (%s): command %s was re-executed although its definition, inputs, outputs and discovered sources are unchanged" % (
                        label, why, c["name"]), clause="rerun-unnecessary", command=c["name"], null=(label == "null build"))
            if ran:
                self.rec[c["name"]] = {"sig": d.sig(c, self.d), "outs": {o: post.get(o) for o in c["outputs"]}, "disc": d.read_list(c),
                                       "seen": {i: post.get(i) for i in c["inputs"] + d.read_list(c)}}
        self.compare_clean(jobs, label, why)
        return True

    def compare_clean(self, jobs, label, why):
        d = self.desc
        shutil.rmtree(self.clean, ignore_errors=True)
        self.setup(self.clean)
        for s in self.sources():
            sp = os.path.join(self.d, s)
            if os.path.exists(sp):
                shutil.copy2(sp, os.path.join(self.clean, s))
        self.stats["clean_builds"] += 1
        rc, log, out = self.run_tool(self.clean, jobs, None)
        names = sorted(c["name"] for c in d.cmds)
        if rc != 0 or sorted(log) != names:
            self.bad("reference clean build did not run every command once and succeed (exit %d, log %s) %s" % (rc, sorted(log), out[-200:]), clause="reference")
            return
        val = {s: self.value(self.d, s) for s in self.sources()}
        want = d.expected(val)
        outs = [o for c in d.cmds for o in c["outputs"]]
        diff = []
        for o in outs:
            got, ref = self.value(self.d, o), self.value(self.clean, o)
            if got != ref:
                prod = next(c for c in d.cmds if o in c["outputs"])
                diff.append({"node": o, "incremental": got, "clean": ref, "producer": prod["name"], "deps_style": (prod["deps"] or {}).get("style"),
                             "working_directory": (prod["deps"] or {}).get("wd")})
            if ref != want.get(o):
                self.bad("clean build output %s = %r but the command computes %r" % (o, ref, want.get(o)), clause="reference")
        if diff:
            x = diff[0]
            self.bad("after %s (%s; %s) output %s contains %r; a clean build of the same description and sources gives %r (%d outputs differ; "
                     "producer %s: deps-style %s, working-directory %s)" % (label, why, "serial" if jobs == 1 else "-j%d" % jobs, x["node"], x["incremental"],
                                                                            x["clean"], len(diff), x["producer"], x["deps_style"], x["working_directory"]),
                     clause="outputs-equal-clean", tool="shell", deps_style=x["deps_style"], working_directory=x["working_directory"], diff=diff[:4])
        # the Lean side: clean values of the extended client for this description, these sources and the dependency files on disk
        nodes = self.sources() + outs
        idx = {n: i for i, n in enumerate(nodes)}
        L = []
        for n in nodes:
            v = val.get(n) if n not in outs else None
            L.append("node %d 0 %d" % (idx[n], 0 if v is None else v + 1))
            L.append("path %d %s" % (idx[n], C.hexs((self.d + "/" + n).encode())))
        for ci, c in enumerate(d.cmds):
            L.append("cmd %d 0 %d %s %s" % (ci, c["salt"], ",".join(str(idx[i]) for i in c["inputs"]), ",".join(str(idx[o]) for o in c["outputs"])))
            if c["deps"]:
                try:
                    data = C.hexs(open(os.path.join(self.d, "o", c["name"] + ".d"), "rb").read())
                except OSError:
                    data = "x"
                W = self.d if c["deps"]["wd"] == "none" else self.d + "/src"
                L.append("xdepsb %d %s %s %s" % (ci, c["deps"]["style"], C.hexs(W.encode()), data))
        L.append("evalx")
        self.model_cases.append((L, nodes, {o: self.value(self.d, o) for o in outs}, list(self.trace[-2:]), d.to_json()))
        shutil.rmtree(self.clean, ignore_errors=True)


def run_disc_history(exe, base, k, rng, thorough, seed):
    w = DiscWorld(exe, base, k, rng, seed)
    d = w.desc
    for s in w.sources():
        if not (s in DISC_HEADERS and rng.chance(1, 6)):
            w.write(s, 1 + rng.below(100000))
    jobs_of = lambda: 1 if rng.chance(1, 2) else 4

    def null():
        if rng.chance(1, 2):
            w.stats["null"] += 1
            w.build(jobs_of(), "null build")
    w.build(jobs_of(), "first build")
    null()
    withdeps = [c for c in d.cmds if c["deps"]]
    for step in range((12 if thorough else 7) + rng.below(3)):
        c = rng.choice(withdeps)
        k = rng.below(12)
        listed = d.read_list(c)
        if k < 4 and listed:
            # a discovered source is edited TWICE with a build in between (a dependency recorded by the first run must still be
            # recorded after the re-run); later rules / positions are as likely as the first
            h = listed[-1] if rng.chance(1, 2) else rng.choice(listed)
            w.write(h, 1 + rng.below(100000))
            w.trace.append({"op": "edit-discovered", "node": h, "command": c["name"]})
            w.stats["discovered_edits"] += 1
            w.build(jobs_of(), why="edit of %s, discovered by %s" % (h, c["name"]))
            null()
            w.write(h, 1 + rng.below(100000))
            w.trace.append({"op": "edit-discovered-again", "node": h, "command": c["name"]})
            w.stats["discovered_second_edits"] += 1
            w.build(jobs_of(), why="second edit of %s, discovered by %s" % (h, c["name"]))
        elif k < 6 and listed:
            h = rng.choice(listed)
            if os.path.exists(os.path.join(w.d, h)):
                os.unlink(os.path.join(w.d, h))
                w.trace.append({"op": "delete-discovered", "node": h, "command": c["name"]})
                w.stats["discovered_deletes"] += 1
                w.build(jobs_of(), why="deletion of %s, discovered by %s" % (h, c["name"]))
                null()
            w.write(h, 1 + rng.below(100000))
            w.trace.append({"op": "create-discovered", "node": h, "command": c["name"]})
            w.stats["discovered_recreations"] += 1
            w.build(jobs_of(), why="(re-)creation of %s, discovered by %s" % (h, c["name"]))
        elif k == 6:
            w.write(c["src"], 1 + rng.below(100000))
            w.trace.append({"op": "edit-source", "node": c["src"]})
            w.stats["declared_edits"] += 1
            w.build(jobs_of(), why="edit of the declared input %s" % c["src"])
        elif k == 7:
            free = [h for h in DISC_HEADERS if all(h not in d.read_list(x) for x in d.cmds)]
            if free:
                w.write(rng.choice(free), 1 + rng.below(100000))
                w.trace.append({"op": "edit-unlisted-header"})
                w.stats["unlisted_edits"] += 1
                w.build(jobs_of(), "null build", why="edit of a header no dependency file lists")
                w.stats["null"] += 1
                continue
        elif k == 8:
            o = rng.choice(c["outputs"])
            if rng.chance(1, 2):
                os.unlink(os.path.join(w.d, o)) if os.path.exists(os.path.join(w.d, o)) else None
            else:
                w.write(o, 5 + rng.below(1000))
            w.trace.append({"op": "tamper-output", "node": o})
            w.stats["output_edits"] += 1
            w.build(jobs_of(), why="output %s deleted / overwritten" % o)
        else:
            # description edits around the dependency file
            dd = c["deps"]
            m = rng.below(6)
            if m == 0:
                r = rng.choice(dd["rules"])
                cand = [h for h in DISC_HEADERS if h not in r]
                if cand:
                    r.insert(rng.below(len(r) + 1), rng.choice(cand))
            elif m == 1:
                r = rng.choice(dd["rules"])
                if len(r) > 1:
                    r.pop(rng.below(len(r)))
            elif m == 2:
                dd["style"] = rng.choice([s for s in DISC_STYLES if s != dd["style"]])
            elif m == 3:
                dd["wd"] = rng.choice([x for x in ("rel", "none", "abs") if x != dd["wd"]])
            elif m == 4:
                h = rng.choice(DISC_HEADERS)
                dd["abs"][h] = not dd["abs"][h]
                dd["depsabs"] = not dd["depsabs"] if rng.chance(1, 2) else dd["depsabs"]
            else:
                c["salt"] += 1 + rng.below(50)
            dd["rules"] = [list(r) for r in dd["rules"]]
            DiscDesc.normalize(c)
            c["ver"] += 1
            w.trace.append({"op": "edit-description", "command": c["name"], "deps": json.loads(json.dumps(dd))})
            w.stats["desc_edits"] += 1
            w.build(jobs_of(), why="description of %s edited" % c["name"])
        null()
    w.build(jobs_of(), "final build")
    w.stats["null"] += 1
    w.build(jobs_of(), "null build")
    w.stats["deps_commands"] = len(withdeps)
    w.stats["multi_rule_makefile_commands"] = sum(1 for c in withdeps if c["deps"]["style"] == "makefile" and len(c["deps"]["rules"]) > 1)
    shutil.rmtree(w.d, ignore_errors=True)
    shutil.rmtree(w.clean, ignore_errors=True)
    return w


def probe_directory_attribute(exe, base):
    """F19: a node declared `type: directory` must be a directory node (its tree is tracked), exactly like `is-directory: true`.
    The node is named `sd/` (a directory node by default): before the fix the explicit attribute turned it into a PLAIN node."""
    fails = []
    for attr in ("type: directory", "is-directory: true"):
        d = os.path.join(base, "f19-" + attr.split(":")[0])
        shutil.rmtree(d, ignore_errors=True)
        os.makedirs(os.path.join(d, "sd"))
        open(os.path.join(d, "sd", "a"), "w").write("1\n")
        open(os.path.join(d, "build.llbuild"), "w").write(
            'client:\n  name: basic\n  version: 0\n\ntargets:\n  "": ["out"]\n\nnodes:\n  "sd/":\n    %s\n\ncommands:\n  "C":\n    tool: shell\n'
            '    inputs: ["sd/"]\n    outputs: ["out"]\n    args: ["/bin/sh", "-c", "echo C >> log; cat sd/* > out"]\n' % attr)
        logs = []
        for step in range(2):
            try:
                os.unlink(os.path.join(d, "log"))
            except FileNotFoundError:
                pass
            p = subprocess.run([exe, "buildsystem", "build", "-f", "build.llbuild", "--db", "build.db", "--serial"], cwd=d,
                               stdout=subprocess.PIPE, stderr=subprocess.STDOUT, timeout=60)
            logs.append((p.returncode, open(os.path.join(d, "log")).read().split() if os.path.exists(os.path.join(d, "log")) else []))
            if step == 0:
                # edit a file inside the directory: size and mtime of the FILE change, the directory's own record does not
                dst = os.stat(os.path.join(d, "sd"))
                open(os.path.join(d, "sd", "a"), "w").write("22222\n")
                t = (BASE_T + 5) * 10**9
                os.utime(os.path.join(d, "sd", "a"), ns=(t, t))
                os.utime(os.path.join(d, "sd"), ns=(dst.st_atime_ns, dst.st_mtime_ns))
        out = open(os.path.join(d, "out")).read() if os.path.exists(os.path.join(d, "out")) else None
        if logs[0] != (0, ["C"]) or logs[1] != (0, ["C"]) or out != "22222\n":
            fails.append({"what": "node attribute `%s`: after editing a file inside the directory the consumer was not re-run "
                                  "(builds: %s, out=%r; a clean build gives '22222')" % (attr, logs, out),
                          "clause": "type-directory-attribute", "attribute": attr, "route": "e2e", "input": {"attribute": attr, "builds": logs}})
        shutil.rmtree(d, ignore_errors=True)
    return fails


def probe_allow_modified_outputs(exe, base):
    """`allow-modified-outputs: true` (docs/buildsystem.rst): the outputs may be modified independently without invalidating the result;
    "the command will be rerun if the outputs are missing".  Everything else is as for any command: a changed definition or a changed
    input re-runs it (C09) and the outputs equal a clean build's (C08).  One small history per clause."""
    fails = []

    def run(d, script):
        open(os.path.join(d, "build.llbuild"), "w").write(
            'client:\n  name: basic\n  version: 0\n\ntargets:\n  "": ["out"]\n\ncommands:\n  "C":\n    tool: shell\n'
            '    inputs: ["in"]\n    outputs: ["out"]\n    args: ["/bin/sh", "-c", "%s"]\n    allow-modified-outputs: true\n' % script)
        try:
            os.unlink(os.path.join(d, "log"))
        except FileNotFoundError:
            pass
        p = subprocess.run([exe, "buildsystem", "build", "-f", "build.llbuild", "--db", "build.db", "--serial"], cwd=d,
                           stdout=subprocess.PIPE, stderr=subprocess.STDOUT, timeout=60)
        ran = os.path.exists(os.path.join(d, "log"))
        out = open(os.path.join(d, "out")).read() if os.path.exists(os.path.join(d, "out")) else None
        return p.returncode, ran, out

    def stamp(path, t):
        os.utime(path, ns=((BASE_T + t) * 10**9, (BASE_T + t) * 10**9))
    s1 = "echo C >> log; sed s/^/A/ in > out"
    s2 = "echo C >> log; sed s/^/B/ in > out"
    for clause in ("definition-changed", "input-changed", "output-modified", "output-removed"):
        d = os.path.join(base, "amo-" + clause)
        shutil.rmtree(d, ignore_errors=True)
        os.makedirs(d)
        open(os.path.join(d, "in"), "w").write("1\n")
        stamp(os.path.join(d, "in"), 1)
        first = run(d, s1)
        script, want_ran, want_out = s1, None, None
        if clause == "definition-changed":
            script, want_ran, want_out = s2, True, "B1\n"
        elif clause == "input-changed":
            open(os.path.join(d, "in"), "w").write("22\n")
            stamp(os.path.join(d, "in"), 50)
            want_ran, want_out = True, "A22\n"
        elif clause == "output-modified":
            open(os.path.join(d, "out"), "w").write("stripped\n")
            stamp(os.path.join(d, "out"), 60)
            want_ran, want_out = False, "stripped\n"
        else:
            os.unlink(os.path.join(d, "out"))
            want_ran, want_out = True, "A1\n"
        second = run(d, script)
        if first != (0, True, "A1\n") or second != (0, want_ran, want_out):
            fails.append({"what": "allow-modified-outputs, %s: first build %s, second build %s; expected the command %s and `out` = %r "
                                  "(what a clean build of the final state gives, resp. the independently modified output)" % (
                                      clause, first, second, "to run" if want_ran else "not to run", want_out),
                          "kind": "allow-modified-outputs", "clause": clause, "route": "e2e", "input": {"clause": clause, "builds": [first, second]}})
        shutil.rmtree(d, ignore_errors=True)
    return fails


class Check(PropertyCheck):
    prop = "C08"
    module = "LLBuild.Props.C08All"
    theorems = ["LLBuild.BuildSystemClient." + t for t in (
        "C08_client_WF", "C08_outputs_clean", "C08_inputs_current", "C08_clean_source", "C08_clean_produced", "C08_clean_command",
        "C08_clean_is_eval", "C08_clean_unique", "C08_rule_dispatch", "C08_rule_signature_sources", "C08_file_input_valid_iff", "C08_command_valid_sound",
        "C08_never_valid", "C08_missing_command_forces", "C08_node_sig_tracks_producers", "C08_node_sig_changes",
        "C08_directory_attribute",
        # Props/C08Gen.lean: histories with description edits (engine theorems over program generations instantiated)
        "C08_client_SigCovers", "C08_client_SigCoversValid", "C08_client_SelfStable", "C08_outputs_clean_gen", "C08_outputs_eval_gen",
        "C08_inputs_current_gen", "C08_command_sig_tracks_definition", "C08_changed_definition_reruns_gen",
        "C08_value_records_outputs",
        "NeedProducerStable.C08_gen_needs_ProducerStable", "C08_SigCovers_needs_TargetsStable",
        # Props/C08X.lean: the EXTENDED client (Model/BuildSystemClientX.lean): shell commands with discovered dependencies (deps files)
        # and with a failure of their own (non-zero exit status)
        "C08X_client_WF", "C08X_client_Det", "C08X_clean_is_eval", "C08X_incremental_equals_clean", "C08X_inputs_current",
        "C08X_extends_client", "C08X_deps_attribute_in_signature", "C08X_client_SigCoversValid", "C08X_client_SelfStable",
        "C08X_outputs_clean_gen", "NeedDiscsAreSources.C08X_needs_DiscsAreSources")]
    # x_failtables / x_enginefp / x_depsparsers: Props/C08X.lean imports the failure tables (C10), the engine fingerprint (C01) and the
    # dependency-file parser tables (C11) its statements are instances of
    extractors = ["x_bsrules", "x_failtables", "x_enginefp", "x_depsparsers"]
    harnesses = []
    assumptions = [
        "commands are deterministic functions of the contents of their declared inputs (real /bin/sh, cat, touch behave)",
        "observable edits: every change of a file changes its stat record (the harness stamps mtimes from a logical clock; commands stamp their outputs)",
        "the effects of commands on the file system during a build are abstracted as values: a node's value stands for its content; "
        "the frame argument (a produced path is written by one command and read only by tasks that requested its node) is the decidable "
        "well-formedness predicate `Desc.wf`, not a theorem about the file system",
        "discovered dependencies (deps files) and commands that fail by themselves are not in the BASE model (Model/BuildSystemClient.lean); "
        "they are in its extension Model/BuildSystemClientX.lean (Props/C08X.lean: C08X_client_WF, C08X_incremental_equals_clean, C08X_outputs_clean_gen), "
        "under the decidable hypothesis DiscsAreSources (every path a command can report as discovered is a source file of the description: "
        "no producer, not virtual; without it the statement fails, C08X_needs_DiscsAreSources, and the real tool shows it on a generated "
        "header - probe of ./check C11), with the discovered list a function of the contents of the DECLARED inputs (Engine.Program.disc "
        "does not see the external state: a header that includes another header is modelled by the full list), and with the F22 ghost flag "
        "of C01 (pendingDropped = false: no failed build ended while discovered dependencies were still pending) as a hypothesis that can no "
        "longer be discharged; the extension is tied to the real tool by the `disc` stream here (commands writing their own dependency files; clean-build "
        "oracle + c08xclean against the files on disk) and by the `clientx` streams of ./check C10 and ./check C11; "
        "directory-tree nodes are C12",
        "description edits ARE proved (Props/C08Gen.lean: C08_outputs_clean_gen / C08_inputs_current_gen = C01_value_gen / C01_inputs_gen at "
        "`fun g => client H (ds g)`; a description edit = the tool started again on the same database with another description; the client "
        "obligations C08_client_SigCoversValid and C08_client_SelfStable are theorems), under two explicit hypotheses: (1) the signature hash "
        "does not collide on the signature terms involved (`hH`; theorems are about pre-hash terms); (2) `ProducerStable`: a command that stays "
        "the single producer of a VIRTUAL node keeps its tool class (phony / symlink / other) - getResultForOutput's PhonyCommand/SymlinkCommand "
        "overrides are covered neither by the node signature nor by the command's value; without it the engine-level statement fails "
        "(C08_gen_needs_ProducerStable: a skipped phony command turned into a skipped shell command), a case the command-line tool reports as a "
        "failed build. Nothing is assumed about targets (a target rule has no signature and never accepts its stored value; the engine "
        "obligation SigCoversValid binds only rules that can be valid; the stronger SigCovers would need an unedited target table: "
        "C08_SigCovers_needs_TargetsStable) nor about non-virtual outputs (the model's command value records its output list like the real "
        "BuildValue, C08_value_records_outputs, so reordering/adding/dropping outputs is covered). Edits violating (2) are covered end to end by "
        "the history oracle only",
        "engine theorems C01_value / C01_value_gen are about the abstract engine; their tie to BuildEngine.cpp is C01's correspondence; a "
        "description edit is modelled as the engine's `restart` event with another Program (same database, every rule looked up again)",
    ]
    trusted_base = ["extractor x_bsrules (lookupRule dispatch, validity guards, forceChange, signature recipes)",
                    "python history oracle against the real `llbuild buildsystem build` (clean-build comparison, C09 re-run rule, C10 failure rules)",
                    "Lean driver mode c08clean vs. real output files; c08xclean (extended client, dependency files by their bytes) vs. the output files of "
                    "the `disc` histories"]

    def correspond(self, ctx, res):
        exe = os.path.join(C.BUILD, "plain", "bin", "llbuild")
        base = os.path.join(C.BUILD, "scratch-c08")
        shutil.rmtree(base, ignore_errors=True)
        os.makedirs(base)
        res.oracle_failures += probe_directory_attribute(exe, base)
        res.oracle_failures += probe_allow_modified_outputs(exe, base)
        n = 1000 if ctx.thorough else 110
        seeds = [ctx.rng.next() for _ in range(n)]
        # stream `disc` (commands with discovered dependencies): its seeds are drawn AFTER the ones above, its histories use their own stream
        nd = 300 if ctx.thorough else 36
        dseeds = [ctx.rng.next() for _ in range(nd)]
        worlds = [None] * n
        dworlds = [None] * nd
        errs = []
        nxt = [0]
        lock = threading.Lock()

        def worker():
            while True:
                with lock:
                    i = nxt[0]
                    nxt[0] += 1
                if i >= n + nd:
                    return
                try:
                    if i < n:
                        worlds[i] = run_history(exe, base, i, C.Rng(seeds[i], "C08h"), ctx.thorough)
                    else:
                        dworlds[i - n] = run_disc_history(exe, base, i - n, C.Rng(dseeds[i - n], "C08x"), ctx.thorough, dseeds[i - n])
                except Exception as e:       # a crashed history is a broken tie, never silently dropped
                    import traceback
                    errs.append("history %d: %s\n%s" % (i, e, traceback.format_exc()[-600:]))
        ts = [threading.Thread(target=worker) for _ in range(14)]
        [t.start() for t in ts]
        [t.join() for t in ts]
        for e in errs[:5]:
            res.mismatches.append({"stream": "c08-history", "input": e[-500:], "model": "", "impl": "harness exception: " + e[:200]})
        tot = {}
        cases = []
        for w in worlds:
            if w is None:
                continue
            res.oracle_failures += w.fails
            for k, v in w.stats.items():
                tot[k] = tot.get(k, 0) + v
            cases += w.model_cases
        # model correspondence: Clean values from the Lean model vs files left by incremental builds
        lines = []
        for ls, _, _, _, _ in cases:
            lines += ls
        if cases:
            mrc, mout, merr = run_model("c08clean", lines)
            if mrc != 0 or len(mout) != len(cases):
                if ctx.model_ok:
                    res.mismatches.append({"stream": "c08clean", "input": "model driver exit %d, %d/%d lines" % (mrc, len(mout), len(cases)), "model": merr[-300:]})
            else:
                for (ls, nodes, files, tr, dj), ml in zip(cases, mout):
                    vals = {}
                    for tok in ml.split():
                        a, _, b = tok.partition("=")
                        if a.isdigit():
                            vals[nodes[int(a)]] = b
                    for o, txt in files.items():
                        m = vals.get(o)
                        if m is None:
                            want = "<no model value>"
                        elif m == "dir":
                            want = "DIR"
                        elif m.startswith("link:"):
                            want = "LINK:" + nodes[int(m[5:])]
                        elif m.isdigit():
                            want = m + "\n"
                        else:
                            want = "<model: %s>" % m
                        tot["model_nodes"] = tot.get("model_nodes", 0) + 1
                        if want != txt and len(res.mismatches) < 20:
                            res.mismatches.append({"stream": "c08clean", "input": {"node": o, "ops": ls, "last_build": tr}, "model": want, "impl": txt})
        # stream `disc`: oracle failures, and the Lean evaluator of the EXTENDED client (c08xclean) against the files on disk
        dtot = {"styles": {}, "working_directory": {}}
        dcases = []
        for w in dworlds:
            if w is None:
                continue
            res.oracle_failures += w.fails
            for k, v in w.stats.items():
                dtot[k] = dtot.get(k, 0) + v
            for c in w.desc.cmds:
                if c["deps"]:
                    dtot["styles"][c["deps"]["style"]] = dtot["styles"].get(c["deps"]["style"], 0) + 1
                    dtot["working_directory"][c["deps"]["wd"]] = dtot["working_directory"].get(c["deps"]["wd"], 0) + 1
            dcases += w.model_cases
        if dcases:
            mrc, mout, merr = run_model("c08xclean", [l for c in dcases for l in c[0]])
            if mrc != 0 or len(mout) != len(dcases):
                if ctx.model_ok:
                    res.mismatches.append({"stream": "c08xclean", "input": "model driver exit %d, %d/%d lines" % (mrc, len(mout), len(dcases)), "model": merr[-300:]})
            else:
                for (ls, nodes, files, tr, dj), ml in zip(dcases, mout):
                    vals = {}
                    for tok in ml.split():
                        a, _, b = tok.partition("=")
                        if a.isdigit():
                            vals[nodes[int(a)]] = b
                    for o, got in files.items():
                        dtot["model_nodes"] = dtot.get("model_nodes", 0) + 1
                        if vals.get(o) != (None if got is None else str(got)) and len(res.mismatches) < 20:
                            res.mismatches.append({"stream": "c08xclean", "input": {"node": o, "ops": ls, "last_builds": tr, "desc": dj},
                                                   "model": vals.get(o), "impl": got})
        res.evaluations = tot.get("builds", 0) + tot.get("clean_builds", 0) + dtot.get("builds", 0) + dtot.get("clean_builds", 0)
        res.distinct_nontrivial = tot.get("success", 0) + dtot.get("builds", 0)
        res.distribution = dict(tot, histories=n, disc=dict(dtot, histories=nd))
        res.rule = ("seeded histories over generated descriptions (<= 10 commands; shell/phony/mkdir/symlink; multiple outputs; virtual nodes; "
                    "targets: all, a subset, single nodes) of {edit source, delete/overwrite output, add/remove/rewire/change command, source becomes "
                    "produced and back, break/repair a command, delete/recreate a source, build, null build}; serial and -j4, one database per history, "
                    "every build a new process.  Non-trivial = successful incremental builds compared with a clean build.  "
                    "DISC (own RNG stream, 36 / thorough 300 histories): 2-3 shell commands + a link step, most of them with `deps:` + `deps-style:` "
                    "(makefile, makefile-ignoring-subsequent-outputs, dependency-info; files rendered by c11.py's writers mk_file / di_encode: documented "
                    "escaping incl. a space and a '#' in a name, three separators, CRLF) and `working-directory` absent / relative / absolute; a "
                    "command writes its own dependency file with ONE RULE PER OUTPUT and different prerequisites per rule, naming SOURCE headers it "
                    "really reads by paths relative to its working directory or absolute; histories edit a discovered source TWICE with builds in "
                    "between (any rule, any position), delete and re-create it, edit declared inputs, tamper with outputs, edit a header nobody "
                    "lists, and edit the description (header added to / removed from a rule, deps-style, working-directory, spelling, arguments); "
                    "after every build: comparison with a clean build in a fresh directory, the C09 re-run rule extended with 'a recorded "
                    "discovered source changed', and the Lean evaluator of the EXTENDED client (c08xclean: the dependency files' bytes as left on "
                    "disk -> absDepsFile -> cleanEvalX) against every output file.")
        res.exhaustive = False
        if worlds and worlds[0]:
            res.samples.append({"history": worlds[0].trace[:6]})
        shutil.rmtree(base, ignore_errors=True)

    def search(self, ctx, res, why):
        return


CHECK = Check()
