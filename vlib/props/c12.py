"""C12 — directory-tree signatures change exactly when the tree changes.

End-to-end tie: histories of builds through the REAL `llbuild buildsystem build` (one new process per build, database
reused) on a build description with four shell commands that take the same directory as
  d/  (tree) · ./d/ (tree, filtered) · ././d/ (structure) · ./././d/ (structure, filtered)
and append to a side-effect log when they run.  Between builds the tree is edited (add / remove / rename / retype /
content / mtime / chmod / symlink retarget, single and compound, any depth).  All mtimes are stamped from a logical
clock (a directory whose entry set changed gets a fresh stamp, as a kernel with a fine clock would).

Property oracle (python, independent of the Lean model): a command re-executes iff its observation of the tree
(`observe` / `observeStruct`: per node name + stat record resp. mode, per directory the filtered sorted listing,
every depth; libc fnmatch through ctypes) changed since the previous build; the first build runs all four; a null
rebuild runs nothing.

Correspondence: the 64-bit signature values the real tool stored in its database are compared bit-for-bit with
`HashTerm.eval` of the Lean model's `treeSig` / `structSig` (driver mode c12sig) on the same tree.

Observability of `mode`: `FileInfo::operator==` does not compare `mode` (C13_eq_iff), so a node's value is only
recomputed when device/inode/size/mtime change; the recorded `mode` is the one seen at that time ("sticky").  The
oracle models this exactly and counts permission-only edits separately (`distribution.mode_only_edits`).
"""
import ctypes, ctypes.util, json, os, shutil, sqlite3, stat, struct, subprocess, threading
from concurrent.futures import ThreadPoolExecutor
from .. import common as C
from ..runner import PropertyCheck

_libc = ctypes.CDLL(ctypes.util.find_library("c"), use_errno=True)
_libc.fnmatch.argtypes = [ctypes.c_char_p, ctypes.c_char_p, ctypes.c_int]
_libc.fnmatch.restype = ctypes.c_int


_libc.setlocale.argtypes = [ctypes.c_int, ctypes.c_char_p]
_libc.setlocale.restype = ctypes.c_char_p
_LC_CTYPE = 0


def fnmatch(p, n):
    """libc fnmatch in the "C" locale, which is what the llbuild process runs in (it never calls setlocale);
    CPython switches LC_CTYPE to the user's locale at start-up, where `?` would match a multi-byte character."""
    if _libc.setlocale(_LC_CTYPE, None) != b"C":
        _libc.setlocale(_LC_CTYPE, b"C")
    return _libc.fnmatch(p, n, 0) == 0


VARIANTS = [  # (index, node name, root path as hashed, structure?, filtered?)
    (0, "d/", "d", False, False),
    (1, "./d/", "./d", False, True),
    (2, "././d/", "././d", True, False),
    (3, "./././d/", "./././d", True, True),
]
PATTERN_SETS = [[b"*.tmp"], [b"*.o", b"k*"], [b"?"], [b"[ab]*", b"*.tmp"], [b"sub"], [b"*"], [b"nomatch"]]
NAMES = [b"a", b"b", b"c", b"k.tmp", b"x.o", b"sub", b"z z", b".hid", b"\xc3\xbc", b"ab", b"B", b"k", b"t.tmp.x", b"sub2"]


def yaml_str(b):
    return '"' + b.decode("latin-1").replace("\\", "\\\\").replace('"', '\\"') + '"'


def build_file(patterns):
    pats = "[" + ", ".join(yaml_str(p) for p in patterns) + "]"
    out = ["client:", "  name: basic", "", "targets:", '  "": ["<all>"]', "", "nodes:"]
    for idx, node, _, structure, filtered in VARIANTS:
        out.append('  "%s":' % node)
        out.append("    is-directory-structure: true" if structure else "    is-directory: true")
        if filtered:
            out.append("    content-exclusion-patterns: " + pats)
    out += ["", "commands:", "  C.all:", "    tool: phony", '    inputs: ["<o0>", "<o1>", "<o2>", "<o3>"]', '    outputs: ["<all>"]']
    for idx, node, _, _, _ in VARIANTS:
        out += ["  C%d:" % idx, "    tool: shell", '    inputs: ["%s"]' % node, '    outputs: ["<o%d>"]' % idx,
                "    args: echo r >> log.%d" % idx]
    return "\n".join(out) + "\n"


# ----------------------------------------------------------------------------------------------
# a workspace: real files + logical clock
# ----------------------------------------------------------------------------------------------
class WS:
    def __init__(self, root, patterns, exe):
        self.root, self.patterns, self.exe = root, patterns, exe
        self.clock = 1000
        self.mt = {}            # relative path (bytes) -> logical mtime (seconds)
        shutil.rmtree(root, ignore_errors=True)
        os.makedirs(os.path.join(root, "ext", "dirT"))
        for n, body in (("t1", b"1"), ("t2", b"22")):
            with open(os.path.join(root, "ext", n), "wb") as f:
                f.write(body)
        with open(os.path.join(root, "ext", "dirT", "inner"), "wb") as f:
            f.write(b"i")
        for p in ("ext/t1", "ext/t2", "ext/dirT/inner", "ext/dirT"):
            os.utime(os.path.join(root, p), ns=(500 * 10**9, 500 * 10**9))
        with open(os.path.join(root, "build.llbuild"), "w", encoding="latin-1") as f:
            f.write(build_file(patterns))
        self.sticky = [dict() for _ in VARIANTS]
        self.prev_obs = [None] * len(VARIANTS)

    def p(self, rel):
        return os.path.join(self.root.encode(), rel)

    def tick(self):
        self.clock += 1
        return self.clock

    def touch_dir(self, rel):
        """the entry set of directory `rel` changed"""
        self.mt[rel] = self.tick()

    def restamp(self):
        for rel, t in self.mt.items():
            fp = self.p(rel)
            if os.path.islink(fp) or not os.path.lexists(fp):
                continue
            os.utime(fp, ns=(t * 10**9, t * 10**9))

    # --- primitive edits (all relative paths are bytes beneath b"d") ---
    def mkfile(self, rel, body):
        with open(self.p(rel), "wb") as f:
            f.write(body)
        self.mt[rel] = self.tick()
        self.touch_dir(os.path.dirname(rel))

    def mkdir(self, rel):
        os.mkdir(self.p(rel))
        self.mt[rel] = self.tick()
        if rel != b"d":
            self.touch_dir(os.path.dirname(rel))

    def mklink(self, rel, target):
        os.symlink(target, self.p(rel))
        self.touch_dir(os.path.dirname(rel))

    def remove(self, rel):
        fp = self.p(rel)
        if os.path.isdir(fp) and not os.path.islink(fp):
            shutil.rmtree(fp)
        else:
            os.unlink(fp)
        for k in [k for k in self.mt if k == rel or k.startswith(rel + b"/")]:
            del self.mt[k]
        self.touch_dir(os.path.dirname(rel))

    def rename(self, rel, new):
        os.rename(self.p(rel), self.p(new))
        for k in [k for k in self.mt if k == rel or k.startswith(rel + b"/")]:
            self.mt[new + k[len(rel):]] = self.mt.pop(k)
        self.touch_dir(os.path.dirname(rel))
        if os.path.dirname(new) != os.path.dirname(rel):
            self.touch_dir(os.path.dirname(new))

    # --- inspection ---
    def walk(self):
        """[(rel, kind)] of everything beneath d (not following links), kind in f/d/l"""
        out = []

        def rec(rel):
            for n in sorted(os.listdir(self.p(rel))):
                r = rel + b"/" + n
                fp = self.p(r)
                if os.path.islink(fp):
                    out.append((r, "l"))
                elif os.path.isdir(fp):
                    out.append((r, "d"))
                    rec(r)
                else:
                    out.append((r, "f"))
        rec(b"d")
        return out

    def stat(self, rel):
        try:
            st = os.stat(self.p(rel))
        except OSError:
            return None
        return (st.st_dev, st.st_ino, st.st_mode, st.st_size, st.st_mtime_ns // 10**9, st.st_mtime_ns % 10**9)

    def hidden(self, name, filtered):
        return filtered and any(fnmatch(p, name) for p in self.patterns)

    def observe(self, vidx):
        """(observation for the oracle, tree tokens for the Lean driver, hidden names) of variant vidx.
        Applies the sticky-mode rule and updates the sticky state of that variant."""
        _, _, hpath, structure, filtered = VARIANTS[vidx]
        sticky = self.sticky[vidx]
        hidden_names = set()

        def info(keypath, rel):
            st = self.stat(rel)
            if st is None:
                sticky.pop(keypath, None)
                return None
            keyf = (st[0], st[1], st[3], st[4], st[5])
            old = sticky.get(keypath)
            mode = old[1] if old is not None and old[0] == keyf else st[2]
            sticky[keypath] = (keyf, mode)
            return (st[0], st[1], mode, st[3], st[4], st[5])

        def rec(keypath, rel, is_root):
            i = info(keypath, rel)
            if i is None:
                return ("leaf", None), ["L", "-"]
            nums = [str(x) for x in i]
            if not stat.S_ISDIR(i[2]):
                o = ("leaf", i[2] if structure else i)
                return o, ["F"] + nums
            kids, toks = [], []
            entries = os.listdir(self.p(rel))          # directory order, as the model's Tree has it
            n_listed = 0
            for n in entries:
                if self.hidden(n, filtered):
                    hidden_names.add(n)
                child_o, child_t = (None, None)
                if not self.hidden(n, filtered):
                    child_o, child_t = rec(keypath + b"/" + n, rel + b"/" + n, False)
                    kids.append((n, child_o))
                else:
                    # the model is given the hidden subtree too (as a plain file: it must not look at it)
                    child_t = ["F", "0", "0", "33188", "0", "0", "0"]
                toks += [C.hexs(n)] + child_t
                n_listed += 1
            kids.sort(key=lambda kv: kv[0])
            own = None if (is_root and filtered) else (i[2] if structure else i)
            return ("dir", own, tuple(kids)), ["D"] + nums + [str(n_listed)] + toks
        o, toks = rec(hpath.encode(), b"d", True)
        return o, toks, sorted(hidden_names)

    def build(self):
        cmd = [self.exe, "buildsystem", "build", "--serial", "-C", self.root, "--db", "build.db", "-f", "build.llbuild"]
        p = subprocess.run(cmd, stdout=subprocess.PIPE, stderr=subprocess.STDOUT)
        return p.returncode, p.stdout.decode("utf-8", "replace")

    def log_sizes(self):
        out = []
        for idx in range(len(VARIANTS)):
            try:
                out.append(os.path.getsize(os.path.join(self.root, "log.%d" % idx)))
            except OSError:
                out.append(0)
        return out

    def db_signatures(self):
        """{variant index: 64-bit signature stored for the root key}"""
        res = {}
        try:
            con = sqlite3.connect("file:%s?mode=ro" % os.path.join(self.root, "build.db"), uri=True)
            con.text_factory = bytes
            rows = con.execute("select key_names.key, rule_results.value from rule_results join key_names on key_names.id = rule_results.key_id").fetchall()
            con.close()
        except sqlite3.Error:
            return res
        for key, val in rows:
            key = bytes(key)
            if key[:1] not in (b"S", b"s") or len(key) < 5 or val is None:
                continue
            n = struct.unpack("<I", key[1:5])[0]
            name = key[5:5 + n]
            for idx, _, hpath, structure, _ in VARIANTS:
                if name == hpath.encode() and (key[:1] == b"s") == structure and len(val) >= 9:
                    res[idx] = struct.unpack("<Q", bytes(val)[1:9])[0]
        return res


# ----------------------------------------------------------------------------------------------
# generation
# ----------------------------------------------------------------------------------------------
def gen_tree(ws, rng, depth, fan, cap):
    count = [0]
    ws.mkdir(b"d")

    def fill(rel, d):
        k = rng.below(fan + 1)
        for n in rng.shuffle(NAMES)[:k]:
            if count[0] >= cap:
                return
            count[0] += 1
            r = rel + b"/" + n
            c = rng.below(10)
            if c < 5 or d >= depth:
                if c == 4:
                    ws.mklink(r, rng.choice([b"../" * d + b"ext/t1", b"../" * d + b"ext/t2", b"nowhere",
                                             b"../" * d + b"ext/dirT"]))
                else:
                    ws.mkfile(r, b"x" * rng.below(4))
            else:
                ws.mkdir(r)
                fill(r, d + 1)
    fill(b"d", 1)


EDITS = ["add_file", "add_dir", "remove", "rename", "retype", "content", "mtime", "chmod", "relink", "move", "none"]


def apply_edit(ws, rng, kind):
    """returns a short description or None if not applicable"""
    nodes = ws.walk()
    dirs = [b"d"] + [r for r, k in nodes if k == "d"]
    files = [r for r, k in nodes if k == "f"]
    links = [r for r, k in nodes if k == "l"]

    def depth_of(rel):
        return rel.count(b"/")

    def fresh(parent):
        have = set(os.listdir(ws.p(parent)))
        cands = [n for n in NAMES if n not in have]
        return parent + b"/" + rng.choice(cands) if cands else None
    if kind == "add_file":
        r = fresh(rng.choice(dirs))
        if r is None:
            return None
        ws.mkfile(r, b"n" * rng.below(3))
    elif kind == "add_dir":
        r = fresh(rng.choice(dirs))
        if r is None:
            return None
        ws.mkdir(r)
        if rng.chance(1, 2):
            ws.mkfile(r + b"/" + rng.choice(NAMES), b"q")
    elif kind == "remove":
        if not nodes:
            return None
        r = rng.choice(nodes)[0]
        ws.remove(r)
    elif kind == "rename":
        if not nodes:
            return None
        r = rng.choice(nodes)[0]
        new = fresh(os.path.dirname(r))
        if new is None:
            return None
        ws.rename(r, new)
    elif kind == "move":
        if not nodes:
            return None
        r, k = rng.choice(nodes)
        targets = [d for d in dirs if d != r and not d.startswith(r + b"/")]
        new = fresh(rng.choice(targets))
        if new is None or new.startswith(r + b"/"):
            return None
        ws.rename(r, new)
    elif kind == "retype":
        if not nodes:
            return None
        r, k = rng.choice(nodes)
        ws.remove(r)
        to = rng.choice([x for x in "fdl" if x != k])
        if to == "f":
            ws.mkfile(r, b"r")
        elif to == "d":
            ws.mkdir(r)
        else:
            ws.mklink(r, rng.choice([b"../" * depth_of(r) + b"ext/t1", b"nowhere"]))
        r = r + b" " + k.encode() + b"->" + to.encode()
    elif kind == "content":
        if not files:
            return None
        r = rng.choice(files)
        with open(ws.p(r), "ab") as f:
            f.write(b"+")
        ws.mt[r] = ws.tick()
    elif kind == "mtime":
        cands = files + dirs
        r = rng.choice(cands)
        ws.mt[r] = ws.tick()
    elif kind == "chmod":
        cands = files + [d for d in dirs if d != b"d"] + [b"d"]
        r = rng.choice(cands)
        m = stat.S_IMODE(os.stat(ws.p(r)).st_mode)
        os.chmod(ws.p(r), m ^ 0o010)
    elif kind == "relink":
        if not links:
            return None
        r = rng.choice(links)
        old = os.readlink(ws.p(r))
        up = b"../" * depth_of(r)
        new = rng.choice([t for t in (up + b"ext/t1", up + b"ext/t2", b"nowhere") if t != old])
        os.unlink(ws.p(r))
        os.symlink(new, ws.p(r))
        ws.touch_dir(os.path.dirname(r))
    elif kind == "none":
        r = b""
    return kind + ":" + r.decode("latin-1")


def run_history(args):
    (hid, seed, exe, scratch, depth, fan, cap, nbuilds) = args
    rng = C.Rng(seed, "C12/h%d" % hid)
    patterns = PATTERN_SETS[hid % len(PATTERN_SETS)]
    ws = WS(os.path.join(scratch, "h%d" % hid), patterns, exe)
    gen_tree(ws, rng, depth, fan, cap)
    out = {"hid": hid, "builds": [], "failures": [], "lines": [], "edits": {}, "reruns": [0] * 4, "expected_reruns": [0] * 4,
           "mode_only": 0, "nodes": len(ws.walk())}
    history = []
    for b in range(nbuilds):
        edits = []
        if b > 0:
            r = rng.below(10)
            k = 0 if r == 0 else (1 if r < 7 else 2 + rng.below(3))      # null rebuild / single / compound
            for _ in range(k):
                for _try in range(4):
                    e = apply_edit(ws, rng, rng.choice(EDITS[:-1]))
                    if e:
                        edits.append(e)
                        out["edits"][e.split(":")[0]] = out["edits"].get(e.split(":")[0], 0) + 1
                        break
        ws.restamp()
        history.append(edits)
        before = ws.log_sizes()
        rc, txt = ws.build()
        after = ws.log_sizes()
        ran = [after[i] > before[i] for i in range(4)]
        sigs = ws.db_signatures()
        mode_only = bool(edits) and all(e.startswith("chmod:") for e in edits)
        out["mode_only"] += 1 if mode_only else 0
        for idx, node, hpath, structure, filtered in VARIANTS:
            o, toks, hidden = ws.observe(idx)
            changed = ws.prev_obs[idx] is None or o != ws.prev_obs[idx]
            ws.prev_obs[idx] = o
            out["reruns"][idx] += 1 if ran[idx] else 0
            out["expected_reruns"][idx] += 1 if changed else 0
            if rc != 0 or ran[idx] != changed:
                out["failures"].append({
                    "what": ("build failed (exit %d): %s" % (rc, txt[-200:])) if rc != 0 else
                            ("command with input %s (%s%s) %s although the observed tree %s" % (
                                node, "structure" if structure else "tree", ", filtered" if filtered else "",
                                "re-executed" if ran[idx] else "did NOT re-execute", "changed" if changed else "did not change")),
                    "variant": "structure" if structure else "tree", "filtered": filtered,
                    "kind": "build-failed" if rc != 0 else ("missed-rerun" if changed else "spurious-rerun"),
                    "edit_kinds": sorted({e.split(":")[0] for e in edits}),
                    "input": {"history": hid, "build": b, "patterns": [p.decode("latin-1") for p in patterns],
                              "edits_so_far": history, "seed": seed}})
            if idx in sigs:
                out["lines"].append((idx, b, "%s %d %s %s" % (C.hexs(hpath.encode()), 1 if filtered else 0,
                                                              ",".join(C.hexs(h) for h in hidden) if hidden else ".",
                                                              " ".join(toks)), "%016x" % sigs[idx]))
            elif rc == 0:
                out["failures"].append({"what": "no signature row for %s in the database" % node, "kind": "no-db-row",
                                        "variant": "structure" if structure else "tree", "filtered": filtered,
                                        "edit_kinds": [], "input": {"history": hid, "build": b}})
        out["builds"].append((edits, ran))
    if not out["failures"]:
        shutil.rmtree(ws.root, ignore_errors=True)
    return out


class Check(PropertyCheck):
    prop = "C12"
    module = "LLBuild.Props.C12All"
    theorems = ["LLBuild.DirTree." + t for t in [
        "C12_tree_recipe_is_modelled", "C12_struct_recipe_is_modelled", "C12_nil_marker_extracted",
        "C12_tree_sig_injective", "C12_struct_sig", "C12_content_edit_keeps_struct_sig",
        "C12_add_remove_retype_changes_struct_sig", "C12_change_at_any_depth", "C12_filter_exact", "C12_F32_before_repair",
        # Props/C12Engine.lean: the directory tasks as an engine Program; rerun-iff over accepted engine traces
        "C12_client_WF", "C12_client_LocalIds", "C12_client_Det", "C12_build_returns_unique",
        "C12_clean_signature_iff", "C12_clean_contents_iff",
        "C12_built_value", "C12_build_returns_current",
        "C12_tree_changed_not_up_to_date", "C12_struct_changed_not_up_to_date",
        "C12_tree_unchanged_is_current", "C12_struct_unchanged_is_current",
        "C12_up_to_date_is_current", "C12_delivered_is_current",
        "C12_tree_changed_never_up_to_date", "C12_struct_changed_never_up_to_date",
        "C12_tree_unchanged_stays_current", "C12_struct_unchanged_stays_current"]]
    extractors = ["x_dirtree", "x_codec"]
    harnesses = []
    level = "proof"
    assumptions = [
        "theorems are about pre-hash terms: llvm::hash_combine / hash_combine_range (64-bit) are NOT injective; equal terms <=> equal observations, distinct terms collide with probability ~2^-64",
        "libc fnmatch is the abstract parameter Cfg.fnmatch (the definition of 'matches'); the end-to-end check calls the same libc fnmatch through ctypes",
        "names returned by readdir are NUL-free and a listing packs into < 2^64 bytes (hypothesis `Listed`, the StringList precondition of C15)",
        "rerun-iff on the engine (Props/C12Engine.lean) is proved for the directory tasks written as an Engine.Program (Lemmas/DirTreeEngine.lean: hand-written from BuildSystem.cpp, the request structure is the one x_dirtree compares textually); the directory listing is an input key there (the real (Filtered)DirectoryContentsTask reads the directory inside inputsAvailable and relies on its validity check resp. the directory's stat record to notice changes); input-key validity is full equality of the stat record (FileInfo== ignores mode, see below); the tie of that Program to the real tool is the end-to-end rerun oracle, not a trace replay",
        "FileInfo::operator== ignores `mode` (C13_eq_iff): a permission-only change is not observable until another field of the same node changes; the oracle models this ('sticky mode')",
        "a directory whose entry set changes gets a new mtime (the harness stamps it from a logical clock, as a kernel with a fine-grained clock does); symbolic links to an ancestor directory are not generated",
    ]
    trusted_base = ["extractor x_dirtree (recipes of the two inputsAvailable bodies, request structure, filter polarity, sort order)",
                    "extractor x_codec (BuildValue / FileInfo wire format, C15)",
                    "python oracle (independent restatement of observe/observeStruct over the real file system)",
                    "end-to-end harness: real llbuild buildsystem build, side-effect logs, build.db signature rows"]

    def model_cmd(self):
        priv = os.path.join(C.LEAN, "DriverC12.lean")
        rc, out, err = C.run_lines([C.model_exe(), "c12sig"], []) if os.path.exists(C.model_exe()) else (2, [], "")
        if rc == 0:
            return [C.model_exe(), "c12sig"], None
        if os.path.exists(priv):
            return ["lake", "env", "lean", "--run", "DriverC12.lean", "c12sig"], C.LEAN
        return None, None

    def correspond(self, ctx, res):
        exe = os.path.join(C.BUILD, "plain", "bin", "llbuild")
        scratch = os.path.join(C.BUILD, "scratch", "c12-%d" % ctx.seed)
        shutil.rmtree(scratch, ignore_errors=True)
        os.makedirs(scratch, exist_ok=True)
        if ctx.thorough:
            nh, depth, fan, cap, nb = 1400, 6, 6, 60, 10
        else:
            nh, depth, fan, cap, nb = 300, 4, 4, 24, 8
        jobs = [(h, ctx.seed, exe, scratch, depth if h % 3 else 2, fan, cap, nb) for h in range(nh)]
        with ThreadPoolExecutor(max_workers=16) as ex:
            outs = list(ex.map(run_history, jobs))
        edits, lines = {}, []
        reruns, expected = [0] * 4, [0] * 4
        builds = mode_only = nodes = 0
        for o in outs:
            for f in o["failures"]:
                res.oracle_failures.append(f)
            for k, v in o["edits"].items():
                edits[k] = edits.get(k, 0) + v
            for i in range(4):
                reruns[i] += o["reruns"][i]
                expected[i] += o["expected_reruns"][i]
            builds += len(o["builds"])
            mode_only += o["mode_only"]
            nodes += o["nodes"]
            lines += [(o["hid"],) + l for l in o["lines"]]
        res.evaluations += builds * 4
        res.distinct_nontrivial += sum(expected)
        res.distribution.update({"histories": nh, "builds": builds, "edits": edits, "initial_tree_nodes_total": nodes,
                                 "reruns_by_variant[tree,tree+filter,struct,struct+filter]": reruns,
                                 "expected_reruns_by_variant": expected, "mode_only_edit_builds": mode_only,
                                 "pattern_sets": [[p.decode("latin-1") for p in ps] for ps in PATTERN_SETS]})
        # bit-exact signature correspondence (model vs database rows)
        cmd, cwd = self.model_cmd()
        sample = lines if ctx.thorough else lines[:12000]
        if cmd is None:
            res.mismatches.append({"stream": "c12sig", "input": "model driver has no c12sig mode (Drv/C12 not integrated into Driver.lean)"})
        elif ctx.model_ok:
            data = ("\n".join(l[3] for l in sample) + "\n").encode()
            p = subprocess.run(cmd, input=data, stdout=subprocess.PIPE, stderr=subprocess.PIPE, cwd=cwd)
            mout = p.stdout.decode().split("\n")[:-1]
            if p.returncode != 0 or len(mout) != len(sample):
                res.mismatches.append({"stream": "c12sig", "input": "model driver exit %d, %d/%d lines" % (p.returncode, len(mout), len(sample)),
                                       "model": p.stderr.decode()[-300:]})
            else:
                bad = 0
                for (hid, idx, b, line, impl), m in zip(sample, mout):
                    want = dict(kv.split("=") for kv in m.split(" ") if "=" in kv).get("struct" if VARIANTS[idx][3] else "tree")
                    if want != impl:
                        bad += 1
                        if bad <= 10:
                            res.mismatches.append({"stream": "c12sig", "input": "history %d build %d variant %s: %s" % (hid, b, VARIANTS[idx][1], line[:400]),
                                                   "model": m, "impl": impl})
                res.distribution["signature_values_compared"] = len(sample)
                res.distribution["signature_values_differing"] = bad
                res.evaluations += len(sample)
        res.rule = ("%d seeded histories (random tree, depth<=%d, fan-out<=%d) x %d builds each through the real `llbuild buildsystem build` "
                    "(new process per build, database reused), four directory inputs per build (tree/structure x unfiltered/filtered); "
                    "between builds: null rebuild (10%%), one edit (60%%) or 2-4 edits (30%%) drawn from add file/dir, remove, rename, move, retype, "
                    "content, mtime bump, chmod, symlink retarget at any depth.  Oracle per (build, variant): rerun iff observation changed.  "
                    "Non-trivial = builds x variants in which a rerun was expected.  Every stored root signature is compared bit-for-bit with the Lean model."
                    % (nh, depth, fan, nb))
        res.samples.append({"history0": [[e, r] for e, r in outs[0]["builds"]][:4]})
        if not res.oracle_failures and not res.mismatches:
            shutil.rmtree(scratch, ignore_errors=True)

    def search(self, ctx, res, why):
        return


CHECK = Check()
