"""C12 — directory-tree signatures change exactly when the tree changes.

End-to-end tie: histories of builds through the REAL `llbuild buildsystem build` (one new process per build, database
reused) on a build description with four shell commands that take the same directory as
  d/  (tree) · ./d/ (tree, filtered) · ././d/ (structure) · ./././d/ (structure, filtered)
and append to a side-effect log when they run.  Between builds the tree is edited (add / remove / rename / retype /
content / mtime / chmod / symlink retarget, single and compound, any depth).  All mtimes are stamped from a logical
clock.  In the first stream ("h" histories) a directory whose entry set changed gets a fresh stamp, as a kernel with a
fine clock would.  The second stream ("s" histories, own RNG stream) drops that discipline: entry-set edits (add file /
add dir / remove / rename / move, any depth) are also made in a RESTORE flavour that puts the directory's mtime back to
its previous logical stamp (`cp -a`, `rsync -a`, `tar -x`, `touch -r`, coarse timestamps), same-size content rewrites
with and without a new mtime, and the workspaces use all three `client: file-system:` modes (default, device-agnostic,
checksum-only).  "Stat record unchanged" is never assumed: it is what the python observer sees (the record in the
view of the workspace's file-system mode is compared with the one at the previous build).

Property oracle (python, independent of the Lean model): a command re-executes iff its observation of the tree
(`observe` / `observeStruct`: per node name + stat record resp. mode, per directory the filtered sorted listing,
every depth; libc fnmatch through ctypes) changed since the previous build; the first build runs all four; a null
rebuild runs nothing.  The stat record is taken in the view of the file-system mode (device-agnostic: device/inode
zeroed; checksum-only: device/inode/mtime zeroed, MD5 of the content resp. the constant directory checksum added).

Known defect F57 (stale filtered listing): `FilteredDirectoryContents` has no validity check of its own and is only
re-listed when `Node(dir)` / `Stat(dir)` change.  The oracle stays the property text; a second, "tool view" walk
emulates exactly that defect (a filtered listing is refreshed iff the directory's record differs from the one at the
tool's last visit) ONLY to classify a failure: kind `stale-filtered-listing` iff the variant is filtered, the tool's
behaviour contradicts the property oracle and equals the tool-view prediction; everything else keeps the kinds
`missed-rerun` / `spurious-rerun`.

Correspondence: the 64-bit signature values the real tool stored in its database are compared bit-for-bit with
`HashTerm.eval` of the Lean model's `treeSig` / `structSig` (driver mode c12sig) on the same tree.

Observability of `mode`: `FileInfo::operator==` does not compare `mode` (C13_eq_iff), so a node's value is only
recomputed when device/inode/size/mtime change; the recorded `mode` is the one seen at that time ("sticky").  The
oracle models this exactly and counts permission-only edits separately (`distribution.mode_only_edits`).
"""
import ctypes, ctypes.util, glob, hashlib, json, os, shutil, sqlite3, stat, struct, subprocess, threading
from concurrent.futures import ProcessPoolExecutor
from .. import common as C
from ..runner import PropertyCheck

_libc = ctypes.CDLL(ctypes.util.find_library("c"), use_errno=True)
_libc.fnmatch.argtypes = [ctypes.c_char_p, ctypes.c_char_p, ctypes.c_int]
_libc.fnmatch.restype = ctypes.c_int


_libc.setlocale.argtypes = [ctypes.c_int, ctypes.c_char_p]
_libc.setlocale.restype = ctypes.c_char_p
_LC_CTYPE = 0


def fnmatch(p, n):
    """libc fnmatch in the "C" locale, which is what the llbuild process runs in (it never calls setlocale);
    CPython switches LC_CTYPE to the user's locale at start-up, where `?` would match a multi-byte character."""
    if _libc.setlocale(_LC_CTYPE, None) != b"C":
        _libc.setlocale(_LC_CTYPE, b"C")
    return _libc.fnmatch(p, n, 0) == 0


VARIANTS = [  # (index, node name, root path as hashed, structure?, filtered?)
    (0, "d/", "d", False, False),
    (1, "./d/", "./d", False, True),
    (2, "././d/", "././d", True, False),
    (3, "./././d/", "./././d", True, True),
]
# does the Lean model's stat record carry the checksum (needed for bit-exact signatures in checksum-only workspaces)?
MODEL_HAS_CHECKSUM = True


def variants_for(root, clean):
    """the four directory nodes of a workspace.  clean=None: the relative spellings above.  clean=k: ABSOLUTE node names
    (the real, symlink-free path of the workspace), variant k spelled cleanly (`<root>/d/`), the others told apart by
    `/.` components (`<root>/./d/` ...): the listers compare `real_path` of a symbolic link with the directory path as
    spelled, which can only ever match for a clean absolute spelling."""
    if clean is None:
        return VARIANTS
    out = []
    for idx, _, _, structure, filtered in VARIANTS:
        hp = root + "/." * ((idx - clean) % 4) + "/d"
        out.append((idx, hp + "/", hp, structure, filtered))
    return out


PATTERN_SETS = [[b"*.tmp"], [b"*.o", b"k*"], [b"?"], [b"[ab]*", b"*.tmp"], [b"sub"], [b"*"], [b"nomatch"],
                # patterns that are globs WITHOUT `*` or `?`: bracket expressions and backslash escapes (seeded change C12-8)
                [b"[ab]", b"su[b]"], [b"[!a-j]", b"\\k.tmp", b"x.[o]"]]
NAMES = [b"a", b"b", b"c", b"k.tmp", b"x.o", b"sub", b"z z", b".hid", b"\xc3\xbc", b"ab", b"B", b"k", b"t.tmp.x", b"sub2"]


def yaml_str(b):
    return '"' + b.decode("latin-1").replace("\\", "\\\\").replace('"', '\\"') + '"'


FS_MODES = ["default", "device-agnostic", "checksum-only"]     # the values BuildSystemFileDelegate::configureClient accepts


def build_file(patterns, fs_mode="default", variants=None):
    variants = variants or VARIANTS
    pats = "[" + ", ".join(yaml_str(p) for p in patterns) + "]"
    out = ["client:", "  name: basic"] + (["  file-system: " + fs_mode] if fs_mode != "default" else [])
    out += ["", "targets:", '  "": ["<all>"]', "", "nodes:"]
    for idx, node, _, structure, filtered in variants:
        out.append('  "%s":' % node)
        out.append("    is-directory-structure: true" if structure else "    is-directory: true")
        if filtered:
            out.append("    content-exclusion-patterns: " + pats)
    out += ["", "commands:", "  C.all:", "    tool: phony", '    inputs: ["<o0>", "<o1>", "<o2>", "<o3>"]', '    outputs: ["<all>"]']
    for idx, node, _, _, _ in variants:
        out += ["  C%d:" % idx, "    tool: shell", '    inputs: ["%s"]' % node, '    outputs: ["<o%d>"]' % idx,
                "    args: echo r >> log.%d" % idx]
    return "\n".join(out) + "\n"


# ----------------------------------------------------------------------------------------------
# a workspace: real files + logical clock
# ----------------------------------------------------------------------------------------------
class WS:
    def __init__(self, root, patterns, exe, fs_mode="default", clean=None):
        root = os.path.realpath(root)
        self.root, self.patterns, self.exe, self.fs_mode, self.clean = root, patterns, exe, fs_mode, clean
        self.variants = variants_for(root, clean)
        self.clock = 1000
        self.mt = {}            # relative path (bytes) -> logical mtime (seconds)
        self.keep = False       # RESTORE flavour: an entry-set edit leaves the directory's logical stamp as it was
        self.ops = []           # primitive operations since the last take_ops() (exact replay / corpus format)
        shutil.rmtree(root, ignore_errors=True)
        os.makedirs(os.path.join(root, "ext", "dirT"))
        for n, body in (("t1", b"1"), ("t2", b"22")):
            with open(os.path.join(root, "ext", n), "wb") as f:
                f.write(body)
        with open(os.path.join(root, "ext", "dirT", "inner"), "wb") as f:
            f.write(b"i")
        for p in ("ext/t1", "ext/t2", "ext/dirT/inner", "ext/dirT"):
            os.utime(os.path.join(root, p), ns=(500 * 10**9, 500 * 10**9))
        with open(os.path.join(root, "build.llbuild"), "w", encoding="latin-1") as f:
            f.write(build_file(patterns, fs_mode, self.variants))
        self.sticky = [dict() for _ in VARIANTS]
        self.prev_obs = [None] * len(VARIANTS)
        self.prev_dirs = [None] * len(VARIANTS)
        # tool view (defect model F57, filtered variants only)
        self.tool_sticky = [dict() for _ in VARIANTS]
        self.tool_state = [dict() for _ in VARIANTS]      # key path -> (record at the tool's last visit, listing it holds)
        self.prev_tool_obs = [None] * len(VARIANTS)

    def p(self, rel):
        return os.path.join(self.root.encode(), rel)

    def tick(self):
        self.clock += 1
        return self.clock

    def op(self, *a):
        self.ops.append([x.decode("latin-1") if isinstance(x, bytes) else x for x in a])

    def take_ops(self):
        o, self.ops = self.ops, []
        return o

    def touch_dir(self, rel):
        """the entry set of directory `rel` changed"""
        if self.keep:
            return              # ... and its mtime is put back to the previous logical stamp (restamp() does it)
        self.mt[rel] = self.tick()

    def restamp(self):
        for rel, t in self.mt.items():
            fp = self.p(rel)
            if os.path.islink(fp) or not os.path.lexists(fp):
                continue
            os.utime(fp, ns=(t * 10**9, t * 10**9))

    # --- primitive edits (all relative paths are bytes beneath b"d") ---
    def mkfile(self, rel, body):
        self.op("mkfile", rel, body, self.keep)
        with open(self.p(rel), "wb") as f:
            f.write(body)
        self.mt[rel] = self.tick()
        self.touch_dir(os.path.dirname(rel))

    def mkdir(self, rel):
        self.op("mkdir", rel, self.keep)
        os.mkdir(self.p(rel))
        self.mt[rel] = self.tick()
        if rel != b"d":
            self.touch_dir(os.path.dirname(rel))

    def mklink(self, rel, target):
        self.op("mklink", rel, target, self.keep)
        os.symlink(target, self.p(rel))
        self.touch_dir(os.path.dirname(rel))

    def remove(self, rel):
        self.op("remove", rel, self.keep)
        fp = self.p(rel)
        if os.path.isdir(fp) and not os.path.islink(fp):
            shutil.rmtree(fp)
        else:
            os.unlink(fp)
        for k in [k for k in self.mt if k == rel or k.startswith(rel + b"/")]:
            del self.mt[k]
        self.touch_dir(os.path.dirname(rel))

    def rename(self, rel, new):
        self.op("rename", rel, new, self.keep)
        os.rename(self.p(rel), self.p(new))
        for k in [k for k in self.mt if k == rel or k.startswith(rel + b"/")]:
            self.mt[new + k[len(rel):]] = self.mt.pop(k)
        self.touch_dir(os.path.dirname(rel))
        if os.path.dirname(new) != os.path.dirname(rel):
            self.touch_dir(os.path.dirname(new))

    def append(self, rel):
        self.op("append", rel)
        with open(self.p(rel), "ab") as f:
            f.write(b"+")
        self.mt[rel] = self.tick()

    def rewrite(self, rel, body, keep_mtime):
        """replace the content by `body` (the callers keep the size); with keep_mtime the logical stamp stays"""
        self.op("rewrite", rel, body, keep_mtime)
        with open(self.p(rel), "r+b") as f:
            f.truncate(0)
            f.write(body)
        if not keep_mtime:
            self.mt[rel] = self.tick()

    def stamp(self, rel):
        self.op("stamp", rel)
        self.mt[rel] = self.tick()

    def chmod(self, rel, mode):
        self.op("chmod", rel, mode)
        os.chmod(self.p(rel), mode)

    def relink(self, rel, target):
        self.op("relink", rel, target, self.keep)
        os.unlink(self.p(rel))
        os.symlink(target, self.p(rel))
        self.touch_dir(os.path.dirname(rel))

    def apply_op(self, o):
        """one primitive operation in the replay / corpus format (see take_ops)"""
        name, args = o[0], [x.encode("latin-1") if isinstance(x, str) else x for x in o[1:]]
        keeps = {"mkfile": 2, "mkdir": 1, "mklink": 2, "remove": 1, "rename": 2, "relink": 2}
        if name in keeps:
            self.keep = bool(args[keeps[name]])
            args = args[:keeps[name]]
        try:
            getattr(self, name)(*args)
        finally:
            self.keep = False

    # --- inspection ---
    def walk(self):
        """[(rel, kind)] of everything beneath d (not following links), kind in f/d/l"""
        out = []

        def rec(rel):
            for n in sorted(os.listdir(self.p(rel))):
                r = rel + b"/" + n
                fp = self.p(r)
                if os.path.islink(fp):
                    out.append((r, "l"))
                elif os.path.isdir(fp):
                    out.append((r, "d"))
                    rec(r)
                else:
                    out.append((r, "f"))
        rec(b"d")
        return out

    def stat(self, rel):
        """the stat record as `getFileSystem().getFileInfo(path)` of the workspace's file-system mode reports it
        (lib/Basic/FileSystem.cpp, include/llbuild/Basic/FileSystem.h, FileInfo.cpp), read independently of the tool:
        (device, inode, mode, size, mtime s, mtime ns, checksum bytes)"""
        try:
            st = os.stat(self.p(rel))
        except OSError:
            return None
        dev, ino, sec, ns, ck = st.st_dev, st.st_ino, st.st_mtime_ns // 10**9, st.st_mtime_ns % 10**9, b""
        if self.fs_mode != "default":
            dev = ino = 0
        if self.fs_mode == "checksum-only":
            sec = ns = 0
            if stat.S_ISDIR(st.st_mode):
                ck = b"\x01" + b"\0" * 31
            else:
                try:
                    with open(self.p(rel), "rb") as f:
                        ck = hashlib.md5(f.read()).digest() + b"\0" * 16
                except OSError:
                    ck = b"\0" * 32
        return (dev, ino, st.st_mode, st.st_size, sec, ns, ck)

    def guard_prefix_link(self, dirpath, rel):
        """is `rel` a symbolic link whose real path is a string prefix of the spelled directory path `dirpath` without
        being that directory or one of its ancestors?"""
        fp = self.p(rel)
        if not os.path.islink(fp) or not os.path.exists(fp):
            return False
        r = os.path.realpath(fp)
        return dirpath.startswith(r) and len(dirpath) > len(r) and dirpath[len(r):len(r) + 1] != b"/" and not r.endswith(b"/")

    def hidden(self, name, filtered):
        return filtered and any(fnmatch(p, name) for p in self.patterns)

    def observe(self, vidx, tool=False):
        """(observation, tree tokens for the Lean driver, hidden names, {key path: (record, visible sorted listing)})
        of variant vidx.  Applies the sticky-mode rule and updates the sticky state of that variant.
        tool=False: the property's observation of the file system as it is.
        tool=True: what the tool can see under defect F57 — the listing of a directory is the one taken at the
        tool's last visit unless the directory's record (any field) differs from the one at that visit, or the tool has
        since seen the path missing / as a non-directory; a listed name that no longer exists is a missing child."""
        _, _, hpath, structure, filtered = self.variants[vidx]
        sticky = (self.tool_sticky if tool else self.sticky)[vidx]
        state = self.tool_state[vidx]
        hidden_names = set()
        dirs = {}
        guard_links = []

        def info(keypath, rel):
            st = self.stat(rel)
            if st is None:
                sticky.pop(keypath, None)
                return None, None
            keyf = (st[0], st[1], st[3], st[4], st[5], st[6])
            old = sticky.get(keypath)
            mode = old[1] if old is not None and old[0] == keyf else st[2]
            sticky[keypath] = (keyf, mode)
            return (st[0], st[1], mode, st[3], st[4], st[5]) + ((st[6],) if st[6] else ()), st

        def nums_of(i):
            return [str(x) for x in i[:6]] + (["c" + i[6].hex()] if len(i) > 6 else [])

        def rec(keypath, rel, is_root):
            i, raw = info(keypath, rel)
            if i is None:
                if tool:
                    state.pop(keypath, None)
                return ("leaf", None), ["L", "-"]
            nums = nums_of(i)
            if not stat.S_ISDIR(i[2]):
                if tool:
                    state.pop(keypath, None)
                o = ("leaf", i[2] if structure else i)
                return o, ["F"] + nums
            kids, toks = [], []
            entries = os.listdir(self.p(rel))          # directory order, as the model's Tree has it
            if not filtered and keypath.startswith(b"/"):
                # defect model F58 (unfiltered lister, absolute spelling): the loop guard `path.startswith(real_path(link))`
                # is a STRING prefix test, so it also drops a link that resolves to a non-ancestor whose path is a
                # string prefix of the directory path (<root>/d/sub2/x -> ../sub)
                g = [n for n in entries if self.guard_prefix_link(keypath, rel + b"/" + n)]
                if g:
                    guard_links.extend(keypath + b"/" + n for n in g)
                    if tool:
                        entries = [n for n in entries if n not in g]
            visible = tuple(sorted(n for n in entries if not self.hidden(n, filtered)))
            dirs[keypath] = (raw, visible)
            if tool and filtered:
                old = state.get(keypath)
                if old is not None and old[0] == raw:
                    entries = list(old[1])             # not re-listed: Node(dir) and Stat(dir) are unchanged
                else:
                    state[keypath] = (raw, visible)
            n_listed = 0
            for n in entries:
                if self.hidden(n, filtered):
                    hidden_names.add(n)
                child_o, child_t = (None, None)
                if not self.hidden(n, filtered):
                    child_o, child_t = rec(keypath + b"/" + n, rel + b"/" + n, False)
                    kids.append((n, child_o))
                else:
                    # the model is given the hidden subtree too (as a plain file: it must not look at it)
                    child_t = ["F", "0", "0", "33188", "0", "0", "0"]
                toks += [C.hexs(n)] + child_t
                n_listed += 1
            kids.sort(key=lambda kv: kv[0])
            own = None if (is_root and filtered) else (i[2] if structure else i)
            return ("dir", own, tuple(kids)), ["D"] + nums + [str(n_listed)] + toks
        o, toks = rec(hpath.encode(), b"d", True)
        self.last_guard_links = [g.decode("latin-1") for g in guard_links]
        return o, toks, sorted(hidden_names), dirs

    def build(self):
        if getattr(self, "session", None) is not None:
            # a LONG-LIVED client: one BuildSystem object (harness vc10, op `session`) does every build of this history
            self.session.stdin.write(("session %s 1\n" % os.path.abspath(self.root)).encode())
            self.session.stdin.flush()
            line = self.session.stdout.readline().decode().strip()
            return (0 if line.startswith("ok=1 ") else 1), line
        cmd = [self.exe, "buildsystem", "build", "--serial", "-C", self.root, "--db", "build.db", "-f", "build.llbuild"]
        p = subprocess.run(cmd, stdout=subprocess.PIPE, stderr=subprocess.STDOUT)
        return p.returncode, p.stdout.decode("utf-8", "replace")

    def log_sizes(self):
        out = []
        for idx in range(len(VARIANTS)):
            try:
                out.append(os.path.getsize(os.path.join(self.root, "log.%d" % idx)))
            except OSError:
                out.append(0)
        return out

    def db_signatures(self):
        """{variant index: 64-bit signature stored for the root key}"""
        res = {}
        try:
            con = sqlite3.connect("file:%s?mode=ro" % os.path.join(self.root, "build.db"), uri=True)
            con.text_factory = bytes
            rows = con.execute("select key_names.key, rule_results.value from rule_results join key_names on key_names.id = rule_results.key_id").fetchall()
            con.close()
        except sqlite3.Error:
            return res
        for key, val in rows:
            key = bytes(key)
            if key[:1] not in (b"S", b"s") or len(key) < 5 or val is None:
                continue
            n = struct.unpack("<I", key[1:5])[0]
            name = key[5:5 + n]
            for idx, _, hpath, structure, _ in self.variants:
                if name == hpath.encode() and (key[:1] == b"s") == structure and len(val) >= 9:
                    res[idx] = struct.unpack("<Q", bytes(val)[1:9])[0]
        return res


# ----------------------------------------------------------------------------------------------
# generation
# ----------------------------------------------------------------------------------------------
def gen_tree(ws, rng, depth, fan, cap):
    count = [0]
    ws.mkdir(b"d")

    def fill(rel, d):
        k = rng.below(fan + 1)
        for n in rng.shuffle(NAMES)[:k]:
            if count[0] >= cap:
                return
            count[0] += 1
            r = rel + b"/" + n
            c = rng.below(10)
            if c < 5 or d >= depth:
                if c == 4:
                    ws.mklink(r, rng.choice([b"../" * d + b"ext/t1", b"../" * d + b"ext/t2", b"nowhere",
                                             b"../" * d + b"ext/dirT"]))
                else:
                    ws.mkfile(r, b"x" * rng.below(4))
            else:
                ws.mkdir(r)
                fill(r, d + 1)
    fill(b"d", 1)


EDITS = ["add_file", "add_dir", "remove", "rename", "retype", "content", "mtime", "chmod", "relink", "move", "none"]


def apply_edit(ws, rng, kind):
    """returns a short description or None if not applicable"""
    nodes = ws.walk()
    dirs = [b"d"] + [r for r, k in nodes if k == "d"]
    files = [r for r, k in nodes if k == "f"]
    links = [r for r, k in nodes if k == "l"]

    def depth_of(rel):
        return rel.count(b"/")

    def fresh(parent):
        have = set(os.listdir(ws.p(parent)))
        cands = [n for n in NAMES if n not in have]
        return parent + b"/" + rng.choice(cands) if cands else None
    if kind == "add_file":
        r = fresh(rng.choice(dirs))
        if r is None:
            return None
        ws.mkfile(r, b"n" * rng.below(3))
    elif kind == "add_dir":
        r = fresh(rng.choice(dirs))
        if r is None:
            return None
        ws.mkdir(r)
        if rng.chance(1, 2):
            ws.mkfile(r + b"/" + rng.choice(NAMES), b"q")
    elif kind == "remove":
        if not nodes:
            return None
        r = rng.choice(nodes)[0]
        ws.remove(r)
    elif kind == "rename":
        if not nodes:
            return None
        r = rng.choice(nodes)[0]
        new = fresh(os.path.dirname(r))
        if new is None:
            return None
        ws.rename(r, new)
    elif kind == "move":
        if not nodes:
            return None
        r, k = rng.choice(nodes)
        targets = [d for d in dirs if d != r and not d.startswith(r + b"/")]
        new = fresh(rng.choice(targets))
        if new is None or new.startswith(r + b"/"):
            return None
        ws.rename(r, new)
    elif kind == "retype":
        if not nodes:
            return None
        r, k = rng.choice(nodes)
        ws.remove(r)
        to = rng.choice([x for x in "fdl" if x != k])
        if to == "f":
            ws.mkfile(r, b"r")
        elif to == "d":
            ws.mkdir(r)
        else:
            ws.mklink(r, rng.choice([b"../" * depth_of(r) + b"ext/t1", b"nowhere"]))
        r = r + b" " + k.encode() + b"->" + to.encode()
    elif kind == "content":
        if not files:
            return None
        r = rng.choice(files)
        ws.append(r)
    elif kind == "rewrite":               # second stream only: new content of the SAME size, with or without a new mtime
        cands = [f for f in files if os.path.getsize(ws.p(f)) > 0]
        if not cands:
            return None
        r = rng.choice(cands)
        with open(ws.p(r), "rb") as f:
            old = f.read()
        body = bytes([(old[0] + 1 + rng.below(200)) % 256]) + old[1:]
        keep_mtime = rng.chance(1, 2)
        ws.rewrite(r, body, keep_mtime)
        if keep_mtime:
            r += b" [mtime kept]"
    elif kind == "mtime":
        cands = files + dirs
        r = rng.choice(cands)
        ws.stamp(r)
    elif kind == "chmod":
        cands = files + [d for d in dirs if d != b"d"] + [b"d"]
        r = rng.choice(cands)
        m = stat.S_IMODE(os.stat(ws.p(r)).st_mode)
        ws.chmod(r, m ^ 0o010)
    elif kind == "relink":
        if not links:
            return None
        r = rng.choice(links)
        old = os.readlink(ws.p(r))
        up = b"../" * depth_of(r)
        new = rng.choice([t for t in (up + b"ext/t1", up + b"ext/t2", b"nowhere") if t != old])
        ws.relink(r, new)
    elif kind == "none":
        r = b""
    return kind + ":" + r.decode("latin-1")


ENTRY_EDITS = ["add_file", "add_file", "add_dir", "remove", "rename", "move"]      # change a directory's entry set


def apply_edit_s(ws, rng):
    """second stream: half of the edits change an entry set and RESTORE the directory's stamp"""
    r = rng.below(10)
    if r < 5:
        ws.keep = True
        try:
            e = apply_edit(ws, rng, rng.choice(ENTRY_EDITS))
        finally:
            ws.keep = False
        return e + " [restore]" if e else None
    if r < 6:
        return apply_edit(ws, rng, "rewrite")
    return apply_edit(ws, rng, rng.choice(EDITS[:-1]))


def new_out(hid, ws):
    return {"hid": hid, "builds": [], "failures": [], "lines": [], "edits": {}, "reruns": [0] * 4, "expected_reruns": [0] * 4,
            "mode_only": 0, "nodes": len(ws.walk()), "fs_mode": ws.fs_mode, "clean": ws.clean, "restore_edits": 0,
            "preserved": [0] * 4, "stale_decisions": 0, "script": {"init": ws.take_ops(), "builds": []}}


def do_build(ws, out, edits, history, ident):
    """stamp, run the real tool once, and judge the four commands against the property oracle"""
    b = len(out["builds"])
    out["script"]["builds"].append(ws.take_ops())
    ws.restamp()
    before = ws.log_sizes()
    rc, txt = ws.build()
    after = ws.log_sizes()
    ran = [after[i] > before[i] for i in range(4)]
    sigs = ws.db_signatures()
    mode_only = bool(edits) and all(e.startswith("chmod:") for e in edits)
    out["mode_only"] += 1 if mode_only else 0
    kinds = sorted({e.split(":")[0] for e in edits})
    flavours = sorted({"restore" if e.endswith(" [restore]") else "plain" for e in edits})
    for idx, node, hpath, structure, filtered in ws.variants:
        o, toks, hidden, dirs = ws.observe(idx)
        changed = ws.prev_obs[idx] is None or o != ws.prev_obs[idx]
        ws.prev_obs[idx] = o
        # directories (as this variant lists them) whose entry set changed while the python observer sees their
        # stat record, in the view of the file-system mode, equal to the one at the previous build
        pd = ws.prev_dirs[idx] or {}
        preserved = sorted(k.decode("latin-1") for k, (raw, vis) in dirs.items() if k in pd and pd[k][0] == raw and pd[k][1] != vis)
        ws.prev_dirs[idx] = dirs
        out["preserved"][idx] += 1 if preserved else 0
        tool_toks = None
        tool_changed = changed
        guard_links = ws.last_guard_links
        if filtered or ws.clean == idx:
            to, ttoks, _, _ = ws.observe(idx, tool=True)
            tool_changed = ws.prev_tool_obs[idx] is None or to != ws.prev_tool_obs[idx]
            ws.prev_tool_obs[idx] = to
            if to != o:
                tool_toks = ttoks
                out["stale_decisions"] += 1
        out["reruns"][idx] += 1 if ran[idx] else 0
        out["expected_reruns"][idx] += 1 if changed else 0
        base = {"variant": "structure" if structure else "tree", "filtered": filtered, "fs_mode": ws.fs_mode,
                "node_path": "relative" if ws.clean is None else ("absolute-clean" if ws.clean == idx else "absolute-dotted"),
                "edit_kinds": kinds, "edit_flavours": flavours, "stat_record_preserved": bool(preserved)}
        inp = dict(ident, build=b, patterns=[p.decode("latin-1") for p in ws.patterns], fs_mode=ws.fs_mode,
                   clean=ws.clean, session=getattr(ws, "session", None) is not None, node=node, edits_so_far=list(history), script={"init": out["script"]["init"], "builds": list(out["script"]["builds"])},
                   entry_set_changed_with_equal_stat_record=preserved, links_dropped_by_string_prefix_guard=guard_links)
        if rc != 0 or ran[idx] != changed:
            label = "%s (%s%s, file-system %s)" % (node, "structure" if structure else "tree", ", filtered" if filtered else "", ws.fs_mode)
            if rc != 0:
                kind, what = "build-failed", "build failed (exit %d): %s" % (rc, txt[-200:])
            elif not filtered and ws.clean == idx and ran[idx] == tool_changed:
                # the property is violated in exactly the way the string-prefix loop guard of the unfiltered lister predicts (F58)
                kind = "loop-guard-string-prefix"
                what = ("command with input %s %s although the observed tree %s: the unfiltered lister drops a symbolic link whose "
                        "real path is a string prefix of the (absolute) directory path although it is not an ancestor" % (
                            label, "re-executed (late)" if ran[idx] else "did NOT re-execute", "changed" if changed else "did not change"))
                base["effect"] = "missed-rerun" if changed else "late-rerun"
            elif filtered and ran[idx] == tool_changed:
                # the property is violated, and in exactly the way a filtered listing that is only refreshed when
                # the directory's stat record changes predicts (F57)
                kind = "stale-filtered-listing"
                what = ("command with input %s %s although the observed tree %s: the filtered listing of a directory whose entry set "
                        "changed under an unchanged stat record was not refreshed" % (
                            label, "re-executed (late)" if ran[idx] else "did NOT re-execute", "changed" if changed else "did not change"))
                base["effect"] = "missed-rerun" if changed else "late-rerun"
            else:
                kind = "missed-rerun" if changed else "spurious-rerun"
                what = "command with input %s %s although the observed tree %s" % (
                    label, "re-executed" if ran[idx] else "did NOT re-execute", "changed" if changed else "did not change")
            out["failures"].append(dict(base, what=what, kind=kind, input=inp))
        if idx in sigs:
            def line(tk):
                return "%s %d %s %s" % (C.hexs(hpath.encode()), 1 if filtered else 0,
                                        ",".join(C.hexs(h) for h in hidden) if hidden else ".", " ".join(tk))
            out["lines"].append((idx, b, line(toks), "%016x" % sigs[idx], line(tool_toks) if tool_toks else None, dict(base), inp))
        elif rc == 0:
            out["failures"].append(dict(base, what="no signature row for %s in the database" % node, kind="no-db-row", input=inp))
    out["builds"].append((edits, ran))


def drop_workspace(ws, out):
    """keep the workspace of a history only for failures the F57 defect model does not explain"""
    if all(f["kind"] in ("stale-filtered-listing", "loop-guard-string-prefix") for f in out["failures"]):
        shutil.rmtree(ws.root, ignore_errors=True)


def open_session(ws, sess_exe):
    """a LONG-LIVED client for this history: one BuildSystem object (harness vc10, op `session`) does every build"""
    if not sess_exe:
        return None
    sess = subprocess.Popen([sess_exe, "c10build"], stdin=subprocess.PIPE, stdout=subprocess.PIPE, stderr=subprocess.DEVNULL)
    ws.session = sess
    return sess


def close_session(ws, sess):
    if sess is None:
        return
    try:
        sess.stdin.close()
        sess.wait(timeout=20)
    except Exception:
        sess.kill()
    ws.session = None


LONG_LIVED_EVERY = 4      # every fourth generated history of each stream runs on a long-lived client


def run_history(args):
    (hid, seed, exe, scratch, depth, fan, cap, nbuilds) = args[:8]
    rng = C.Rng(seed, "C12/h%d" % hid)
    patterns = PATTERN_SETS[hid % len(PATTERN_SETS)]
    ws = WS(os.path.join(scratch, "h%d" % hid), patterns, exe)
    sess = open_session(ws, args[8] if len(args) > 8 and hid % LONG_LIVED_EVERY == 3 else None)
    gen_tree(ws, rng, depth, fan, cap)
    out = new_out(hid, ws)
    out["session"] = sess is not None
    history = []
    for b in range(nbuilds):
        edits = []
        if b > 0:
            r = rng.below(10)
            k = 0 if r == 0 else (1 if r < 7 else 2 + rng.below(3))      # null rebuild / single / compound
            for _ in range(k):
                for _try in range(4):
                    e = apply_edit(ws, rng, rng.choice(EDITS[:-1]))
                    if e:
                        edits.append(e)
                        out["edits"][e.split(":")[0]] = out["edits"].get(e.split(":")[0], 0) + 1
                        break
        history.append(edits)
        do_build(ws, out, edits, history, {"history": hid, "stream": "h", "seed": seed})
    close_session(ws, sess)
    drop_workspace(ws, out)
    return out


S_MODES = ["default", "checksum-only", "device-agnostic", "default", "checksum-only"]


def run_history_s(args):
    """second stream (own RNG stream): stat-preserving entry-set edits, same-size rewrites, all file-system modes"""
    (hid, seed, exe, scratch, depth, fan, cap, nbuilds) = args[:8]
    rng = C.Rng(seed, "C12/s%d" % hid)
    patterns = PATTERN_SETS[(hid // len(S_MODES)) % len(PATTERN_SETS)]
    ws = WS(os.path.join(scratch, "s%d" % hid), patterns, exe, S_MODES[hid % len(S_MODES)])
    sess = open_session(ws, args[8] if len(args) > 8 and hid % LONG_LIVED_EVERY == 3 else None)
    gen_tree(ws, rng, depth, fan, cap)
    out = new_out("s%d" % hid, ws)
    out["session"] = sess is not None
    history = []
    for b in range(nbuilds):
        edits = []
        if b > 0:
            r = rng.below(10)
            k = 0 if r == 0 else (1 if r < 7 else 2 + rng.below(3))
            for _ in range(k):
                for _try in range(4):
                    e = apply_edit_s(ws, rng)
                    if e:
                        edits.append(e)
                        key = e.split(":")[0] + ("+restore" if e.endswith(" [restore]") else "")
                        out["edits"][key] = out["edits"].get(key, 0) + 1
                        out["restore_edits"] += 1 if e.endswith(" [restore]") else 0
                        break
        history.append(edits)
        do_build(ws, out, edits, history, {"history": "s%d" % hid, "stream": "s", "seed": seed})
    close_session(ws, sess)
    drop_workspace(ws, out)
    return out


# ----------------------------------------------------------------------------------------------
# third stream: symbolic links to siblings / into sub-directories / to directories, absolute node names
# ----------------------------------------------------------------------------------------------
def make_ext2(ws):
    """a second directory outside the tree, two levels deep, that only this stream links to and edits"""
    ws.mkdir(b"ext/dirU")
    ws.mkfile(b"ext/dirU/inner", b"i1")
    ws.mkdir(b"ext/dirU/deep")
    ws.mkfile(b"ext/dirU/deep/more", b"m1")


def link_target(ws, rng, parent):
    """a target for a symbolic link created in directory `parent`: a sibling entry, something below a sibling
    directory (both relative, without `..`: such links can never form a loop), a directory or file outside the tree,
    or nothing.  (Targets with `..` inside the tree are only used in scripted corpus histories: once such a link is
    moved into its own target the walk is exponential.)"""
    depth = parent.count(b"/") + 1
    up = b"../" * depth
    sib = sorted(os.listdir(ws.p(parent)))
    below = []
    for n in sib:
        fp = ws.p(parent + b"/" + n)
        if os.path.isdir(fp) and not os.path.islink(fp):
            for m in sorted(os.listdir(fp)):
                below.append(n + b"/" + m)
    c = rng.below(10)
    if c < 4 and sib:
        return rng.choice(sib)
    if c < 6 and below:
        return rng.choice(below)
    if c < 8:
        return up + rng.choice([b"ext/dirU", b"ext/dirU", b"ext/dirT", b"ext/dirU/deep"])
    if c < 9:
        return up + rng.choice([b"ext/t1", b"ext/dirU/inner"])
    return rng.choice([b"nowhere"] + [n for n in NAMES if n not in sib][:2])


def gen_tree_t(ws, rng, depth, fan, cap):
    gen_tree(ws, rng, depth, fan, cap)
    make_ext2(ws)
    dirs = [b"d"] + [r for r, k in ws.walk() if k == "d"]
    for parent in dirs:
        for _ in range(rng.below(3)):
            have = set(os.listdir(ws.p(parent)))
            cands = [n for n in NAMES if n not in have]
            if cands:
                ws.mklink(parent + b"/" + rng.choice(cands), link_target(ws, rng, parent))


def through_links(ws):
    """regular files reached THROUGH a symbolic link that resolves to a directory, one or two levels below it:
    [(real path relative to the workspace, link, levels)]"""
    out = []
    root = ws.root.encode()
    for r, k in ws.walk():
        fp = ws.p(r)
        if k != "l" or not os.path.isdir(fp):
            continue
        top = os.path.realpath(fp)
        if not top.startswith(root + b"/"):
            continue
        for n in sorted(os.listdir(top)):
            a = os.path.join(top, n)
            if os.path.isfile(a) and not os.path.islink(a):
                out.append((a[len(root) + 1:], r, 1))
            elif os.path.isdir(a) and not os.path.islink(a):
                for m in sorted(os.listdir(a)):
                    b2 = os.path.join(a, m)
                    if os.path.isfile(b2) and not os.path.islink(b2):
                        out.append((b2[len(root) + 1:], r, 2))
    return out


def apply_edit_t(ws, rng):
    r = rng.below(20)
    nodes = ws.walk()
    dirs = [b"d"] + [x for x, k in nodes if k == "d"]
    links = [x for x, k in nodes if k == "l"]
    if r < 8:                                        # symbolic-link edits, half of them restoring the directory's mtime
        ws.keep = rng.chance(1, 2)
        tag = " [restore]" if ws.keep else ""
        try:
            c = rng.below(4)
            if c == 0 or not links:
                parent = rng.choice(dirs)
                have = set(os.listdir(ws.p(parent)))
                cands = [n for n in NAMES if n not in have]
                if not cands:
                    return None
                new = parent + b"/" + rng.choice(cands)
                tgt = link_target(ws, rng, parent)
                ws.mklink(new, tgt)
                return "add_link:%s -> %s%s" % (new.decode("latin-1"), tgt.decode("latin-1"), tag)
            l = rng.choice(links)
            if c == 1:
                ws.remove(l)
                return "remove_link:%s%s" % (l.decode("latin-1"), tag)
            if c == 2:
                have = set(os.listdir(ws.p(os.path.dirname(l))))
                cands = [n for n in NAMES if n not in have]
                if not cands:
                    return None
                new = os.path.dirname(l) + b"/" + rng.choice(cands)
                ws.rename(l, new)
                return "rename_link:%s -> %s%s" % (l.decode("latin-1"), new.decode("latin-1"), tag)
            old = os.readlink(ws.p(l))
            tgt = link_target(ws, rng, os.path.dirname(l))
            if tgt == old:
                return None
            ws.relink(l, tgt)
            return "retarget_link:%s -> %s%s" % (l.decode("latin-1"), tgt.decode("latin-1"), tag)
        finally:
            ws.keep = False
    if r < 14:                                       # in-place edits of files reached through a link to a directory
        cands = through_links(ws)
        if not cands:
            return None
        real, link, lv = rng.choice(cands)
        c = rng.below(3)
        if c == 0:
            ws.append(real)
            what = "content"
        elif c == 1:
            with open(ws.p(real), "rb") as f:
                old = f.read()
            if not old:
                return None
            ws.rewrite(real, bytes([(old[0] + 1 + rng.below(200)) % 256]) + old[1:], False)
            what = "rewrite"
        else:
            ws.stamp(real)
            what = "mtime"
        return "%s_through_link:%s (via %s, %d below)" % (what, real.decode("latin-1"), link.decode("latin-1"), lv)
    return apply_edit_s(ws, rng)


T_MODES = ["default", "checksum-only", "device-agnostic"]


def run_history_t(args):
    """third stream (own RNG stream): links to siblings / below / to directories, edits through them, absolute node names"""
    (hid, seed, exe, scratch, depth, fan, cap, nbuilds) = args
    rng = C.Rng(seed, "C12/t%d" % hid)
    clean = [None, 1, 3, 0, 1, 3, 2][hid % 7]          # relative | absolute with variant k spelled cleanly
    patterns = PATTERN_SETS[(hid // 21) % len(PATTERN_SETS)]
    ws = WS(os.path.join(scratch, "t%d" % hid), patterns, exe, T_MODES[(hid // 7) % 3], clean)
    gen_tree_t(ws, rng, depth, fan, cap)
    out = new_out("t%d" % hid, ws)
    history = []
    for b in range(nbuilds):
        edits = []
        if b > 0:
            r = rng.below(10)
            k = 0 if r == 0 else (1 if r < 7 else 2 + rng.below(3))
            for _ in range(k):
                for _try in range(4):
                    e = apply_edit_t(ws, rng)
                    if e:
                        edits.append(e)
                        key = e.split(":")[0] + ("+restore" if e.endswith(" [restore]") else "")
                        out["edits"][key] = out["edits"].get(key, 0) + 1
                        out["restore_edits"] += 1 if e.endswith(" [restore]") else 0
                        break
        history.append(edits)
        do_build(ws, out, edits, history, {"history": "t%d" % hid, "stream": "t", "seed": seed})
    drop_workspace(ws, out)
    return out


OP_KIND = {"mkfile": "add_file", "mkdir": "add_dir", "mklink": "add_link", "append": "content", "stamp": "mtime"}


def run_script(args):
    """a scripted history (corpus/C12/*.json, or the `script` of a replay file): exact primitive operations"""
    (name, spec, exe, scratch) = args[:4]
    patterns = [p.encode("latin-1") for p in spec["patterns"]]
    ws = WS(os.path.join(scratch, "c-" + name), patterns, exe, spec.get("fs_mode", "default"), spec.get("clean"))
    sess = None
    if spec.get("session") and len(args) > 4 and args[4]:
        sess = subprocess.Popen([args[4], "c10build"], stdin=subprocess.PIPE, stdout=subprocess.PIPE, stderr=subprocess.DEVNULL)
        ws.session = sess
    for o in spec["script"]["init"]:
        ws.apply_op(o)
    out = new_out("corpus:" + name, ws)
    out["script"]["init"] = spec["script"]["init"]
    history = []
    for ops in spec["script"]["builds"]:
        for o in ops:
            ws.apply_op(o)
        edits = ["%s:%s%s" % (OP_KIND.get(o[0], o[0]), o[1], " [restore]" if (o[0] in ("mkfile", "mkdir", "mklink", "remove", "rename", "relink") and o[-1] is True) else "")
                 for o in ops]
        history.append(edits)
        do_build(ws, out, edits, history, {"history": "corpus:" + name, "stream": "corpus"})
    if sess is not None:
        try:
            sess.stdin.close()
            sess.wait(timeout=20)
        except Exception:
            sess.kill()
        ws.session = None
    drop_workspace(ws, out)
    return out


class Check(PropertyCheck):
    prop = "C12"
    module = "LLBuild.Props.C12All"
    theorems = ["LLBuild.DirTree." + t for t in [
        "C12_tree_recipe_is_modelled", "C12_struct_recipe_is_modelled", "C12_nil_marker_extracted",
        "C12_tree_sig_injective", "C12_struct_sig", "C12_content_edit_keeps_struct_sig",
        "C12_add_remove_retype_changes_struct_sig", "C12_change_at_any_depth", "C12_filter_exact", "C12_F32_before_repair",
        # Props/C12Engine.lean: the directory tasks as an engine Program; rerun-iff over accepted engine traces
        "C12_client_WF", "C12_client_LocalIds", "C12_client_Det", "C12_build_returns_unique",
        "C12_clean_signature_iff", "C12_clean_contents_iff",
        "C12_built_value", "C12_build_returns_current",
        "C12_tree_changed_not_up_to_date", "C12_struct_changed_not_up_to_date",
        "C12_tree_unchanged_is_current", "C12_struct_unchanged_is_current",
        "C12_up_to_date_is_current", "C12_delivered_is_current",
        "C12_tree_changed_never_up_to_date", "C12_struct_changed_never_up_to_date",
        "C12_tree_unchanged_stays_current", "C12_struct_unchanged_stays_current",
        # Props/C12Stat.lean: the validity of the directory listing made explicit (re-listing check vs. trusting the stat record)
        "C12_tree_changed_not_up_to_date_under_stat_discipline", "C12_struct_changed_not_up_to_date_under_stat_discipline",
        "C12_relisting_view_is_the_file_system", "C12_filtered_as_coded_needs_stat_discipline"]]
    extractors = ["x_dirtree", "x_codec"]
    harnesses = [("vc10", "plain")]     # its `session` op: one BuildSystem object for all builds of a scripted history
    level = "proof"
    assumptions = [
        "theorems are about pre-hash terms: llvm::hash_combine / hash_combine_range (64-bit) are NOT injective; equal terms <=> equal observations, distinct terms collide with probability ~2^-64",
        "libc fnmatch is the abstract parameter Cfg.fnmatch (the definition of 'matches'); the end-to-end check calls the same libc fnmatch through ctypes",
        "names returned by readdir are NUL-free and a listing packs into < 2^64 bytes (hypothesis `Listed`, the StringList precondition of C15)",
        "rerun-iff on the engine (Props/C12Engine.lean) is proved for the directory tasks written as an Engine.Program (Lemmas/DirTreeEngine.lean: hand-written from BuildSystem.cpp, the request structure is the one x_dirtree compares textually); the directory listing is an input key there, valid iff equal to the readdir slot: that is the unfiltered DirectoryContentsTask (isResultValid re-lists and compares) and the filtered task once it has the same check (F57); the filtered task AS CODED (IsValid = nullptr) shows the engine a stale view (Lemmas/DirTreeStat.lean staleEnv), for which the theorems hold under the explicit hypothesis StatDiscipline and fail without it (Props/C12Stat.lean); input-key validity is full equality of the stat record (FileInfo== ignores mode, see below); the tie of that Program to the real tool is the end-to-end rerun oracle, not a trace replay",
        "FileInfo::operator== ignores `mode` (C13_eq_iff): a permission-only change is not observable until another field of the same node changes; the oracle models this ('sticky mode')",
        "NO directory-mtime discipline is assumed any more: the second stream changes entry sets and restores the directory's mtime, and runs all three file-system modes; 'stat record unchanged' is what the python observer measures on this file system (ext4: inode and size of a small directory do not move), never an assumption.  The first stream still re-stamps a directory whose entry set changed (a kernel with a fine-grained clock)",
        "the F57 defect model inside the harness (tool view: a filtered listing is refreshed iff the directory's record differs from the one at the tool's last visit) is used ONLY to give a property failure of a filtered variant the kind stale-filtered-listing when the tool behaved exactly as that model predicts; it never turns a failure into a pass, and unfiltered variants are never classified by it",
        "symbolic links to an ancestor directory are not generated",
    ]
    trusted_base = ["extractor x_dirtree (recipes of the two inputsAvailable bodies, request structure, filter polarity, sort order)",
                    "extractor x_codec (BuildValue / FileInfo wire format, C15)",
                    "python oracle (independent restatement of observe/observeStruct over the real file system)",
                    "end-to-end harness: real llbuild buildsystem build, side-effect logs, build.db signature rows"]

    def model_cmd(self):
        priv = os.path.join(C.LEAN, "DriverC12.lean")
        rc, out, err = C.run_lines([C.model_exe(), "c12sig"], []) if os.path.exists(C.model_exe()) else (2, [], "")
        if rc == 0:
            return [C.model_exe(), "c12sig"], None
        if os.path.exists(priv):
            return ["lake", "env", "lean", "--run", "DriverC12.lean", "c12sig"], C.LEAN
        return None, None

    def corpus(self, ctx):
        """scripted histories run on every check: corpus/C12/*.json and, with --replay, the script of the replay file"""
        specs = []
        for f in sorted(glob.glob(os.path.join(C.VERIF, "corpus", "C12", "*.json"))):
            with open(f) as fh:
                specs.append((os.path.basename(f)[:-5], json.load(fh)))
        rp = getattr(ctx, "replay_path", None)
        if rp:
            with open(rp) as fh:
                r = json.load(fh)
            inp = r.get("failure", r).get("input", {})
            if "script" in inp:
                specs.append(("replay", {"patterns": inp["patterns"], "fs_mode": inp.get("fs_mode", "default"),
                                         "clean": inp.get("clean"), "script": inp["script"], "session": bool(inp.get("session"))}))
        return specs

    def correspond(self, ctx, res):
        exe = os.path.join(C.BUILD, "plain", "bin", "llbuild")
        scratch = os.path.join(C.BUILD, "scratch", "c12-%d" % ctx.seed)
        shutil.rmtree(scratch, ignore_errors=True)
        os.makedirs(scratch, exist_ok=True)
        if ctx.thorough:
            nh, ns, nt, depth, fan, cap, nb = 2000, 2000, 1470, 6, 6, 60, 10
        else:
            nh, ns, nt, depth, fan, cap, nb = 600, 600, 441, 4, 4, 24, 8
        sx = ctx.exe.get(("vc10", "plain"))
        jobs = [(h, ctx.seed, exe, scratch, depth if h % 3 else 2, fan, cap, nb, sx) for h in range(nh)]
        jobs_s = [(h, ctx.seed, exe, scratch, depth if h % 4 else 2, fan, cap, nb, sx) for h in range(ns)]
        jobs_t = [(h, ctx.seed, exe, scratch, min(depth, 4) if h % 4 else 2, min(fan, 4), min(cap, 24), nb) for h in range(nt)]
        specs = self.corpus(ctx)
        # processes, not threads: the python observer is CPU-bound (a thread pool is ~10x slower under the GIL)
        with ProcessPoolExecutor(max_workers=16) as ex:
            fc = [ex.submit(run_script, (name, spec, exe, scratch, ctx.exe.get(("vc10", "plain")))) for name, spec in specs]
            fs = [ex.submit(run_history_s, j) for j in jobs_s]
            ft = [ex.submit(run_history_t, j) for j in jobs_t]
            fh = [ex.submit(run_history, j) for j in jobs]
            outs_c, outs_s, outs = [f.result() for f in fc], [f.result() for f in fs], [f.result() for f in fh]
            outs_t = [f.result() for f in ft]
        edits, lines = {}, []
        reruns, expected = [0] * 4, [0] * 4
        builds = mode_only = nodes = 0
        by_mode = {m: {"histories": 0, "decisions": 0, "expected_reruns": 0, "restore_edits": 0,
                       "decisions_with_entry_set_change_under_equal_stat_record[tree,tree+filter,struct,struct+filter]": [0] * 4,
                       "filtered_decisions_where_the_F57_defect_model_sees_a_stale_listing": 0} for m in FS_MODES}
        node_paths = {"relative": 0, "absolute": 0}
        for o in outs_c + outs_t + outs_s + outs:
            node_paths["relative" if o["clean"] is None else "absolute"] += 1
            for f in o["failures"]:
                res.oracle_failures.append(f)
            for k, v in o["edits"].items():
                edits[k] = edits.get(k, 0) + v
            for i in range(4):
                reruns[i] += o["reruns"][i]
                expected[i] += o["expected_reruns"][i]
            builds += len(o["builds"])
            mode_only += o["mode_only"]
            nodes += o["nodes"]
            lines += [(o["hid"],) + l for l in o["lines"]]
            m = by_mode[o["fs_mode"]]
            m["histories"] += 1
            m["decisions"] += 4 * len(o["builds"])
            m["expected_reruns"] += sum(o["expected_reruns"])
            m["restore_edits"] += o["restore_edits"]
            m["filtered_decisions_where_the_F57_defect_model_sees_a_stale_listing"] += o["stale_decisions"]
            for i in range(4):
                m["decisions_with_entry_set_change_under_equal_stat_record[tree,tree+filter,struct,struct+filter]"][i] += o["preserved"][i]
        res.evaluations += builds * 4
        res.distinct_nontrivial += sum(expected)
        res.distribution.update({"histories": nh, "histories_second_stream": ns, "histories_third_stream": nt,
                                 "generated_histories_on_a_long_lived_client": sum(1 for o in outs_s + outs if o.get("session")),
                                 "histories_by_node_path": node_paths, "corpus_histories": [n for n, _ in specs],
                                 "builds": builds, "edits": edits, "initial_tree_nodes_total": nodes,
                                 "reruns_by_variant[tree,tree+filter,struct,struct+filter]": reruns,
                                 "expected_reruns_by_variant": expected, "mode_only_edit_builds": mode_only,
                                 "by_file_system_mode": by_mode,
                                 "pattern_sets": [[p.decode("latin-1") for p in ps] for ps in PATTERN_SETS]})
        # bit-exact signature correspondence (model vs database rows)
        cmd, cwd = self.model_cmd()
        if not MODEL_HAS_CHECKSUM:
            lines = [l for l in lines if l[6].get("fs_mode") != "checksum-only"]
        sample = lines
        if cmd is None:
            res.mismatches.append({"stream": "c12sig", "input": "model driver has no c12sig mode (Drv/C12 not integrated into Driver.lean)"})
        elif ctx.model_ok:
            # one model line per stored signature for the tree as it is, plus one for the stale-listing view where that differs
            qs = [l[3] for l in sample] + [l[5] for l in sample if l[5]]
            data = ("\n".join(qs) + "\n").encode()
            p = subprocess.run(cmd, input=data, stdout=subprocess.PIPE, stderr=subprocess.PIPE, cwd=cwd)
            mout = p.stdout.decode().split("\n")[:-1]
            if p.returncode != 0 or len(mout) != len(qs):
                res.mismatches.append({"stream": "c12sig", "input": "model driver exit %d, %d/%d lines" % (p.returncode, len(mout), len(qs)),
                                       "model": p.stderr.decode()[-300:]})
            else:
                bad = stale = 0
                tool_out = iter(mout[len(sample):])
                for (hid, idx, b, line, impl, tline, base, inp), m in zip(sample, mout):
                    field = "struct" if (idx >= 2) else "tree"
                    want = dict(kv.split("=") for kv in m.split(" ") if "=" in kv).get(field)
                    twant = dict(kv.split("=") for kv in next(tool_out).split(" ") if "=" in kv).get(field) if tline else None
                    if want == impl:
                        continue
                    if tline and twant == impl:
                        # the stored signature is the model's signature of the STALE view (F57), not of the tree as it is
                        stale += 1
                        res.oracle_failures.append(dict(base, kind="stale-filtered-listing" if base["filtered"] else "loop-guard-string-prefix",
                                                        effect="stale-signature", input=inp,
                                                        what="the signature stored for %s is that of %s (%s), "
                                                             "not of the tree as it is (%s)" % (inp.get("node"),
                                                             "a stale filtered listing" if base["filtered"] else "a listing without the links the string-prefix loop guard drops",
                                                             impl, want)))
                        continue
                    bad += 1
                    if bad <= 10:
                        res.mismatches.append({"stream": "c12sig", "input": "history %s build %d variant %s: %s" % (hid, b, inp.get("node"), line[:400]),
                                               "model": m, "impl": impl})
                res.distribution["signature_values_compared"] = len(sample)
                res.distribution["signature_values_differing"] = bad
                res.distribution["signature_values_of_a_stale_filtered_listing"] = stale
                res.evaluations += len(sample)
        # failures the F57 defect model does not explain first (the runner writes replay files for the first five)
        res.oracle_failures.sort(key=lambda f: f.get("kind") in ("stale-filtered-listing", "loop-guard-string-prefix"))
        fk = {}
        for f in res.oracle_failures:
            k = "%s/%s/%s/%s/%s" % (f.get("kind"), f.get("effect", "-"), "filtered" if f.get("filtered") else "unfiltered", f.get("variant"), f.get("fs_mode")) + "/" + str(f.get("node_path"))
            fk[k] = fk.get(k, 0) + 1
        res.distribution["oracle_failures_by_kind/effect/filtered/variant/fs_mode/node_path"] = fk
        res.rule = ("%d + %d + %d seeded histories (random tree, depth<=%d, fan-out<=%d) x %d builds each through the real `llbuild buildsystem build` "
                    "(new process per build, database reused), four directory inputs per build (tree/structure x unfiltered/filtered); "
                    "between builds: null rebuild (10%%), one edit (60%%) or 2-4 edits (30%%).  First stream (file-system default): add file/dir, remove, "
                    "rename, move, retype, content, mtime bump, chmod, symlink retarget at any depth, directories re-stamped when their entry set changes.  "
                    "Second stream (file-system default / checksum-only / device-agnostic = 2:2:1): half of the edits are add file/dir, remove, rename, move "
                    "that RESTORE the directory's mtime, 10%% same-size content rewrites (mtime new or kept), the rest as in the first stream.  "
                    "Third stream (relative node names and ABSOLUTE ones, each variant in turn spelled cleanly; all three file-system modes): 40%% add / remove / "
                    "rename / retarget of symbolic links whose target is a sibling entry, lies below the same directory, is a directory or file outside the tree "
                    "or nothing (half restoring the directory's mtime), 30%% in-place edits (content, same-size rewrite, mtime) of files reached THROUGH a link to a "
                    "directory, one or two levels below it, 30%% as in the second stream.  "
                    "Plus the scripted histories of corpus/C12.  Oracle per (build, variant): rerun iff observation changed.  "
                    "Non-trivial = builds x variants in which a rerun was expected.  Every stored root signature is compared bit-for-bit with the Lean model%s."
                    % (nh, ns, nt, depth, fan, nb, "" if MODEL_HAS_CHECKSUM else " (not in checksum-only workspaces: the model's stat record has no checksum field)"))
        res.samples.append({"history0": [[e, r] for e, r in outs[0]["builds"]][:4]})
        if outs_s:
            res.samples.append({"history_s0": [[e, r] for e, r in outs_s[0]["builds"]][:4], "fs_mode": outs_s[0]["fs_mode"]})
        if len(outs_t) > 1:
            res.samples.append({"history_t1": [[e, r] for e, r in outs_t[1]["builds"]][:4], "fs_mode": outs_t[1]["fs_mode"], "clean": outs_t[1]["clean"]})
        if all(f.get("kind") in ("stale-filtered-listing", "loop-guard-string-prefix") for f in res.oracle_failures) and not res.mismatches:
            shutil.rmtree(scratch, ignore_errors=True)

    def search(self, ctx, res, why):
        return


CHECK = Check()
