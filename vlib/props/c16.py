"""C16 — every job runs exactly once within the lane limit; every process accounted for."""
import hashlib, os, re, struct, subprocess, threading
from .. import common as C
from ..runner import PropertyCheck

SIGNALS_FATAL = [1, 2, 3, 4, 5, 6, 7, 8, 9, 10, 11, 12, 13, 14, 15, 16, 24, 25, 26, 27, 29, 30, 31]
CANCEL_SIGNALS = (2, 9)     # written from the property text: "cancelled for an interrupt or kill signal"
PRIVATE_DRIVER = """import LLBuild.Drv.Common
import LLBuild.Drv.C16
open LLBuild.Drv
def main (args : List String) : IO UInt32 := do
  let stdin ← IO.getStdin
  let stdout ← IO.getStdout
  match args with
  | [m] =>
    match LLBuild.Drv.C16.modes.lookup m with
    | some f => f stdin stdout; return 0
    | none => IO.eprintln s!"unknown mode {m}"; return 2
  | _ => return 2
"""


def pattern(nbytes, seed):
    """the child's deterministic output: 8-byte little-endian counters xor seed (written independently of the harness)"""
    n8 = (nbytes + 7) // 8
    return b"".join(struct.pack("<Q", i ^ seed) for i in range(n8))[:nbytes]


def fields(line):
    d = {}
    for tok in line.split(" #")[0].split():
        if "=" in tok:
            k, v = tok.split("=", 1)
            d[k] = v
    return d


def ids(s):
    return [] if s in (".", "", None) else [int(x) for x in s.split(",")]


class Check(PropertyCheck):
    prop = "C16"
    module = "LLBuild.Props.C16"
    theorems = ["LLBuild.LaneQueue.C16_exactly_once", "LLBuild.LaneQueue.C16_lane_bound",
                "LLBuild.LaneQueue.C16_lane_exits_only_after_shutdown", "LLBuild.LaneQueue.C16_no_lost_wakeup",
                "LLBuild.LaneQueue.C16_no_empty_pop", "LLBuild.LaneQueue.C16_pop_order",
                "LLBuild.LaneQueue.C16_null_descriptor_strands", "LLBuild.LaneQueue.C16_zero_lanes_strand",
                "LLBuild.LaneQueue.C16_serial_exactly_once", "LLBuild.LaneQueue.C16_serial_full_before_fix_false",
                "LLBuild.ProcStatus.C16_spawn_shape", "LLBuild.ProcStatus.C16_status",
                "LLBuild.ProcStatus.C16_completion_once", "LLBuild.ProcStatus.C16_completion_status",
                "LLBuild.ProcStatus.C16_completion_once_before_fix_false", "LLBuild.ProcStatus.C16_env_precedence",
                "LLBuild.ProcStatus.C16_no_spawn_after_cancel", "LLBuild.ProcStatus.C16_escalation",
                "LLBuild.ProcStatus.C16_escalation_full_after_fix", "LLBuild.ProcStatus.C16_escalation_full_before_fix_false"]
    extractors = ["x_lanequeue", "x_procstatus"]
    harnesses = [("vc16", "plain")]
    assumptions = [
        "atomicity at lock granularity: the steps of the lane-queue / serial-queue / process-group models are the critical sections of readyJobsMutex, operationsMutex, pgrp.mutex; std::mutex / std::condition_variable behave as specified (notify_one wakes a waiter if there is one; spurious wake-ups allowed)",
        "the queue has at least one lane (createLaneBasedExecutionQueue(.., 0, ..) creates none and never runs anything; in-tree callers never pass 0); no job has a null descriptor (QueueJob{} is the lane-exit sentinel by design); addJob is not called from outside the queue's own jobs once the destructor has started",
        "job bodies terminate (liveness of the destructor's join is not a theorem; the invariants show no lane sleeps on pending work and none waits after shutdown)",
        "kernel/libc: wait4 reports the child's fate in the glibc wait-status layout (checked against the W* macros by the extractor), pipes deliver bytes in order until EOF, kill(-pgid) reaches the child, posix_spawn returns after the child's exec: exercised by the harness with real children, not proved",
        "escalation (C16_escalation): until fix F53 is in the tree, the kill round is guaranteed only if the escalation thread took queueCompleteMutex before the destructor stored queueComplete (the theorem's hypothesis `waited`; its negation without the hypothesis is proved and replays on the real queue: vc16 cancelphase with destroy field r0, ~2 % of the runs). The harness therefore waits until that thread is parked before it destroys the queue; the raw order is run too and only counted (distribution.cancelphase_destroy_race_F53) until the extractor sees the fixed shape, then it is required",
        "hand model of the spawnProcess control flow, tied by a token-sequence fingerprint of the preprocessed source (fails closed) and by real launches on every path the harness can reach (pipe-creation and wait4 failures are not injected)",
    ]
    trusted_base = ["extractors x_lanequeue (conditions, pop order, notify kinds, env order, sentinel handling) and x_procstatus (classification expression, signal numbers, W* macro probe, control-flow fingerprint)",
                    "harness vc16 (real LaneBasedExecutionQueue / SerialExecutionQueue / spawnProcess with real child processes) and its generators",
                    "python oracles in vlib/props/c16.py (independent restatement of each clause)"]

    # ------------------------------------------------------------------------------------------
    def model_cmd(self, mode):
        exe = C.model_exe()
        if os.path.exists(exe):
            p = subprocess.run([exe, mode], input=b"", stdout=subprocess.PIPE, stderr=subprocess.PIPE)
            if p.returncode == 0:
                return [exe, mode], None
        # the shared driver does not list the C16 modes yet: interpret a private driver kept in the build directory
        d = os.path.join(C.BUILD, "c16drv")
        os.makedirs(d, exist_ok=True)
        path = os.path.join(d, "DriverC16.lean")
        with open(path, "w") as f:
            f.write(PRIVATE_DRIVER)
        return ["lake", "env", "lean", "--run", path, mode], C.LEAN

    def run_pair(self, ctx, res, stream, mode, hmode, lines, hargs=(), timeout=600):
        """same lines to the model driver and to the harness; returns (model lines or None, harness lines or None)"""
        out = {}

        def m():
            cmd, cwd = self.model_cmd(mode)
            data = ("\n".join(lines) + "\n").encode()
            try:
                p = subprocess.run(cmd, input=data, stdout=subprocess.PIPE, stderr=subprocess.PIPE, cwd=cwd, timeout=timeout)
                o = p.stdout.decode("utf-8", "replace").split("\n")
                if o and o[-1] == "":
                    o.pop()
                out["m"] = (p.returncode, o, p.stderr.decode("utf-8", "replace"))
            except subprocess.TimeoutExpired:
                out["m"] = (-9, [], "timeout")

        def h():
            try:
                out["h"] = C.run_lines([ctx.exe[("vc16", "plain")], hmode] + list(hargs), lines, timeout=timeout)
            except subprocess.TimeoutExpired:
                out["h"] = (-9, [], "timeout")
        tm = threading.Thread(target=m)
        th = threading.Thread(target=h)
        if mode:
            tm.start()
        th.start()
        if mode:
            tm.join()
        th.join()
        hrc, hout, herr = out["h"]
        if hrc == -9:
            res.oracle_failures.append({"what": "the real code hung on stream %s (no result within %d s): a job or a process was never completed" % (stream, timeout),
                                        "call": stream, "kind": "hang", "input": lines[:5]})
            return None, None
        if hrc != 0 or len(hout) != len(lines):
            res.mismatches.append({"stream": stream, "input": "harness exit %d, %d/%d lines" % (hrc, len(hout), len(lines)), "impl": herr[-300:]})
            return None, None
        mout = None
        if mode:
            mrc, mo, merr = out["m"]
            if mrc == 0 and len(mo) == len(lines):
                mout = mo
            elif ctx.model_ok:
                res.mismatches.append({"stream": stream, "input": "model driver exit %d, %d/%d lines" % (mrc, len(mo), len(lines)), "model": merr[-300:]})
        return mout, hout

    # ------------------------------------------------------------------------------------------
    # job mixes
    # ------------------------------------------------------------------------------------------
    def gen_mix(self, rng, serial=False):
        n = 1 + rng.below(24)
        jobs = []
        cancel_budget = 1 if rng.chance(1, 3) else 0
        for i in range(1, n + 1):
            parent = "-"
            if i > 1 and rng.chance(2, 5):
                parent = str(1 + rng.below(i - 1))
            flags = ""
            if cancel_budget and rng.chance(1, 6):
                flags += "c" if (parent != "-" or rng.chance(1, 2)) else "x"
                cancel_budget = 0
            if rng.chance(1, 4):
                flags += "e"
            dur = rng.choice([0, 0, 100, 500, 1000, 2000, 5000]) if not rng.chance(1, 3) else rng.below(5001)
            jobs.append("%d:%d:%d:%s:%d:%s" % (i, rng.below(1000), 1 if rng.chance(1, 4) else 0, parent, dur, flags or "."))
        lanes = 1 + rng.below(8)
        alg = "fifo" if rng.chance(1, 2) else "name"
        return "%d %s %s %s %d" % (lanes, alg, "drain" if serial else "now", ",".join(jobs), rng.below(1 << 30))

    def check_mix(self, res, stream, line, out, hyp=None):
        """python oracle for one job mix on the real queue's projection"""
        f = fields(out)
        spec = line.split()[3]
        all_ids = sorted(int(j.split(":")[0]) for j in ([] if spec == "." else spec.split(",")) if "n" not in j.split(":")[5])
        ex, st = ids(f.get("executed")), ids(f.get("stranded"))
        base = {"call": stream, "input": line}
        if hyp:
            # a stated hypothesis is violated on purpose: the model's witness must replay (checked by the correspondence)
            return
        if len(set(ex)) != len(ex):
            res.oracle_failures.append(dict(base, what="a job was executed more than once: %s" % ex, kind="executed-twice"))
        elif sorted(ex) != all_ids or st:
            res.oracle_failures.append(dict(base, what="jobs submitted %s, executed %s, never executed before the queue was destroyed: %s" % (all_ids, ex, st or sorted(set(all_ids) - set(ex))),
                                            kind="stranded-on-shutdown"))
        if f.get("peak_ok") != "1":
            res.oracle_failures.append(dict(base, what="more jobs in flight than lanes: " + out, kind="lane-bound"))
        if f.get("lane_ok") != "1" or f.get("paired") != "1":
            res.oracle_failures.append(dict(base, what="lane id out of range or queueJobStarted/Finished unpaired: " + out, kind="delegate-pairing"))

    def run_mixes(self, ctx, res):
        rng = ctx.rng
        n = 3000 if ctx.thorough else 400
        lines = [self.gen_mix(rng) for _ in range(n)]
        # corpus: jobs adding jobs at the end of their work while the destructor is already waiting; priorities; cancellation
        lines += ["3 name now 1:5:0:-:20000:e,2:3:0:1:100:.,3:9:1:2:0:. 5", "1 fifo now 1:1:0:-:5000:e,2:1:0:1:5000:e,3:1:0:2:5000:ce,4:1:1:3:0:. 6",
                  "8 fifo now 1:0:0:-:0:x,2:0:0:-:0:. 7", "2 name now . 1"]
        hyp = {len(lines): "null-descriptor", len(lines) + 1: "zero-lanes"}
        lines += ["1 fifo now 1:0:0:-:0:n,2:0:0:-:0:. 3", "0 fifo now 1:0:0:-:0:. 1"]
        mout, hout = self.run_pair(ctx, res, "queue", "c16sim", "queue", lines, timeout=900)
        if hout is None:
            return
        nontriv = 0
        for i, line in enumerate(lines):
            self.check_mix(res, "LaneBasedExecutionQueue", line, hout[i], hyp.get(i))
            h = hout[i].split(" #")[0]
            if mout is not None and mout[i] != h and len(res.mismatches) < 20:
                res.mismatches.append({"stream": "queue", "input": line, "model": mout[i], "impl": h})
            if "," in line.split()[3]:
                nontriv += 1
        peaks = [int(m.group(1)) for m in (re.search(r"peak=(\d+)", o) for o in hout) if m]
        res.evaluations += len(lines)
        res.distinct_nontrivial += nontriv
        res.distribution["queue_mixes"] = len(lines)
        res.distribution["queue_peak_histogram"] = {str(k): peaks.count(k) for k in sorted(set(peaks))}
        res.distribution["queue_mixes_with_cancellation"] = sum(1 for l in lines if re.search(r":[a-z]*[cx][a-z]*(,| )", l))
        res.samples.append({"mix": lines[0], "impl": hout[0]})

    def run_order(self, ctx, res):
        rng = ctx.rng
        n = 400 if ctx.thorough else 60
        lines = []
        for _ in range(n):
            k = rng.below(14)
            keys = rng.shuffle(list(range(100, 100 + 3 * k, 3)))[:k]
            jobs = ["%d:%d:%d:-:0:." % (i + 1, keys[i], 1 if rng.chance(1, 3) else 0) for i in range(k)]
            lines.append("%s %s" % ("fifo" if rng.chance(1, 2) else "name", ",".join(jobs) or "."))
        mout, hout = self.run_pair(ctx, res, "order", "c16order", "order", lines)
        if hout is None:
            return
        for i, line in enumerate(lines):
            alg, spec = line.split()
            js = [] if spec == "." else [tuple(int(x) if x.isdigit() else x for x in j.split(":")[:3]) for j in spec.split(",")]
            hi = [j[0] for j in js if j[2] == 1]
            lo = [j for j in js if j[2] == 0]
            lo = [j[0] for j in lo] if alg == "fifo" else [j[0] for j in sorted(lo, key=lambda j: -j[1])]
            want = "order=" + (",".join(str(x) for x in hi + lo) or ".")
            if hout[i] != want:
                res.oracle_failures.append({"what": "one lane popped jobs in the order %s; priority jobs first (FIFO), then %s gives %s" % (hout[i], "FIFO" if alg == "fifo" else "greatest name first", want),
                                            "call": "executeLane pop order", "kind": "pop-order", "input": line})
            if mout is not None and mout[i] != hout[i] and len(res.mismatches) < 20:
                res.mismatches.append({"stream": "order", "input": line, "model": mout[i], "impl": hout[i]})
        res.evaluations += len(lines)
        res.distinct_nontrivial += sum(1 for l in lines if l.count(",") >= 2)
        res.distribution["order_cases"] = len(lines)

    def run_serial(self, ctx, res):
        rng = ctx.rng
        n = 200 if ctx.thorough else 30
        lines = [self.gen_mix(rng, serial=True) for _ in range(n)]
        # F162: operations enqueued by a running operation while the destructor is waiting
        wit = ["1 fifo now 1:5:0:-:30000:e,2:3:0:1:100:. 1", "1 fifo now 1:5:0:-:25000:e,2:3:0:1:20000:e,3:0:0:2:0:. 1"]
        lines += wit
        mout, hout = self.run_pair(ctx, res, "serial", "c16simserial", "serial", lines)
        if hout is None:
            return
        for i, line in enumerate(lines):
            self.check_mix(res, "SerialExecutionQueue", line, hout[i])
            h = hout[i].split(" #")[0]
            if mout is not None and mout[i] != h and len(res.mismatches) < 20:
                res.mismatches.append({"stream": "serial", "input": line, "model": mout[i], "impl": h})
        res.evaluations += len(lines)
        res.distribution["serial_mixes"] = len(lines)

    # ------------------------------------------------------------------------------------------
    # real processes
    # ------------------------------------------------------------------------------------------
    def gen_env_lines(self, rng, n):
        # (names that are proper PREFIXES of one another: "already defined" must compare the whole name up to the '=')
        keys = [b"A", b"B", b"C", b"PATH", b"LLBUILD_BUILD_ID", b"LLBUILD_LANE_ID", b"LLBUILD_TASK_ID", b"LLBUILD_CONTROL_FD", b"X Y",
                b"AB", b"A_FLAGS", b"CC", b"CC_FLAGS", b"CCACHE_DIR", b"PATHEXT", b"LLBUILD", b"LLBUILD_TASK"]
        vals = [b"", b"1", b"2", b"v=w", b"a b", b"/usr/bin:/bin", b"77"]
        out = []
        for _ in range(n):
            req = [rng.choice(keys) + b"=" + rng.choice(vals) for _ in range(rng.below(6))]
            base = []
            for _ in range(rng.below(6)):
                k = rng.choice(keys)
                base.append(k if rng.chance(1, 6) else k + b"=" + rng.choice(vals))
            hl = lambda l: ",".join(C.hexs(x) for x in l) if l else "."
            out.append("env %d %s %s %d" % (1 if rng.chance(2, 3) else 0, hl(req), hl(base), 1 if rng.chance(1, 2) else 0))
        return out

    def env_oracle(self, line):
        """documented precedence, written independently: build id and lane id, then the requested entries, then the
        inherited base environment (if inheriting), then the task id and the control descriptor; first definition wins"""
        _, inh, req, base, ctl = line.split()
        un = lambda s: [] if s == "." else [C.unhex(x) for x in s.split(",")]
        offered = [(b"LLBUILD_BUILD_ID", None), (b"LLBUILD_LANE_ID", b"0")]
        for e in un(req):
            k, _, v = e.partition(b"=")
            offered.append((k, v))
        if inh == "1":
            for e in un(base):
                k, _, v = e.partition(b"=")
                offered.append((k, v))
        offered.append((b"LLBUILD_TASK_ID", Ellipsis))
        if ctl == "1":
            offered.append((b"LLBUILD_CONTROL_FD", Ellipsis))
        seen, out = set(), []
        for k, v in offered:
            if k not in seen:
                seen.add(k)
                out.append((k, v))
        return out

    def run_procs(self, ctx, res):
        rng = ctx.rng
        lines, meta = [], []

        def add(line, **m):
            lines.append(line)
            meta.append(m)
        for code in range(256):                      # exhaustive in both tiers
            add("exit %d" % code, kind="exit", code=code)
        sigs = SIGNALS_FATAL + (list(range(34, 65)) if ctx.thorough else [34, 64])
        for s in sigs:
            add("sig %d" % s, kind="sig", sig=s)
        vols = [0, 1, 4095, 4096, 4097, 65535, 65536, 65537, 200000, 1048576]
        if ctx.thorough:
            vols += [rng.below(1 << 20) for _ in range(30)] + [3 << 20]
        for v in vols:
            seed = rng.below(1 << 32)
            chunk = rng.choice([1, 7, 512, 4096, 65536, 1 << 20]) if v < 70000 else rng.choice([4096, 65536, 1 << 20])
            code = rng.choice([0, 0, 1, 42])
            add("out %d %d %d %d" % (v, seed, chunk, code), kind="out", n=v, seed=seed, code=code)
        # a burst written at once by a child that exits immediately, consumed by a slow delegate: whatever is still in the pipe
        # when the writer is gone (up to the pipe buffer, 64 KiB) must be delivered before the completion
        for v in [4097, 8193, 20000, 65536, 65537, 200000] + ([4097 + rng.below(300000) for _ in range(10)] if ctx.thorough else []):
            seed = rng.below(1 << 32)
            add("slowout %d %d %d %d %d" % (v, seed, 1 << 20, 0, 300), kind="out", n=v, seed=seed, code=0)
        for v in [0, 5000, 100000] + ([rng.below(300000) for _ in range(10)] if ctx.thorough else []):
            seed = rng.below(1 << 32)
            add("early %d %d %d %d" % (v, seed, 30, 4), kind="out", n=v, seed=seed, code=4, early=True)
        for v in [0, 70000] + ([rng.below(300000) for _ in range(6)] if ctx.thorough else []):
            seed = rng.below(1 << 32)
            add("release %d %d %d %d" % (v, seed, 40, 3), kind="out", n=v, seed=seed, code=3)
        for v in range(5):
            add("noexe %d" % v, kind="noexe", variant=v)
        for l in self.gen_env_lines(rng, 200 if ctx.thorough else 40):
            add(l, kind="env")
        _, hout = self.run_pair(ctx, res, "proc", None, "proc", lines, timeout=900)
        if hout is None:
            return
        raw = []            # (index, raw status) of reaped children, for the model's classify
        envs = []
        dist = {"Succeeded": 0, "Failed": 0, "Cancelled": 0}
        for i, (line, m) in enumerate(zip(lines, meta)):
            f = fields(hout[i])
            base = {"call": "spawnProcess", "input": line, "line": hout[i][:300]}
            st = f.get("status")
            dist[st] = dist.get(st, 0) + 1
            if f.get("completions") != "1" or "TIMEOUT" in hout[i]:
                res.oracle_failures.append(dict(base, what="the completion callback fired %s times for one launch" % f.get("completions"), kind="completion-count"))
                continue
            if f.get("started") != f.get("finished") or f.get("late_output") != "0" or f.get("completion_before_finished") != "0" or f.get("reaped") != "1":
                res.oracle_failures.append(dict(base, what="processStarted/Finished unpaired, output after completion, completion before processFinished, or child not reaped", kind="event-order"))
            if f.get("finished") == "1" and f.get("finstatus") != st:
                res.oracle_failures.append(dict(base, what="processFinished reported %s but the completion %s" % (f.get("finstatus"), st), kind="status-disagree"))
            want = None
            if m["kind"] == "exit" or m["kind"] == "out":
                want = "Succeeded" if m["code"] == 0 else "Failed"
                if int(f["exit"]) != m["code"] << 8:
                    res.oracle_failures.append(dict(base, what="child exited %d but the wait status reported is %s" % (m["code"], f["exit"]), kind="exit-code"))
            elif m["kind"] == "sig":
                want = "Cancelled" if m["sig"] in CANCEL_SIGNALS else "Failed"
                if int(f["exit"]) & 0x7f != m["sig"]:
                    res.oracle_failures.append(dict(base, what="child killed itself with signal %d but the wait status reported is %s" % (m["sig"], f["exit"]), kind="exit-code"))
            elif m["kind"] == "noexe":
                want = "Failed"
                if f.get("pid_valid") != "0" or f.get("errors") != "1":
                    res.oracle_failures.append(dict(base, what="spawn error not reported as an error without a process", kind="spawn-error"))
            elif m["kind"] == "env":
                want = "Succeeded"
            if want and st != want:
                res.oracle_failures.append(dict(base, what="the child's real fate (%s) requires status %s, reported %s" % (line, want, st),
                                                kind="status", expected=want, got=st, op=line.split()[0] + (" " + line.split()[1] if m["kind"] == "sig" else "")))
            if m["kind"] == "out":
                data = pattern(m["n"], m["seed"])
                if int(f["outlen"]) != m["n"] or f["md5"] != hashlib.md5(data).hexdigest():
                    res.oracle_failures.append(dict(base, what="output not delivered completely and in order: %s of %d bytes, md5 %s" % (f["outlen"], m["n"], "differs" if int(f["outlen"]) == m["n"] else "n/a"),
                                                    kind="output"))
            if f.get("pid_valid") == "1":
                raw.append((i, f["exit"], st))
            if m["kind"] == "env":
                envs.append((i, line, f.get("env", ".")))
        # correspondence: classify on every raw status observed
        cl_lines = [r[1] for r in raw]
        if cl_lines:
            cmd, cwd = self.model_cmd("c16classify")
            p = subprocess.run(cmd, input=("\n".join(cl_lines) + "\n").encode(), stdout=subprocess.PIPE, stderr=subprocess.PIPE, cwd=cwd)
            mo = p.stdout.decode().split("\n")[:-1]
            if p.returncode == 0 and len(mo) == len(cl_lines):
                for (i, rs, st), mst in zip(raw, mo):
                    if st != mst and len(res.mismatches) < 20:
                        res.mismatches.append({"stream": "classify", "input": "%s -> wait status %s" % (lines[i], rs), "model": mst, "impl": st})
            elif ctx.model_ok:
                res.mismatches.append({"stream": "classify", "input": "model driver exit %d" % p.returncode, "model": p.stderr.decode()[-300:]})
        # environment: real envp vs model vs independent oracle
        self.check_envs(ctx, res, envs)
        res.evaluations += len(lines)
        res.distinct_nontrivial += len(lines)
        res.distribution["process_launches"] = len(lines)
        res.distribution["process_status"] = dist
        res.distribution["exit_codes"] = "0..255 exhaustive"
        res.distribution["signals"] = sigs
        res.distribution["output_volumes"] = vols[:12]
        res.samples.append({"launch": lines[3], "impl": hout[3]})

    def check_envs(self, ctx, res, envs):
        if not envs:
            return
        mlines = []
        for i, line, env in envs:
            _, inh, req, base, ctl = line.split()
            mlines.append("%s %s %s %s 42 30 54 43" % (inh, req, base, ctl))     # placeholders B, 0, T, C
        cmd, cwd = self.model_cmd("c16env")
        p = subprocess.run(cmd, input=("\n".join(mlines) + "\n").encode(), stdout=subprocess.PIPE, stderr=subprocess.PIPE, cwd=cwd)
        mo = p.stdout.decode().split("\n")[:-1]
        if (p.returncode != 0 or len(mo) != len(mlines)):
            if ctx.model_ok:
                res.mismatches.append({"stream": "env", "input": "model driver exit %d" % p.returncode, "model": p.stderr.decode()[-300:]})
            mo = None
        for n, (i, line, env) in enumerate(envs):
            real = [C.unhex(x) for x in env.split(",")] if env != "." else []
            want = self.env_oracle(line)
            bid = None
            ok = len(real) == len(want)
            canon = []
            for e, (k, v) in zip(real, want):
                rk, _, rv = e.partition(b"=")
                if v is None:                       # build id: any decimal number
                    ok &= rk == k and rv.isdigit()
                    bid = int(rv) if rv.isdigit() else None
                    canon.append(k + b"=B")
                elif v is Ellipsis and k == b"LLBUILD_TASK_ID":
                    ok &= rk == k and bid is not None and rv.lower() == (b"%x" % (((bid & 0xFFFF) << 32) + 1))
                    canon.append(k + b"=T")
                elif v is Ellipsis:
                    ok &= rk == k and rv.isdigit()
                    canon.append(k + b"=C")
                else:
                    ok &= rk == k and rv == v
                    canon.append(e)
            if not ok:
                res.oracle_failures.append({"what": "environment precedence: the child saw %s, the documented precedence gives %s" % (real, want),
                                            "call": "executeProcess environment", "kind": "env-precedence", "input": line})
            if mo is not None:
                mm = mo[n]
                ce = "env=" + (",".join(C.hexs(x) for x in canon) if canon else ".")
                if mm != ce and len(res.mismatches) < 20:
                    res.mismatches.append({"stream": "env", "input": line, "model": mm, "impl": ce})
        res.distribution["env_cases"] = len(envs)

    def run_cancel(self, ctx, res):
        rng = ctx.rng
        lines = []
        for _ in range(80 if ctx.thorough else 24):
            lines.append("%d %d %d 2000 0 1" % (1 + rng.below(8), 2 + rng.below(14), rng.choice([0, 0, 100, 300, 600, 1000, 2000, 5000])))
        lines.append("2 2 60000 5000 1 1")      # children ignore SIGINT: SIGKILL escalation
        if ctx.thorough:
            lines.append("2 2 60000 5000 0 0")  # canSafelyInterrupt = false: not interrupted, killed at the timeout
        _, hout = self.run_pair(ctx, res, "cancelrace", None, "cancelrace", lines, timeout=600)
        if hout is None:
            return
        starts = 0
        for line, o in zip(lines, hout):
            f = fields(o)
            n = line.split()[1]
            esc = line.split()[4] == "1" or line.split()[5] == "0"
            el = int(re.search(r"elapsed_ms=(\d+)", o).group(1))
            starts += int(re.search(r"real_starts=(\d+)", o).group(1))
            base = {"call": "cancelAllJobs racing executeProcess", "input": line, "line": o}
            if f["once"] != n or f["timeout"] != "0":
                res.oracle_failures.append(dict(base, what="completion callback did not fire exactly once per launch under cancellation", kind="completion-count"))
            if f["spawned_after_cancel"] != "0":
                res.oracle_failures.append(dict(base, what="a process was started after cancelAllJobs returned", kind="spawn-after-cancel"))
            if f["cancelled"] != n or f["not_reaped"] != "0" or f["unpaired"] != "0":
                res.oracle_failures.append(dict(base, what="a launch racing cancellation was not completed as Cancelled / not reaped (children sleep 2 s, cancellation comes within 60 ms)", kind="cancel-status"))
            if (not esc and el > 1500) or (esc and not (800 <= el <= 3000)):
                res.oracle_failures.append(dict(base, what="running children were not signalled at cancellation (elapsed %d ms)" % el, kind="cancel-signal"))
        res.evaluations += len(lines)
        res.distribution["cancel_races"] = len(lines)
        res.distribution["cancel_races_children_really_started"] = starts
        res.samples.append({"cancelrace": lines[0], "impl": hout[0]})
        # lane release over the control channel
        _, hout = self.run_pair(ctx, res, "lanerelease", None, "lanerelease", ["300"], timeout=120)
        if hout is not None:
            f = fields(hout[0])
            data = pattern(70000, 5)
            if f.get("completions") != "1" or f.get("status") != "Failed" or f.get("lane_released") != "1" or f.get("reaped") != "1" \
                    or f.get("md5") != hashlib.md5(data).hexdigest() or f.get("late_output") != "0":
                res.oracle_failures.append({"what": "released lane: completion once with the real status after all output, lane freed meanwhile — got " + hout[0],
                                            "call": "spawnProcess release", "kind": "lane-release", "input": "lanerelease 300"})
            res.evaluations += 1
        # F161: a poll() failure in the drain loop
        if True:
            rc, out, err = C.run_lines([ctx.exe[("vc16", "plain")], "pollfail"], [], timeout=60)
            f = fields(out[0]) if out else {}
            if f.get("completions") != "1" or f.get("started") != f.get("finished"):
                res.oracle_failures.append({"what": "poll() failed while draining the child's output: the completion callback fired %s times, processFinished %s times; the child is never reaped" % (f.get("completions"), f.get("finished")),
                                            "call": "spawnProcess", "kind": "poll-failure-no-completion", "input": "vc16 pollfail", "line": (out or [""])[0][:300]})
            res.evaluations += 1

    # ------------------------------------------------------------------------------------------
    # cancellation at every phase of every kind of child, then destruction of the queue
    # ------------------------------------------------------------------------------------------
    LONG = 5000          # ms: a child that can only end by a signal within the time the oracle allows
    ESC_DEADLINE = 1000  # ms: SIGKILL escalation under LLBUILD_TEST (the harness sets it)
    SLACK = 2000         # ms: scheduling slack granted on top of the deadline

    def gen_phase(self, rng, forced=None, raw=False):
        """one history: lanes, children (canSafelyInterrupt, ignored signals, lane release over the control channel, life time,
        exit code, output), the phase of one chosen child at which cancelAllJobs() is called, and the delay until the queue is
        destroyed.  `forced` = (trigger kind, released, unkillable by SIGINT) makes every class occur in every run."""
        LONG = self.LONG
        lanes = 1 + rng.below(3)
        k = 1 + rng.below(4)
        procs = []
        for i in range(k):
            safe = 0 if rng.chance(1, 3) else 1
            ign = rng.choice([0, 0, 1, 1, 2, 3])
            rel = rng.choice([-1, -1, 0, 0, 30, -2, -3])
            ctl = 0 if rng.chance(1, 8) else 1
            life = rng.choice([LONG, LONG, 0, 20, 100])
            code = rng.choice([0, 0, 3])
            out = rng.choice([0, 10, 5000, 70000])
            procs.append(dict(safe=safe, ign=ign, rel=rel, life=life, code=code, out=out, ctl=ctl, first=0, slowfin=30 if rng.chance(1, 6) else 0))
        kinds = ["start", "rel", "zombie", "done", "pre", "added", "never"]
        kind = forced[0] if forced else rng.choice(kinds + ["start", "rel", "rel"])
        # a launch can reach a phase only if it gets a lane: earlier children that hold a lane for LONG block it
        def startable(i):
            return sum(1 for q in procs[:i] if q["life"] == LONG and not (q["rel"] >= 0 and q["ctl"])) < lanes
        tgt = rng.below(min(k, lanes))
        t = procs[tgt]
        if kind == "start":
            t["life"] = LONG
            if forced:
                t["rel"] = -1
        elif kind == "rel":
            t["rel"], t["ctl"], t["life"] = rng.choice([0, 0, 30]), 1, LONG
        elif kind == "zombie":
            t["first"], t["out"], t["life"] = 1, rng.choice([10, 5000]), rng.choice([0, 20])
            t["rel"] = rng.choice([-1, 0])
            t["ctl"] = 1
        elif kind == "done":
            t["life"], t["rel"] = rng.choice([0, 20]), rng.choice([-1, -1, 0])
        if forced and kind in ("start", "rel"):
            t["safe"], t["ign"] = (0, rng.choice([0, 2])) if forced[2] == "unsafe" else (1, rng.choice([1, 3])) if forced[2] == "ignore" else (1, rng.choice([0, 2]))
        if kind == "never":
            for q in procs:
                if q["life"] == LONG:
                    q["life"] = rng.choice([50, 200])
        if not startable(tgt):      # cannot happen (tgt < lanes), kept as a guard for the generator
            kind = "added"
        trig = kind if kind in ("pre", "added", "never") else "%s:%d" % (kind, tgt)
        cdel = 0 if rng.chance(2, 3) else rng.choice([1, 5, 40])
        # "<d>": the queue is destroyed d ms after cancelAllJobs() returned and the escalation thread is parked in its wait;
        # "r<d>": d ms after it returned, wherever that thread is (F53: it may not have taken its mutex yet)
        ddel = "r%d" % rng.choice([0, 0, 0, 1]) if raw else str(rng.choice([0, 0, 0, 1, 5, 50, 300]))
        spec = ",".join("%(safe)d:%(ign)d:%(rel)d:%(life)d:%(code)d:%(out)d:%(ctl)d:%(first)d:%(slowfin)d" % q for q in procs)
        return "%d %s %d %s %s" % (lanes, trig, cdel, ddel, spec), procs

    def check_phase(self, res, line, procs, out, stats):
        """the property, restated for one history (nothing here is derived from what the code does):
        every job runs once within the lane limit; every launch completes exactly once, after its output, with the status of the
        child's real fate; nothing is spawned after cancelAllJobs() returned; a child that was running when the build was cancelled
        is signalled (SIGINT if it may be interrupted, SIGKILL at the latest at the escalation deadline or when the queue is
        destroyed), reported Cancelled and reaped before the queue's destructor returns."""
        f = fields(out)
        base = {"call": "cancelAllJobs / ~LaneBasedExecutionQueue at a chosen phase", "input": "vc16 cancelphase <<< '%s'" % line, "line": out[:600]}
        fails, obs = [], []
        fail = lambda what, kind, **kw: fails.append(dict(base, what=what, kind=kind, **kw))
        lanes, trig = int(line.split()[0]), line.split()[1]
        tk = trig.split(":")[0]
        if out.startswith("bad-op") or "trig_hit" not in f:
            res.mismatches.append({"stream": "cancelphase", "input": line, "impl": out[:200]})
            return fails, None
        if f["trig_hit"] != "1":
            stats["phase_missed"] += 1
        if f["timeout"] != "0":
            fail("a launch never completed (no completion within 8 s after the queue was destroyed)", "completion-count", phase=tk)
        if int(f["peak"]) > lanes:
            fail("%s jobs in flight on %d lanes" % (f["peak"], lanes), "lane-bound", phase=tk)
        if f["jobs_started"] != str(len(procs)) or f["jobs_finished"] != str(len(procs)):
            fail("queueJobStarted/Finished %s/%s for %d jobs" % (f["jobs_started"], f["jobs_finished"], len(procs)), "delegate-pairing", phase=tk)
        cancelled = f["cancel_at"] != "-1"
        c = int(f["cancel_at"])
        for i, q in enumerate(procs):
            v = f.get("p%d" % i, "").split(":")
            if len(v) != 18:
                res.mismatches.append({"stream": "cancelphase", "input": line, "impl": out[:200]})
                return fails, None
            ncomp, st, raw, started, finished, finst, pidv, late, cbf, gone, runs, released = v[0], v[1], int(v[2]), v[3], v[4], v[5], v[6] == "1", v[7], v[8], v[9], v[10], v[11] == "1"
            t_start, t_done, after_cancel, after_destroy, outlen, md5 = int(v[12]), int(v[13]), v[14], v[15], int(v[16]), v[17]
            who = dict(child=i, phase=tk, safe=q["safe"], ignores=q["ign"], released=int(released))
            desc = "child %d (canSafelyInterrupt=%d, ignores mask %d, %s)" % (i, q["safe"], q["ign"], "lane released" if released else "lane held")
            if runs != "1":
                fail("job %d ran %s times" % (i, runs), "job-count", **who)
            if ncomp != "1":
                fail("the completion callback of %s fired %s times" % (desc, ncomp), "completion-count", **who)
                continue
            if started != finished or late != "0" or cbf != "0":
                fail("%s: processStarted/Finished unpaired (%s/%s), output after completion (%s) or completion before processFinished (%s)" % (desc, started, finished, late, cbf), "event-order", **who)
            if finished == "1" and finst != st:
                fail("%s: processFinished reported %s but the completion %s" % (desc, finst, st), "status-disagree", **who)
            if after_cancel != "0":
                fail("%s was started after cancelAllJobs() returned" % desc, "spawn-after-cancel", **who)
            if after_destroy == "1":
                stats["completed_after_destructor"] += 1
                fail("the completion callback of %s fired %d ms after the queue's destructor had returned (the detached waiter of a released lane outlives the queue and still uses it)"
                     % (desc, t_done - int(f["destroy_at"]) - int(f["destroy_ms"])), "completion-after-destructor", **who)
            obs.append(dict(i=i, spawned=pidv and ncomp == "1", raw=raw, released=released, t_start=t_start, t_done=t_done, running_long=False))
            if not pidv:
                stats["refused"] += 1
                if not cancelled or st != "Cancelled" or t_done < c:
                    fail("%s was not spawned and completed %s although the build was %s" % (desc, st, "cancelled later" if cancelled else "never cancelled"), "refused-without-cancel", **who)
                continue
            if gone != "1":
                fail("%s was still alive / not reaped when the queue's destructor returned" % desc, "outlives-queue", **who)
            sig, exited = raw & 0x7f, (raw & 0x7f) == 0
            want = ("Succeeded" if raw == 0 else "Failed") if exited else ("Cancelled" if sig in CANCEL_SIGNALS else "Failed")
            if st != want:
                fail("%s: wait status %d requires %s, reported %s" % (desc, raw, want, st), "status", expected=want, got=st, **who)
            allowed = [q["code"] << 8] + ([9] if cancelled else []) + ([2] if cancelled and q["safe"] else [])
            if raw not in allowed:
                fail("%s ended with wait status %d; it exits %d by itself%s" % (desc, raw, q["code"], " or is interrupted / killed by the cancellation" if cancelled else ""), "exit-code", **who)
            stats["fate"]["exit" if exited else "sig%d" % sig] = stats["fate"].get("exit" if exited else "sig%d" % sig, 0) + 1
            own_end = t_start + max(q["rel"], 0) + q["life"]       # when the child would end by itself
            if cancelled and own_end > c + self.ESC_DEADLINE + self.SLACK + 500:
                # the child was running when the build was cancelled and would have kept running beyond the escalation deadline
                stats["running_at_cancel"] += 1
                obs[-1]["running_long"] = True
                stats["released_at_cancel"] += 1 if (released and q["rel"] >= 0) else 0
                needs_kill = (not q["safe"]) or ((q["ign"] & 1) and released)
                stats["needs_sigkill"] += 1 if needs_kill else 0
                if st != "Cancelled" or exited:
                    fail("%s was running when cancelAllJobs() was called (phase %s) and would have run %d ms more; it was not signalled: wait status %d, reported %s after %d ms"
                         % (desc, trig, own_end - c, raw, st, t_done - c), "cancelled-child-status", got=st, **who)
                elif needs_kill and sig != 9:
                    fail("%s cannot be ended by SIGINT but its wait status is %d" % (desc, raw), "escalation", **who)
                if t_done - c > self.ESC_DEADLINE + self.SLACK:
                    fail("%s completed %d ms after cancelAllJobs(): no SIGKILL at the escalation deadline (%d ms) / at destruction" % (desc, t_done - c, self.ESC_DEADLINE), "escalation-late", **who)
            if exited:
                data = pattern(q["out"], 1000003 * (i + 1))
                if outlen != q["out"] or md5 != hashlib.md5(data).hexdigest():
                    fail("%s exited by itself but its output was not delivered completely and in order before the completion: %d of %d bytes" % (desc, outlen, q["out"]), "output", **who)
            elif outlen > q["out"]:
                fail("%s: more output delivered (%d) than written (%d)" % (desc, outlen, q["out"]), "output", **who)
        if cancelled and int(f["destroy_at"]) + int(f["destroy_ms"]) - c > self.ESC_DEADLINE + self.SLACK + max([0] + [q["life"] + max(q["rel"], 0) for q in procs if q["life"] != self.LONG]):
            fail("the queue's destructor returned %d ms after cancelAllJobs()" % (int(f["destroy_at"]) + int(f["destroy_ms"]) - c), "destructor-late", phase=tk)
        ok = f["trig_hit"] == "1" and f["timeout"] == "0" and cancelled
        return fails, (dict(c=c, children=obs) if ok else None)

    def esc_acts(self, procs, o):
        """the history as a schedule of the model `Esc` (released lanes, escalation thread, destructor), for histories in which the
        escalation thread was parked before the queue was destroyed.  Who is still registered at the kill round follows from the
        SPEC for children that can only end by a signal (running at the cancellation for longer than the deadline: reaped before
        the round iff SIGINT reaches and ends them), from the observed fate for short-lived ones."""
        ch = [x for x in o["children"] if x["spawned"]]
        pid = {x["i"]: n + 1 for n, x in enumerate(ch)}
        acts = ["spawn"] * len(ch)
        acts += ["rel:%d" % pid[x["i"]] for x in ch if x["released"]]
        acts += ["reap:%d" % pid[x["i"]] for x in ch if x["t_done"] < o["c"]]
        acts += ["cancel", "enter"]
        early, remaining = [], []
        for x in ch:
            if x["t_done"] < o["c"]:
                continue
            q = procs[x["i"]]
            if x["running_long"] and not ((q["ign"] & 1) and q["safe"] and not x["released"]):
                dies_of_sigint = bool(q["safe"]) and not (q["ign"] & 1)
            else:
                dies_of_sigint = x["raw"] != 9          # short-lived / may have been hit before it ignored the signal: as observed
            (early if dies_of_sigint else remaining).append(x)
        acts += ["reap:%d" % pid[x["i"]] for x in early]
        if any(not x["released"] for x in remaining):
            acts += ["wake"] + ["reap:%d" % pid[x["i"]] for x in remaining] + ["joinlanes", "complete", "joinesc"]
        else:
            acts += ["joinlanes", "complete", "wake"] + ["reap:%d" % pid[x["i"]] for x in remaining] + ["joinesc"]
        killed_impl = sorted(pid[x["i"]] for x in ch if x["raw"] == 9)
        return ",".join(acts), "ok=1 joined=1 waited=1 registered=. killed=%s" % (",".join(str(k) for k in killed_impl) or ".")

    def run_parallel(self, ctx, hmode, lines, workers=8, timeout=600):
        """the same harness binary, `workers` processes, line i goes to process i % workers (queues of different histories never
        share a process at the same time: descriptors and process groups stay separate)"""
        outs = [None] * workers
        def w(j):
            try:
                outs[j] = C.run_lines([ctx.exe[("vc16", "plain")], hmode], lines[j::workers], timeout=timeout)
            except subprocess.TimeoutExpired:
                outs[j] = (-9, [], "timeout")
        ths = [threading.Thread(target=w, args=(j,)) for j in range(workers)]
        for t in ths:
            t.start()
        for t in ths:
            t.join()
        res = [None] * len(lines)
        for j in range(workers):
            rc, o, err = outs[j]
            mine = lines[j::workers]
            for n in range(len(mine)):
                res[j + n * workers] = o[n] if n < len(o) else ("HANG" if rc == -9 else "bad-op harness exit %d %s" % (rc, err[-100:]))
        return res

    def tree_flag(self, name):
        """a boolean the extractor wrote for the tree under test (escalatesWhenComplete = F53, destructorWaitsForBackgroundTasks =
        F54); only used to decide whether a confirmed, not yet repaired defect is counted or required to be absent"""
        try:
            with open(os.path.join(C.LEAN, "LLBuild", "Generated", "LaneQueue.lean")) as f:
                return re.search(r"def %s : Bool := true" % name, f.read()) is not None
        except OSError:
            return False

    def listed(self, kind):
        return any(k.get("match", {}).get("kind") == kind for k in C.load_known("C16"))

    def run_phases(self, ctx, res):
        rng = C.Rng(ctx.seed, "C16/phases")
        cases = []
        # every phase x (lane held / released) x (interruptible / canSafelyInterrupt=false / ignores SIGINT) occurs in every run
        for kind in ("start", "rel"):
            for how in ("plain", "unsafe", "ignore"):
                for _ in range(3 if ctx.thorough else 2):
                    cases.append(self.gen_phase(rng, (kind, None, how)) + (False,))
        for kind in ("zombie", "done", "pre", "added", "never"):
            for _ in range(4 if ctx.thorough else 2):
                cases.append(self.gen_phase(rng, (kind, None, None)) + (False,))
        for _ in range(500 if ctx.thorough else 74):
            cases.append(self.gen_phase(rng) + (False,))
        # the queue destroyed right after cancelAllJobs() returned, without waiting for the escalation thread to park
        for n in range(40 if ctx.thorough else 6):
            cases.append(self.gen_phase(rng, ("rel", None, "unsafe" if n % 2 else "ignore"), raw=True) + (True,))
        strict_raw = self.tree_flag("escalatesWhenComplete") or self.listed("escalation-skipped-destroy-race")
        strict_life = self.tree_flag("destructorWaitsForBackgroundTasks") or self.listed("completion-after-destructor")
        lines = [c[0] for c in cases]
        outs = self.run_parallel(ctx, "cancelphase", lines, workers=12, timeout=900)
        stats = {"phase_missed": 0, "completed_after_destructor": 0, "refused": 0, "running_at_cancel": 0, "released_at_cancel": 0,
                 "needs_sigkill": 0, "fate": {}}
        race = {"histories": 0, "escalation_skipped": 0, "required": strict_raw}
        esc_lines, esc_want, esc_src = [], [], []
        for (line, procs, raw), o in zip(cases, outs):
            if o == "HANG":
                res.oracle_failures.append({"what": "the real code hung on a cancelphase history (no result within the time limit)", "call": "cancelphase", "kind": "hang",
                                            "input": "vc16 cancelphase <<< '%s'" % line})
                continue
            fails, ob = self.check_phase(res, line, procs, o, stats)
            if raw:
                # F53: without the fix the thread may find queueComplete set and return without its kill round
                race["histories"] += 1
                sig = [x for x in fails if x["kind"] in ("cancelled-child-status", "escalation-late", "destructor-late")]
                race["escalation_skipped"] += 1 if sig else 0
                for x in sig:
                    x["kind"], x["race"] = "escalation-skipped-destroy-race", "queue destroyed before the escalation thread took queueCompleteMutex"
                if not strict_raw:
                    fails = [x for x in fails if x not in sig]
            if not strict_life:          # F54, confirmed (ASan: use after free of backgroundTaskCount), counted until the repair is in the tree
                fails = [x for x in fails if x["kind"] != "completion-after-destructor"]
            res.oracle_failures.extend(fails)
            if ob is not None and not raw:
                a, w = self.esc_acts(procs, ob)
                esc_lines.append(a)
                esc_want.append(w)
                esc_src.append(line)
        # correspondence: the model of released lanes / escalation thread / destructor predicts who gets the kill round
        if esc_lines:
            cmd, cwd = self.model_cmd("c16esc")
            p = subprocess.run(cmd, input=("\n".join(esc_lines) + "\n").encode(), stdout=subprocess.PIPE, stderr=subprocess.PIPE, cwd=cwd)
            mo = p.stdout.decode().split("\n")[:-1]
            if p.returncode == 0 and len(mo) == len(esc_lines):
                for a, w, m, src in zip(esc_lines, esc_want, mo, esc_src):
                    if m != w and len(res.mismatches) < 20:
                        res.mismatches.append({"stream": "esc", "input": "vc16 cancelphase <<< '%s'  (model schedule: %s)" % (src, a), "model": m, "impl": w})
            elif ctx.model_ok:
                res.mismatches.append({"stream": "esc", "input": "model driver exit %d" % p.returncode, "model": p.stderr.decode()[-300:]})
        trig = {}
        for l in lines:
            k = l.split()[1].split(":")[0]
            trig[k] = trig.get(k, 0) + 1
        res.evaluations += len(lines)
        res.distinct_nontrivial += sum(1 for l in lines if l.split()[1] != "never")
        res.distribution["cancelphase_histories"] = len(lines)
        res.distribution["cancelphase_by_phase"] = trig
        res.distribution["cancelphase_children"] = sum(len(c[1]) for c in cases)
        res.distribution["cancelphase_destroy_immediately_after_cancel"] = sum(1 for l in lines if l.split()[3] in ("0", "r0") and l.split()[1] != "never")
        res.distribution["cancelphase_stats"] = stats
        res.distribution["cancelphase_model_schedules_compared"] = len(esc_lines)
        res.distribution["cancelphase_destroy_race_F53"] = race
        res.distribution["cancelphase_completion_after_destructor_F54"] = {"children": stats["completed_after_destructor"], "required_absent": strict_life}
        res.samples.append({"cancelphase": lines[0], "impl": outs[0][:400]})

    # ------------------------------------------------------------------------------------------
    def correspond(self, ctx, res):
        self.run_mixes(ctx, res)
        self.run_order(ctx, res)
        self.run_serial(ctx, res)
        self.run_procs(ctx, res)
        self.run_cancel(ctx, res)
        self.run_phases(ctx, res)
        res.rule = ("lane queue: seeded job mixes (1-24 jobs, durations 0-5 ms, priorities, jobs adding jobs before/after their work, 1-8 lanes, cancellation from "
                    "a job or from outside) through the real queue vs the model under a seeded random interleaving, comparing schedule-independent projections; "
                    "one-lane gated runs compare the exact pop order; serial queue likewise; processes: every exit code 0..255, every fatal signal by self-kill, "
                    "output volumes up to beyond the pipe buffer compared by md5 in order, early descriptor close, lane release, spawn errors, environment "
                    "assembly, cancellation racing spawn, SIGKILL escalation, injected poll() failure; cancelphase: histories of 1-4 children on 1-3 lanes "
                    "(canSafelyInterrupt true/false, SIGINT/SIGTERM ignored, lane released over the control channel at once / later / with a wrong id / wrong protocol, "
                    "control channel disabled, life time short or beyond the escalation deadline, output 0-70000 bytes) with cancelAllJobs() from a foreign thread at a chosen "
                    "phase of a chosen child (before any job, after the last addJob, child running, lane released, child exited but not reaped, launch completed) or never, and the "
                    "queue destroyed 0-300 ms later, checked against the property per child (once, status = real fate, running children signalled / SIGKILLed / reaped before the "
                    "destructor returns, nothing spawned after the cancellation) and against the Esc model's kill set. Non-trivial = mixes with >= 2 jobs, orders with >= 3 jobs, every process launch.")
        res.exhaustive = False

    def search(self, ctx, res, why):
        return


CHECK = Check()
