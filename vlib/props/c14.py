"""C14 — stale-file removal deletes exactly the obsolete outputs inside the allowed roots."""
import itertools, os
from .. import common as C
from ..runner import PropertyCheck

SEP = 0x2f


def under(root, p):
    """The component-wise specification, written independently of the Lean model (python oracle)."""
    rc = root[:-1] if root.endswith(b"/") else root
    if not p.startswith(rc):
        return False
    rest = p[len(rc):]
    return rest == b"" or rest[0] == SEP


def strings(alpha, maxlen):
    out = [b""]
    for n in range(1, maxlen + 1):
        for t in itertools.product(alpha, repeat=n):
            out.append(bytes(t))
    return out


class Check(PropertyCheck):
    prop = "C14"
    module = "LLBuild.Props.C14"
    theorems = ["LLBuild.StalePath.C14_set_difference", "LLBuild.StalePath.C14_prefix_sound",
                "LLBuild.StalePath.C14_prefix_complete", "LLBuild.StalePath.C14_prefix_iff",
                "LLBuild.StalePath.C14_trailing_separator_agnostic", "LLBuild.StalePath.C14_removes_exactly"]
    extractors = ["x_pathseps"]
    harnesses = [("vpure", "plain"), ("vbs", "plain")]
    assumptions = [
        "hand model of pathIsPrefixedByPath / computeFilesToDelete / the execute loop, tied by correspondence (exhaustive over a small path alphabet + seeded byte strings)",
        "FileSystem::remove removes a directory with everything beneath it (not modelled; the check observes which paths are passed to remove())",
        "history clause (prior list = expected list of the previous successful run) rests on the engine prior-value protocol (C06) and the database (C03)",
    ]
    trusted_base = ["extractor x_pathseps (separator set)", "correspondence harness vpure:c14prefix, vbs:c14run",
                    "python oracle `under` (independent restatement of the specification)"]

    def prefix_pairs(self, ctx):
        pairs = []
        if ctx.thorough:
            s1 = strings(b"/ab. ", 4)
            s2 = strings(b"/a", 7)
        else:
            s1 = strings(b"/ab", 4)
            s2 = strings(b"/a", 5)
        for ss in (s1, s2):
            for p in ss:
                for r in ss:
                    pairs.append((p, r))
        exhaustive = len(pairs)
        # seeded: arbitrary bytes with shared prefixes / trailing separators
        rng = ctx.rng
        n = 200000 if ctx.thorough else 20000
        alpha = [SEP, SEP, 0x61, 0x62, 0x2e, 0x20, 0x00, 0xff, 0x5c, 0x80]
        for _ in range(n):
            base = rng.bytes_from(alpha, 8)
            k = rng.below(6)
            if k == 0:
                p, r = base, base + b"/"
            elif k == 1:
                p, r = base + b"/" + rng.bytes_from(alpha, 4), base + (b"/" if rng.chance(1, 2) else b"")
            elif k == 2:
                p, r = base + rng.bytes_from(alpha, 3), base
            elif k == 3:
                p, r = base, base + rng.bytes_from(alpha, 3)
            elif k == 4:
                p, r = base + b"//" + rng.bytes_from(alpha, 3), base + (b"/" if rng.chance(1, 2) else b"")
            else:
                p, r = rng.bytes_from(alpha, 8), rng.bytes_from(alpha, 8)
            pairs.append((p, r))
        return pairs, exhaustive

    def run_prefix(self, ctx, res, pairs):
        lines = ["%s %s" % (C.hexs(p), C.hexs(r)) for p, r in pairs]
        (mrc, mout, merr), (hrc, hout, herr) = C.run_both("c14prefix", ctx.exe[("vpure", "plain")], "c14prefix", lines)
        if hrc != 0 or len(hout) != len(lines):
            res.mismatches.append({"stream": "c14prefix", "input": "harness exit %d, %d/%d lines" % (hrc, len(hout), len(lines)), "impl": herr[-300:]})
            return
        model_ok = mrc == 0 and len(mout) == len(lines)
        if ctx.model_ok and not model_ok:
            res.mismatches.append({"stream": "c14prefix", "input": "model driver exit %d" % mrc, "model": merr[-300:]})
        nontriv = 0
        for i, (p, r) in enumerate(pairs):
            impl = hout[i] == "1"
            spec = under(r, p)
            if spec:
                nontriv += 1
            if impl != spec:
                kind = "incomplete" if spec else "unsound"
                res.oracle_failures.append({
                    "what": "pathIsPrefixedByPath(path, root) = %s but the path %s at or beneath the root" % (impl, "lies" if spec else "does not lie"),
                    "call": "pathIsPrefixedByPath", "kind": kind, "root_has_trailing_sep": r.endswith(b"/"),
                    "path_longer_than_root": len(p) > len(r),
                    "input": {"path_hex": C.hexs(p), "root_hex": C.hexs(r), "path": repr(p), "root": repr(r)}})
            if model_ok and mout[i] != hout[i] and len(res.mismatches) < 20:
                res.mismatches.append({"stream": "c14prefix", "input": lines[i], "model": mout[i], "impl": hout[i]})
        res.evaluations += len(pairs)
        res.distribution["prefix_pairs"] = len(pairs)
        res.distribution["prefix_pairs_accepted_by_spec"] = nontriv
        res.distinct_nontrivial += nontriv

    def triples(self, ctx, n):
        rng = ctx.rng
        comps = [b"a", b"b", b".", b"a b", b"ab", b""]
        out = []

        def path():
            k = rng.below(10)
            parts = [rng.choice(comps) for _ in range(rng.below(4))]
            s = b"/".join(parts)
            if k < 7:
                s = b"/" + s
            if k == 9:
                s = s + b"/"
            return s
        for _ in range(n):
            pool = [path() for _ in range(2 + rng.below(5))]
            prior = [rng.choice(pool) for _ in range(rng.below(6))]
            expected = [rng.choice(pool) for _ in range(rng.below(4))]
            roots = []
            if rng.chance(3, 4):
                for _ in range(1 + rng.below(2)):
                    r = rng.choice(pool) if rng.chance(1, 2) else b"/" + rng.choice(comps)
                    if rng.chance(1, 3):
                        r = r + b"/"
                    roots.append(r)
            out.append((prior, expected, roots))
        return out

    def run_triples(self, ctx, res, triples):
        hl = lambda l: ",".join(C.hexs(x) for x in l) if l else "."
        lines = ["%s %s %s" % (hl(a), hl(b), hl(c)) for a, b, c in triples]
        scratch = os.path.join(C.BUILD, "scratch")
        os.makedirs(scratch, exist_ok=True)
        import threading
        r = {}
        t1 = threading.Thread(target=lambda: r.__setitem__("m", C.run_lines([C.model_exe(), "c14run"], lines)))
        t2 = threading.Thread(target=lambda: r.__setitem__("h", C.run_lines([ctx.exe[("vbs", "plain")], "c14run", scratch], lines)))
        t1.start(); t2.start(); t1.join(); t2.join()
        (mrc, mout, merr), (hrc, hout, herr) = r["m"], r["h"]
        if hrc != 0 or len(hout) != len(lines):
            res.mismatches.append({"stream": "c14run", "input": "harness exit %d, %d/%d lines" % (hrc, len(hout), len(lines)), "impl": herr[-300:]})
            return
        model_ok = mrc == 0 and len(mout) == len(lines)
        nontriv = 0
        kinds = {"R": 0, "WR": 0, "WO": 0}
        for i, (prior, expected, roots) in enumerate(triples):
            line = hout[i]
            if model_ok and mout[i] != line and len(res.mismatches) < 20:
                res.mismatches.append({"stream": "c14run", "input": lines[i], "model": mout[i], "impl": line})
            # oracle on the implementation's own output
            if not line.startswith("value="):
                res.oracle_failures.append({"what": "stale-file-removal build did not succeed: " + line, "call": "c14run", "input": lines[i]})
                continue
            acts = line.split(" acts=")[1]
            removed = []
            for a in ([] if acts == "." else acts.split(",")):
                k, _, h = a.partition(":")
                kinds[k] = kinds.get(k, 0) + 1
                if k == "R":
                    removed.append(C.unhex(h))
            want = sorted({p for p in prior if p not in expected and
                           (not roots or (p[:1] == b"/" and any(under(r_, p) for r_ in roots)))})
            if want:
                nontriv += 1
            if sorted(removed) != want:
                extra = [p for p in removed if p not in want]
                missing = [p for p in want if p not in removed]
                res.oracle_failures.append({
                    "what": "stale-file-removal removed %s; obsolete outputs inside the roots are %s" % (sorted(removed), want),
                    "call": "StaleFileRemovalCommand::execute", "kind": "unsafe" if extra else "incomplete",
                    "input": {"prior": [repr(x) for x in prior], "expected": [repr(x) for x in expected],
                              "roots": [repr(x) for x in roots], "line": lines[i]}})
        res.evaluations += len(triples)
        res.distinct_nontrivial += nontriv
        res.distribution["removal_triples"] = len(triples)
        res.distribution["removal_triples_with_nonempty_removal"] = nontriv
        res.distribution["actions"] = kinds
        res.samples.append({"triple": lines[0], "impl": hout[0]})

    def correspond(self, ctx, res):
        pairs, exhaustive = self.prefix_pairs(ctx)
        self.run_prefix(ctx, res, pairs)
        self.run_triples(ctx, res, self.triples(ctx, 3000 if ctx.thorough else 300))
        res.rule = ("prefix predicate: every pair over small path alphabets up to a length bound (exhaustive part: %d pairs) plus seeded "
                    "byte-string pairs with shared prefixes/trailing/doubled separators; removal loop: seeded (prior, expected, roots) triples "
                    "through the real BuildSystem with a recording FileSystem. Non-trivial = the specification accepts the pair / the triple has a non-empty removal set." % exhaustive)
        res.exhaustive = False
        res.samples.append({"pair": [repr(pairs[len(pairs) // 2][0]), repr(pairs[len(pairs) // 2][1])]})

    def search(self, ctx, res, why):
        # the exhaustive part of correspond() already is the directed search for this property
        return


CHECK = Check()
