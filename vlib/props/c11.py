"""C11 — discovered dependencies: escaping round-trip, relative-path resolution, malformed file fails the command;
and the dependency-parser half of C19 (no crash / hang / over-read for ANY byte string).

Reusable entry points (a combined C19 check calls them too):
    corr_makedeps(ctx, res), corr_depinfo(ctx, res)      differential correspondence + oracles, ASan/UBSan harness
    corr_resolve(ctx, res), corr_buildsystem(ctx, res)   C11 only
"""
import itertools, os, subprocess, tempfile
from .. import common as C
from ..runner import PropertyCheck

HARNESS = "vc11"
SPECIAL = [0x20, 0x23, 0x5c, 0x24, 0x3a]            # space # \ $ :
# every character special to the format + ordinary, high and odd bytes
PATH_ALPHA = SPECIAL + [0x61, 0x62, 0x2f, 0x2e, 0x2d, 0x25, 0x22, 0x27, 0x3d, 0x7e, 0x28, 0x7b, 0x80, 0xff, 0x01, 0x7f]
INEXPRESSIBLE = [0x00, 0x09, 0x0a, 0x0d]            # NUL TAB LF CR (LF absolutely; the others unless preceded by a backslash)
SEPS = [b" ", b" \\\n  ", b" \\\r\n "]


# ------------------------------------------------------------------------------------------------
# the documented escaping, written independently of the Lean model
# ------------------------------------------------------------------------------------------------
def escape(p):
    out = bytearray()
    for c in p:
        if c in (0x20, 0x23, 0x5c):
            out += bytes([0x5c, c])
        elif c == 0x24:
            out += b"$$"
        else:
            out.append(c)
    return bytes(out)


def mk_rule(target, deps, crlf):
    return escape(target) + b":" + b"".join(SEPS[s] + escape(d) for s, d in deps) + (b"\r\n" if crlf else b"\n")


def mk_file(rules):
    return b"".join(mk_rule(t, d, c) for t, d, c in rules)


def expected_events(rules, ign=False):
    ev = []
    for t, deps, _ in (rules[:1] if ign else rules):
        ev.append(("S", t))
        ev += [("D", d) for _, d in deps]
        ev.append(("E",))
    return ev


def parse_md_line(line):
    """canonical harness/model line -> list of events (raw spellings dropped) ; None if not an action stream"""
    if line == ".":
        return []
    ev = []
    for a in line.split(";"):
        f = a.split(":")
        if f[0] in ("S", "D") and len(f) == 3:
            if f[1].startswith("OUTSIDE"):
                return None
            ev.append((f[0], C.unhex(f[2])))
        elif f[0] == "E" and len(f) == 1:
            ev.append(("E",))
        elif f[0] == "X" and len(f) == 3:
            ev.append(("X", f[1], int(f[2])))
        else:
            return None
    return ev


def resolve_spec(wd, p):
    """working-directory semantics, stated directly (paths not starting with `//`)."""
    if p.startswith(b"/"):
        return p
    return wd + (b"" if wd.endswith(b"/") else b"/") + p


# ------------------------------------------------------------------------------------------------
# running the implementation so that an abort / hang is attributed to exactly one input
# ------------------------------------------------------------------------------------------------
SAN_ENV = {"ASAN_OPTIONS": "detect_leaks=0:abort_on_error=0:allocator_may_return_null=1", "UBSAN_OPTIONS": "print_stacktrace=0"}


def run_attributed(cmd, lines, watchdog=120, env=None):
    """Feed `lines`; the harness flushes one line per op, so when the process dies (sanitizer report, signal) or the
    watchdog fires, the op after the last complete output line is the culprit: it gets 'ABORT ...' / 'HANG' and the
    run resumes after it.  Returns (outputs, n_restarts)."""
    out = []
    i = 0
    restarts = 0
    e = dict(os.environ)
    e.update(SAN_ENV)
    if env:
        e.update(env)
    os.makedirs(os.path.join(C.BUILD, "scratch"), exist_ok=True)
    while i < len(lines):
        with tempfile.TemporaryDirectory(dir=os.path.join(C.BUILD, "scratch")) as td:
            fi, fo, fe = (os.path.join(td, n) for n in ("in", "out", "err"))
            with open(fi, "w") as f:
                f.write("\n".join(lines[i:]) + "\n")
            timed_out = False
            with open(fi) as si, open(fo, "w") as so, open(fe, "w") as se:
                p = subprocess.Popen(cmd, stdin=si, stdout=so, stderr=se, env=e)
                try:
                    p.wait(timeout=watchdog)
                except subprocess.TimeoutExpired:
                    p.kill()
                    p.wait()
                    timed_out = True
            data = open(fo, errors="replace").read()
            got = data.split("\n")
            got.pop()  # text after the last newline is an incomplete line (or empty)
            got = got[:len(lines) - i]
            out += got
            i += len(got)
            if i < len(lines):
                err = open(fe, errors="replace").read()
                if timed_out:
                    out.append("HANG watchdog=%ds" % watchdog)
                else:
                    summ = ""
                    for l in err.split("\n"):
                        if "ERROR: AddressSanitizer" in l or "runtime error" in l or "SUMMARY" in l:
                            summ = l.strip()[:300]
                            if "SUMMARY" in l:
                                break
                    where = ""
                    for l in err.split("\n"):
                        if l.strip().startswith("#0 ") or l.strip().startswith("#1 "):
                            if "/lib/" in l:
                                where = l.strip().split(" in ", 1)[-1][:200]
                                break
                    out.append("ABORT rc=%s %s | %s" % (p.returncode, summ, where))
                i += 1
                restarts += 1
    return out, restarts


_MODEL_CACHE = {}


def model_cmd(mode):
    """[exe, mode] for the Lean model driver.  After integration the shared `llbuild-model` knows the C11 modes; until
    then (exit status 2 = unknown mode) a private driver with only these modes is compiled into the build directory."""
    exe = C.model_exe()
    if "exe" not in _MODEL_CACHE:
        known = False
        if os.path.exists(exe):
            p = subprocess.run([exe, mode], input=b"", stdout=subprocess.PIPE, stderr=subprocess.PIPE)
            known = p.returncode == 0
        if not known:
            exe = build_private_driver()
        _MODEL_CACHE["exe"] = exe
    return [_MODEL_CACHE["exe"], mode]


def build_private_driver():
    d = os.path.join(C.BUILD, "drv")
    os.makedirs(d, exist_ok=True)
    ok, out = C.lake_build(["LLBuild.Drv.C11"])
    if not ok:
        C.log(out[-2000:])
        return os.path.join(d, "missing-model-driver")
    src = os.path.join(d, "DriverC11.lean")
    txt = open(os.path.join(C.LEAN, "Driver.lean")).read()
    import re
    txt = re.sub(r"^import LLBuild\.Drv\.(?!Common)\w+\n", "", txt, flags=re.M)
    txt = txt.replace("import LLBuild.Drv.Common\n", "import LLBuild.Drv.Common\nimport LLBuild.Drv.C11\n")
    txt = re.sub(r"def allModes : List \(String × Mode\) :=\n(?:  .*\n)+", "def allModes : List (String × Mode) :=\n  LLBuild.Drv.C11.modes\n", txt)
    with open(src, "w") as f:
        f.write(txt)
    exe = os.path.join(d, "llbuild-model-c11")
    ir = os.path.join(C.LEAN, ".lake", "build", "ir", "LLBuild")
    mods = ["Model/Bytes", "Model/MakeDeps", "Model/DepInfo", "Generated/DepsTables", "Drv/Common", "Drv/C11"]
    rc, o = C.run(["lake", "env", "lean", "--root=" + d, "-c", os.path.join(d, "DriverC11.c"), src], cwd=C.LEAN)
    if rc == 0:
        rc, o = C.run(["lake", "env", "leanc", "-O2", "-o", exe, os.path.join(d, "DriverC11.c")] +
                      [os.path.join(ir, m + ".c") for m in mods], cwd=C.LEAN)
    if rc != 0:
        C.log(o[-2000:])
        return os.path.join(d, "missing-model-driver")
    return exe


def run_model(mode, lines):
    try:
        return C.run_lines(model_cmd(mode), lines)
    except OSError as e:
        return 127, [], str(e)


# ------------------------------------------------------------------------------------------------
# generators
# ------------------------------------------------------------------------------------------------
def gen_rules(rng, k):
    """k-th valid file: stratified so that every special character, every separator kind, CRLF, single and multiple
    rules all occur for every seed."""
    nrules = 1 + (k % 3)
    rules = []
    for r in range(nrules):
        tgt_alpha = [c for c in PATH_ALPHA if c != 0x3a]
        target = rng.bytes_from(tgt_alpha, 6, 1)
        if (k + r) % 5 == 0:
            target = bytes([SPECIAL[(k // 5) % 4]]) + target          # a special character first (never ':')
        deps = []
        for j in range(rng.below(5) if k % 7 else 0):
            p = rng.bytes_from(PATH_ALPHA, 8, 1)
            if p[0] == 0x3a:
                p = b"/" + p
            if (k + j) % 4 == 0:
                p = p + bytes([SPECIAL[(k + j) // 4 % 5]])            # a special character last (':' included)
            deps.append(((k + j + r) % 3, p))
        rules.append((target, deps, (k + r) % 4 == 3))
    return rules


def decorate(rng, rules, k):
    """the same rules written with leading blank space / comment lines between them (what a hand-written or
    tool-annotated file contains); expected events are unchanged."""
    out = b""
    has_comment = False
    for i, (t, d, c) in enumerate(rules):
        m = (k + i) % 4
        if m == 1:
            out += b"\n  \t"
        elif m == 2:
            text = rng.bytes_from([0x61, 0x20, 0x3a, 0x5c, 0x23, 0x24, 0x62], 8)
            out += b"#" + text + b"\n"
            has_comment = True
        elif m == 3:
            out += b"# generated: do not edit\r\n\n# x\n"
            has_comment = True
        out += mk_rule(t, d, c)
    return out, has_comment


MUT_BYTES = [0x5c, 0x0a, 0x0d, 0x24, 0x3a, 0x23, 0x20, 0x09, 0x00, 0xff, 0x61]


def mutate(rng, data):
    b = bytearray(data)
    for _ in range(1 + rng.below(3)):
        k = rng.below(4)
        pos = rng.below(len(b) + 1)
        if k == 0 and b:
            b[pos % len(b)] = rng.choice(MUT_BYTES)
        elif k == 1:
            b.insert(pos, rng.choice(MUT_BYTES))
        elif k == 2 and b:
            del b[pos % len(b)]
        else:
            b[pos:pos] = bytes(rng.choice(MUT_BYTES) for _ in range(1 + rng.below(3)))
    return bytes(b)


def small_strings(alpha, maxlen):
    out = [b""]
    for n in range(1, maxlen + 1):
        out += [bytes(t) for t in itertools.product(alpha, repeat=n)]
    return out


# ------------------------------------------------------------------------------------------------
# Makefile-style dependency files
# ------------------------------------------------------------------------------------------------
def corr_makedeps(ctx, res):
    rng = ctx.rng
    exe = ctx.exe[(HARNESS, "asan")]
    cases = []   # (ign, bytes, kind, expected events or None, extra)
    nvalid = 1500 if ctx.thorough else 250
    valid_files = []
    for k in range(nvalid):
        rules = gen_rules(rng, k)
        data = mk_file(rules)
        valid_files.append(data)
        cases.append((0, data, "valid", expected_events(rules), {}))
        cases.append((1, data, "valid", expected_events(rules, True), {}))
        dec, has_comment = decorate(rng, rules, k)
        cases.append((0, dec, "valid-decorated", expected_events(rules), {"has_comment": has_comment}))
        # last line without a newline (a file cut exactly at the end of the last word)
        cases.append((0, data.rstrip(b"\r\n"), "valid", expected_events(rules), {}))
    # hand-written seeds
    cdir = os.path.join(C.VERIF, "corpus", "C11")
    if os.path.isdir(cdir):
        for fn in sorted(os.listdir(cdir)):
            if fn.endswith(".d"):
                cases.append((0, open(os.path.join(cdir, fn), "rb").read(), "corpus", None, {}))
    # malformed: truncation at EVERY prefix of every valid file, plus mutations
    ntrunc = 0
    for data in valid_files[: (400 if ctx.thorough else 80)]:
        for n in range(len(data)):
            cases.append((ntrunc & 1, data[:n], "truncated", None, {}))
            ntrunc += 1
    for k in range(20000 if ctx.thorough else 3000):
        cases.append((k & 1, mutate(rng, valid_files[k % len(valid_files)]), "mutated", None, {}))
    # exhaustive: every string over the structural bytes up to a length bound
    ex = small_strings([0x61, 0x5c, 0x0a, 0x20, 0x3a, 0x24, 0x23, 0x0d], 5 if ctx.thorough else 4)
    for s in ex:
        cases.append((0, s, "exhaustive", None, {}))
    lines = ["%d %s" % (ign, C.hexs(d)) for ign, d, _, _, _ in cases]
    import threading
    r = {}
    t = threading.Thread(target=lambda: r.__setitem__("m", run_model("c11makedeps", lines)))
    t.start()
    hout, restarts = run_attributed([exe, "makedeps"], lines)
    t.join()
    mrc, mout, merr = r["m"]
    model_ok = mrc == 0 and len(mout) == len(lines)
    if ctx.model_ok and not model_ok:
        res.mismatches.append({"stream": "c11makedeps", "input": "model driver exit %s, %d/%d lines" % (mrc, len(mout), len(lines)), "model": merr[-300:]})
    dist = {}
    errkinds = {}
    nontriv = 0
    for i, (ign, data, kind, exp, extra) in enumerate(cases):
        dist[kind] = dist.get(kind, 0) + 1
        line = hout[i]
        if model_ok and mout[i] != line and len(res.mismatches) < 20:
            res.mismatches.append({"stream": "c11makedeps", "input": lines[i], "model": mout[i], "impl": line})
        if line.startswith("ABORT") or line.startswith("HANG"):
            res.oracle_failures.append({
                "what": "MakefileDepsParser %s on a %d-byte input held in an exact-size heap buffer: %s" % (
                    "did not terminate within the watchdog" if line.startswith("HANG") else "aborted under ASan/UBSan", len(data), line[:400]),
                "parser": "makedeps", "kind": "hang" if line.startswith("HANG") else "sanitizer-abort",
                "ends_with_backslash": data.endswith(b"\\"), "report": line[:400],
                "input": {"ign": ign, "hex": C.hexs(data), "bytes": repr(data)}})
            continue
        ev = parse_md_line(line)
        if ev is None:
            res.oracle_failures.append({"what": "MakefileDepsParser handed a callback a string outside the input buffer / unparsable stream: " + line[:200],
                                        "parser": "makedeps", "kind": "outside-buffer", "input": {"ign": ign, "hex": C.hexs(data)}})
            continue
        for e in ev:
            if e[0] == "X":
                errkinds[e[1]] = errkinds.get(e[1], 0) + 1
                if e[2] > len(data):
                    res.oracle_failures.append({"what": "error position %d beyond the %d-byte input" % (e[2], len(data)), "parser": "makedeps",
                                                "kind": "position-outside", "input": {"ign": ign, "hex": C.hexs(data)}})
            if e[0] in ("S", "D") and 0x0a in e[1]:
                res.oracle_failures.append({"what": "a reported path contains a newline", "parser": "makedeps", "kind": "newline-in-path",
                                            "input": {"ign": ign, "hex": C.hexs(data)}})
        if exp is not None:
            nontriv += 1
            if ev != exp:
                res.oracle_failures.append({
                    "what": "paths written with the documented escaping were not recovered byte for byte: expected %s, parser reported %s" % (exp[:6], ev[:6]),
                    "parser": "makedeps", "kind": "roundtrip", "has_comment": bool(extra.get("has_comment")),
                    "input": {"ign": ign, "hex": C.hexs(data), "bytes": repr(data)}})
    res.evaluations += len(cases)
    res.distinct_nontrivial += nontriv
    res.distribution["makedeps_cases"] = dist
    res.distribution["makedeps_error_kinds"] = errkinds
    res.distribution["makedeps_truncation_prefixes"] = ntrunc
    res.distribution["makedeps_harness_restarts"] = restarts
    res.samples.append({"makedeps": lines[0], "impl": hout[0]})


# ------------------------------------------------------------------------------------------------
# dependency-info files
# ------------------------------------------------------------------------------------------------
OPS = {"V": 0x00, "I": 0x10, "M": 0x11, "O": 0x40}


def di_encode(recs):
    return b"".join(bytes([OPS[k]]) + s + b"\0" for k, s in recs)


def gen_recs(rng, k):
    alpha = list(range(1, 256))
    common = [0x61, 0x2f, 0x20, 0x10, 0x11, 0x40, 0xff, 0x01, 0x5c]
    recs = [("V", rng.bytes_from(common, 6, 1))]
    for j in range(rng.below(6) if k % 6 else 0):
        recs.append(("IMO"[(k + j) % 3], rng.bytes_from(alpha if (k + j) % 5 == 0 else common, 10, 1)))
    return recs


def parse_di_line(line):
    if line == ".":
        return []
    ev = []
    for a in line.split(";"):
        f = a.split(":")
        if f[0] in OPS and len(f) == 2:
            if f[1].startswith("OUTSIDE"):
                return None
            ev.append((f[0], C.unhex(f[1])))
        elif f[0] == "X" and len(f) == 3:
            ev.append(("X", f[1], int(f[2])))
        else:
            return None
    return ev


def corr_depinfo(ctx, res):
    rng = ctx.rng
    exe = ctx.exe[(HARNESS, "asan")]
    cases = []
    valid = []
    for k in range(1500 if ctx.thorough else 300):
        recs = gen_recs(rng, k)
        data = di_encode(recs)
        valid.append(data)
        cases.append((data, "valid", recs))
    cdir = os.path.join(C.VERIF, "corpus", "C11")
    if os.path.isdir(cdir):
        for fn in sorted(os.listdir(cdir)):
            if fn.endswith(".depinfo"):
                cases.append((open(os.path.join(cdir, fn), "rb").read(), "corpus", None))
    ntrunc = 0
    for data in valid[: (500 if ctx.thorough else 120)]:
        for n in range(len(data)):
            cases.append((data[:n], "truncated", None))
            ntrunc += 1
        cases.append((data + b"\0", "extra-nul", None))
        cases.append((data + b"\0\0", "extra-nul", None))
    for k in range(20000 if ctx.thorough else 3000):
        d = bytearray(valid[k % len(valid)])
        for _ in range(1 + rng.below(3)):
            m = rng.below(3)
            pos = rng.below(len(d) + 1)
            b = rng.choice([0x00, 0x00, 0x10, 0x11, 0x40, 0x41, 0x61, 0xff])
            if m == 0 and d:
                d[pos % len(d)] = b
            elif m == 1:
                d.insert(pos, b)
            elif d:
                del d[pos % len(d)]
        cases.append((bytes(d), "mutated", None))
    for s in small_strings([0x00, 0x10, 0x11, 0x40, 0x61, 0x99], 6 if ctx.thorough else 5):
        cases.append((s, "exhaustive", None))
    lines = [C.hexs(d) for d, _, _ in cases]
    import threading
    r = {}
    t = threading.Thread(target=lambda: r.__setitem__("m", run_model("c11depinfo", lines)))
    t.start()
    hout, restarts = run_attributed([exe, "depinfo"], lines)
    t.join()
    mrc, mout, merr = r["m"]
    model_ok = mrc == 0 and len(mout) == len(lines)
    if ctx.model_ok and not model_ok:
        res.mismatches.append({"stream": "c11depinfo", "input": "model driver exit %s, %d/%d lines" % (mrc, len(mout), len(lines)), "model": merr[-300:]})
    dist, errkinds, nontriv = {}, {}, 0
    for i, (data, kind, recs) in enumerate(cases):
        dist[kind] = dist.get(kind, 0) + 1
        line = hout[i]
        if model_ok and mout[i] != line and len(res.mismatches) < 20:
            res.mismatches.append({"stream": "c11depinfo", "input": lines[i], "model": mout[i], "impl": line})
        if line.startswith("ABORT") or line.startswith("HANG"):
            res.oracle_failures.append({
                "what": "DependencyInfoParser %s on a %d-byte input held in an exact-size heap buffer: %s" % (
                    "did not terminate within the watchdog" if line.startswith("HANG") else "aborted under ASan/UBSan", len(data), line[:400]),
                "parser": "depinfo", "kind": "hang" if line.startswith("HANG") else "sanitizer-abort",
                "ends_with_two_nuls": data.endswith(b"\0\0"), "report": line[:400],
                "input": {"hex": C.hexs(data)}})
            continue
        ev = parse_di_line(line)
        if ev is None:
            res.oracle_failures.append({"what": "DependencyInfoParser handed a callback a string outside the input buffer / unparsable stream: " + line[:200],
                                        "parser": "depinfo", "kind": "outside-buffer", "input": {"hex": C.hexs(data)}})
            continue
        for e in ev:
            if e[0] == "X":
                errkinds[e[1]] = errkinds.get(e[1], 0) + 1
                if e[2] > len(data):
                    res.oracle_failures.append({"what": "error position %d beyond the %d-byte input" % (e[2], len(data)), "parser": "depinfo",
                                                "kind": "position-outside", "input": {"hex": C.hexs(data)}})
        if recs is not None:
            nontriv += 1
            if ev != recs:
                res.oracle_failures.append({"what": "dependency-info records not recovered: wrote %s, parser reported %s" % (recs[:5], ev[:5]),
                                            "parser": "depinfo", "kind": "roundtrip", "input": {"hex": C.hexs(data)}})
    res.evaluations += len(cases)
    res.distinct_nontrivial += nontriv
    res.distribution["depinfo_cases"] = dist
    res.distribution["depinfo_error_kinds"] = errkinds
    res.distribution["depinfo_truncation_prefixes"] = ntrunc
    res.distribution["depinfo_harness_restarts"] = restarts
    res.samples.append({"depinfo": lines[0], "impl": hout[0]})


# ------------------------------------------------------------------------------------------------
# relative paths / the decision taken by ShellCommand (C11 only)
# ------------------------------------------------------------------------------------------------
def corr_resolve(ctx, res):
    exe = ctx.exe[(HARNESS, "plain")]
    wds = [b"/", b"/w", b"/w/", b"/w//", b"/a b/c", b"//x/y"]
    ps = small_strings([0x2f, 0x61, 0x2e, 0x20], 5 if ctx.thorough else 4)[1:]
    pairs = [(w, p) for w in wds for p in ps]
    for _ in range(2000):
        pairs.append((ctx.rng.choice(wds), ctx.rng.bytes_from(PATH_ALPHA + [0x2f, 0x2f], 8, 1)))
    lines = ["%s %s" % (C.hexs(w), C.hexs(p)) for w, p in pairs]
    (mrc, mout, merr) = run_model("c11resolve", lines)
    hrc, hout, herr = C.run_lines([exe, "resolve"], lines)
    if hrc != 0 or len(hout) != len(lines):
        res.mismatches.append({"stream": "c11resolve", "input": "harness exit %d" % hrc, "impl": herr[-300:]})
        return
    model_ok = mrc == 0 and len(mout) == len(lines)
    if ctx.model_ok and not model_ok:
        res.mismatches.append({"stream": "c11resolve", "input": "model driver exit %s" % mrc, "model": merr[-300:]})
    nrel = 0
    for i, (w, p) in enumerate(pairs):
        if model_ok and mout[i] != hout[i] and len(res.mismatches) < 20:
            res.mismatches.append({"stream": "c11resolve", "input": lines[i], "model": mout[i], "impl": hout[i]})
        if not p.startswith(b"//"):
            k, _, h = hout[i].partition(" ")
            got = C.unhex(h)
            if not p.startswith(b"/"):
                nrel += 1
            if got != resolve_spec(w, p):
                res.oracle_failures.append({"what": "path %r with working directory %r resolved to %r, expected %r" % (p, w, got, resolve_spec(w, p)),
                                            "kind": "resolve", "input": {"wd": C.hexs(w), "path": C.hexs(p)}})
    res.evaluations += len(pairs)
    res.distinct_nontrivial += nrel
    res.distribution["resolve_pairs"] = len(pairs)
    res.distribution["resolve_relative"] = nrel


def corr_buildsystem(ctx, res):
    """One real BuildSystem build per case: shell command (`/bin/true`) with `deps:` pointing at a file with the given
    contents.  Observed: command value (successful / failed), number of dependency-file diagnostics, discovered paths."""
    rng = ctx.rng
    exe = ctx.exe[(HARNESS, "plain")]
    scratch = os.path.join(C.BUILD, "scratch")
    os.makedirs(scratch, exist_ok=True)
    wds = [b"/", b"/tmp", b"/tmp/", scratch.encode()]
    cases = []
    n = 600 if ctx.thorough else 120
    for k in range(n):
        rules = gen_rules(rng, k)
        # make a fair share of prerequisites relative / absolute
        # (file paths only: no trailing separator = no directory-tree nodes; no leading "//", which llvm::sys::path reads as a root *name*)
        def fix(i, d):
            d = d.strip(b"/") or b"x"
            if d.startswith(b":"):
                d = b"r" + d
            return (b"/" + d) if (k + i) % 2 else d
        rules = [(t, [(s, fix(i, d)) for i, (s, d) in enumerate(deps)], c) for t, deps, c in rules]
        data = mk_file(rules)
        style = "makefile-ignoring-subsequent-outputs" if k % 4 == 3 else "makefile"
        wd = wds[k % len(wds)]
        exp = [d for t, deps, c in (rules[:1] if k % 4 == 3 else rules) for _, d in deps]
        cases.append((style, wd, data, "valid", exp))
        m = mutate(rng, data) if k % 3 else data[: rng.below(len(data) + 1)]
        cases.append((style, wd, m, "malformed", None))
    for k in range(n // 2):
        recs = [(op, s.rstrip(b"/") or b"x") for op, s in gen_recs(rng, k)]
        data = di_encode(recs)
        cases.append(("dependency-info", wds[k % len(wds)], data, "valid", recs))
        d = bytearray(data)
        if d:
            d[rng.below(len(d))] = rng.choice([0x00, 0x41, 0x00, 0x10])
        cases.append(("dependency-info", wds[k % len(wds)], bytes(d) if k % 3 else data[: rng.below(len(data) + 1)], "malformed", None))
    lines = ["%s %s %s" % (s, C.hexs(w), C.hexs(d)) for s, w, d, _, _ in cases]
    (mrc, mout, merr) = run_model("c11bs", lines)
    hout, restarts = run_attributed([exe, "c11bs", scratch], lines, watchdog=300)
    model_ok = mrc == 0 and len(mout) == len(lines)
    if ctx.model_ok and not model_ok:
        res.mismatches.append({"stream": "c11bs", "input": "model driver exit %s" % mrc, "model": merr[-300:]})
    nfail = nok = nskip = 0
    for i, (style, wd, data, kind, exp) in enumerate(cases):
        line = hout[i]
        # a discovered path with a trailing separator is a directory-tree node (C12's subject; "/" even makes the engine report a
        # cycle): such mutated files are outside this stream
        if kind == "malformed" and model_ok and any(x.endswith("2f") for x in mout[i].split(" deps=")[-1].split(";")):
            nskip += 1
            continue
        if model_ok and mout[i] != line and len(res.mismatches) < 20:
            res.mismatches.append({"stream": "c11bs", "input": lines[i], "model": mout[i], "impl": line})
        if not line.startswith("status="):
            res.oracle_failures.append({"what": "build of a shell command with a dependency file did not complete normally: " + line[:300],
                                        "kind": "bs-abnormal", "input": {"line": lines[i]}})
            continue
        f = dict(x.split("=", 1) for x in line.split(" "))
        deps = [] if f["deps"] == "." else [(x.split(":")[0], C.unhex(x.split(":")[1])) for x in f["deps"].split(";")]
        errors = int(f["errors"])
        if f["status"] == "failed":
            nfail += 1
        else:
            nok += 1
        # a malformed dependency file fails the command (never silently drops dependencies)
        if errors > 0 and f["status"] != "failed":
            res.oracle_failures.append({"what": "the dependency file produced %d diagnostics but the command did not fail" % errors,
                                        "kind": "malformed-not-failed", "input": {"line": lines[i]}})
        if errors == 0 and f["status"] != "ok":
            res.oracle_failures.append({"what": "the command failed although the dependency file produced no diagnostic: " + line[:200],
                                        "kind": "failed-without-diagnostic", "input": {"line": lines[i]}})
        if kind == "valid":
            if style == "dependency-info":
                want = [(k, s) for k, s in exp if k != "V"]
            else:
                want = [("I", resolve_spec(wd, d)) for d in exp]
            if f["status"] != "ok" or deps != want:
                res.oracle_failures.append({"what": "well-formed dependency file: status %s, discovered %s, expected %s" % (f["status"], deps[:5], want[:5]),
                                            "kind": "bs-roundtrip", "input": {"line": lines[i]}})
    res.evaluations += len(cases)
    res.distinct_nontrivial += nfail
    res.distribution["buildsystem_cases"] = len(cases)
    res.distribution["buildsystem_failed_commands"] = nfail
    res.distribution["buildsystem_successful_commands"] = nok
    res.distribution["buildsystem_skipped_directory_nodes"] = nskip
    res.samples.append({"c11bs": lines[0], "impl": hout[0]})


C19_DEPS_THEOREMS = [
    "LLBuild.MakeDeps.C19_makedeps_no_oob", "LLBuild.MakeDeps.C19_makedeps_terminates", "LLBuild.MakeDeps.C19_lexWord_no_oob",
    "LLBuild.MakeDeps.C19_makedeps_slices_in_bounds",
    "LLBuild.DepInfo.C19_depinfo_no_oob", "LLBuild.DepInfo.C19_depinfo_terminates",
]


class Check(PropertyCheck):
    prop = "C11"
    module = "LLBuild.Props.C11"
    theorems = [
        "LLBuild.MakeDeps.C11_roundtrip_word", "LLBuild.MakeDeps.C11_roundtrip_target",
        "LLBuild.MakeDeps.C11_roundtrip_file", "LLBuild.MakeDeps.C11_roundtrip_file_ignoring", "LLBuild.MakeDeps.C11_roundtrip_file_discovered",
        "LLBuild.MakeDeps.C11_inexpressible_newline", "LLBuild.MakeDeps.C11_inexpressible_control",
        "LLBuild.MakeDeps.C11_comment_skipped", "LLBuild.MakeDeps.C11_relative_resolved", "LLBuild.MakeDeps.C11_absolute_unchanged",
        "LLBuild.DepInfo.C11_depinfo_roundtrip", "LLBuild.ShellDeps.C11_malformed_fails", "LLBuild.ShellDeps.C11_wellformed_succeeds",
    ] + C19_DEPS_THEOREMS
    extractors = ["x_depsparsers"]
    impl_cfgs = ["plain", "asan"]
    harnesses = [(HARNESS, "plain"), (HARNESS, "asan")]
    assumptions = [
        "hand model of MakefileDepsParser / DependencyInfoParser / processDiscoveredDependencies, tied by differential correspondence "
        "(action streams compared verbatim on valid, truncated-at-every-prefix, mutated and exhaustive small inputs; ASan+UBSan build, exact-size heap buffers)",
        "the working directory of the command is set and absolute (configureAttribute makes it so); with no working-directory attribute "
        "make_absolute resolves against the process's current directory, which is not modelled",
        "llvm::sys::path::append / is_absolute (POSIX style) are modelled for one component and corresponded, not proved",
        "the end-to-end clause (touching a discovered path re-executes the command) is an instance of the engine theorem and is decided elsewhere",
    ]
    trusted_base = ["extractor x_depsparsers (character classes, escape set, comment loop operator, bounds guards, opcode enum)",
                    "correspondence harness vc11 (makedeps, depinfo, resolve, c11bs) and its generators",
                    "python oracles (escape/mk_file/resolve_spec restated independently; sanitizer reports; watchdog)"]

    def replay(self, ctx, res):
        """--replay <file>: run the recorded input alone (real parser under ASan vs the model); the recorded oracle verdict is
        re-derived from scratch: abort / hang / stream different from the model = failure."""
        import json
        rec = json.load(open(ctx.replay_path))
        f = rec.get("failure", {})
        inp = f.get("input", {})
        if "line" in inp:
            mode, hmode, cfg, line, extra = "c11bs", "c11bs", "plain", inp["line"], [os.path.join(C.BUILD, "scratch")]
        elif "wd" in inp:
            mode, hmode, cfg, line, extra = "c11resolve", "resolve", "plain", "%s %s" % (inp["wd"], inp["path"]), []
        elif f.get("parser") == "depinfo":
            mode, hmode, cfg, line, extra = "c11depinfo", "depinfo", "asan", inp["hex"], []
        elif "hex" in inp:
            mode, hmode, cfg, line, extra = "c11makedeps", "makedeps", "asan", "%d %s" % (inp.get("ign", 0), inp["hex"]), []
        else:
            C.log("replay file has no input (kind=%s): nothing to run" % rec.get("kind"))
            return
        hout, _ = run_attributed([ctx.exe[(HARNESS, cfg)], hmode] + extra, [line])
        mrc, mout, merr = run_model(mode, [line])
        C.log("replay input: %s\n  impl : %s\n  model: %s" % (line, hout[0], mout[0] if mout else merr[-200:]))
        res.evaluations += 1
        if hout[0].startswith(("ABORT", "HANG")) or not mout or mout[0] != hout[0]:
            g = dict(f)
            g.setdefault("what", "replayed input still fails")
            g["replayed"] = {"impl": hout[0][:400], "model": (mout[0] if mout else "")[:400]}
            res.oracle_failures.append(g)
        res.rule = "replay of one recorded input"

    def correspond(self, ctx, res):
        if getattr(ctx, "replay_path", None):
            return self.replay(ctx, res)
        corr_makedeps(ctx, res)
        corr_depinfo(ctx, res)
        corr_resolve(ctx, res)
        corr_buildsystem(ctx, res)
        res.rule = ("Makefile deps: files written by mk_file over an alphabet with every special character (plain / decorated with comments and "
                    "blank space / without final newline / ignoreSubsequentOutputs), every proper prefix of each of the first valid files, seeded "
                    "mutations, and every string over 8 structural bytes up to a length bound; dependency-info likewise (plus files with extra "
                    "trailing NULs, every string over 6 bytes up to a bound); resolve: 6 working directories x every path over 4 bytes up to a bound "
                    "+ seeded; build-system: one real build per case.  Non-trivial = valid files whose round trip is checked by the python oracle, "
                    "relative paths, failed commands.")

    def search(self, ctx, res, why):
        return


CHECK = Check()
