"""C11 — discovered dependencies: escaping round-trip, relative-path resolution, malformed file fails the command;
and the dependency-parser half of C19 (no crash / hang / over-read for ANY byte string).

Reusable entry points (a combined C19 check calls them too):
    corr_makedeps(ctx, res), corr_depinfo(ctx, res)      differential correspondence + oracles, ASan/UBSan harness
    corr_resolve(ctx, res), corr_buildsystem(ctx, res)   C11 only
"""
import itertools, os, subprocess, tempfile
from .. import common as C
from ..runner import PropertyCheck

HARNESS = "vc11"
SPECIAL = [0x20, 0x23, 0x5c, 0x24, 0x3a]            # space # \ $ :
# every character special to the format + ordinary, high and odd bytes
PATH_ALPHA = SPECIAL + [0x61, 0x62, 0x2f, 0x2e, 0x2d, 0x25, 0x22, 0x27, 0x3d, 0x7e, 0x28, 0x7b, 0x80, 0xff, 0x01, 0x7f]
INEXPRESSIBLE = [0x00, 0x09, 0x0a, 0x0d]            # NUL TAB LF CR (LF absolutely; the others unless preceded by a backslash)
SEPS = [b" ", b" \\\n  ", b" \\\r\n "]


# ------------------------------------------------------------------------------------------------
# the documented escaping, written independently of the Lean model
# ------------------------------------------------------------------------------------------------
def escape(p):
    out = bytearray()
    for c in p:
        if c in (0x20, 0x23, 0x5c):
            out += bytes([0x5c, c])
        elif c == 0x24:
            out += b"$$"
        else:
            out.append(c)
    return bytes(out)


def mk_rule(target, deps, crlf):
    return escape(target) + b":" + b"".join(SEPS[s] + escape(d) for s, d in deps) + (b"\r\n" if crlf else b"\n")


def mk_file(rules):
    return b"".join(mk_rule(t, d, c) for t, d, c in rules)


def expected_events(rules, ign=False):
    ev = []
    for t, deps, _ in (rules[:1] if ign else rules):
        ev.append(("S", t))
        ev += [("D", d) for _, d in deps]
        ev.append(("E",))
    return ev


def parse_md_line(line):
    """canonical harness/model line -> list of events (raw spellings dropped) ; None if not an action stream"""
    if line == ".":
        return []
    ev = []
    for a in line.split(";"):
        f = a.split(":")
        if f[0] in ("S", "D") and len(f) == 3:
            if f[1].startswith("OUTSIDE"):
                return None
            ev.append((f[0], C.unhex(f[2])))
        elif f[0] == "E" and len(f) == 1:
            ev.append(("E",))
        elif f[0] == "X" and len(f) == 3:
            ev.append(("X", f[1], int(f[2])))
        else:
            return None
    return ev


def resolve_spec(wd, p):
    """working-directory semantics, stated directly (paths not starting with `//`)."""
    if p.startswith(b"/"):
        return p
    return wd + (b"" if wd.endswith(b"/") else b"/") + p


# ------------------------------------------------------------------------------------------------
# running the implementation so that an abort / hang is attributed to exactly one input
# ------------------------------------------------------------------------------------------------
SAN_ENV = {"ASAN_OPTIONS": "detect_leaks=0:abort_on_error=0:allocator_may_return_null=1", "UBSAN_OPTIONS": "print_stacktrace=0"}


def run_attributed(cmd, lines, watchdog=120, env=None):
    """Feed `lines`; the harness flushes one line per op, so when the process dies (sanitizer report, signal) or the
    watchdog fires, the op after the last complete output line is the culprit: it gets 'ABORT ...' / 'HANG' and the
    run resumes after it.  Returns (outputs, n_restarts)."""
    out = []
    i = 0
    restarts = 0
    e = dict(os.environ)
    e.update(SAN_ENV)
    if env:
        e.update(env)
    os.makedirs(os.path.join(C.BUILD, "scratch"), exist_ok=True)
    while i < len(lines):
        with tempfile.TemporaryDirectory(dir=os.path.join(C.BUILD, "scratch")) as td:
            fi, fo, fe = (os.path.join(td, n) for n in ("in", "out", "err"))
            with open(fi, "w") as f:
                f.write("\n".join(lines[i:]) + "\n")
            timed_out = False
            with open(fi) as si, open(fo, "w") as so, open(fe, "w") as se:
                p = subprocess.Popen(cmd, stdin=si, stdout=so, stderr=se, env=e)
                try:
                    p.wait(timeout=watchdog)
                except subprocess.TimeoutExpired:
                    p.kill()
                    p.wait()
                    timed_out = True
            data = open(fo, errors="replace").read()
            got = data.split("\n")
            got.pop()  # text after the last newline is an incomplete line (or empty)
            got = got[:len(lines) - i]
            out += got
            i += len(got)
            if i < len(lines):
                err = open(fe, errors="replace").read()
                if timed_out:
                    out.append("HANG watchdog=%ds" % watchdog)
                else:
                    summ = ""
                    for l in err.split("\n"):
                        if "ERROR: AddressSanitizer" in l or "runtime error" in l or "SUMMARY" in l:
                            summ = l.strip()[:300]
                            if "SUMMARY" in l:
                                break
                    where = ""
                    for l in err.split("\n"):
                        if l.strip().startswith("#0 ") or l.strip().startswith("#1 "):
                            if "/lib/" in l:
                                where = l.strip().split(" in ", 1)[-1][:200]
                                break
                    out.append("ABORT rc=%s %s | %s" % (p.returncode, summ, where))
                i += 1
                restarts += 1
    return out, restarts


_MODEL_CACHE = {}


def model_cmd(mode):
    """[exe, mode] for the Lean model driver.  After integration the shared `llbuild-model` knows the C11 modes; until
    then (exit status 2 = unknown mode) a private driver with only these modes is compiled into the build directory."""
    exe = C.model_exe()
    if "exe" not in _MODEL_CACHE:
        known = False
        if os.path.exists(exe):
            p = subprocess.run([exe, mode], input=b"", stdout=subprocess.PIPE, stderr=subprocess.PIPE)
            known = p.returncode == 0
        if not known:
            exe = build_private_driver()
        _MODEL_CACHE["exe"] = exe
    return [_MODEL_CACHE["exe"], mode]


def build_private_driver():
    d = os.path.join(C.BUILD, "drv")
    os.makedirs(d, exist_ok=True)
    ok, out = C.lake_build(["LLBuild.Drv.C11"])
    if not ok:
        C.log(out[-2000:])
        return os.path.join(d, "missing-model-driver")
    src = os.path.join(d, "DriverC11.lean")
    txt = open(os.path.join(C.LEAN, "Driver.lean")).read()
    import re
    txt = re.sub(r"^import LLBuild\.Drv\.(?!Common)\w+\n", "", txt, flags=re.M)
    txt = txt.replace("import LLBuild.Drv.Common\n", "import LLBuild.Drv.Common\nimport LLBuild.Drv.C11\n")
    txt = re.sub(r"def allModes : List \(String × Mode\) :=\n(?:  .*\n)+", "def allModes : List (String × Mode) :=\n  LLBuild.Drv.C11.modes\n", txt)
    with open(src, "w") as f:
        f.write(txt)
    exe = os.path.join(d, "llbuild-model-c11")
    ir = os.path.join(C.LEAN, ".lake", "build", "ir", "LLBuild")
    mods = ["Model/Bytes", "Model/MakeDeps", "Model/DepInfo", "Generated/DepsTables", "Drv/Common", "Drv/C11"]
    rc, o = C.run(["lake", "env", "lean", "--root=" + d, "-c", os.path.join(d, "DriverC11.c"), src], cwd=C.LEAN)
    if rc == 0:
        rc, o = C.run(["lake", "env", "leanc", "-O2", "-o", exe, os.path.join(d, "DriverC11.c")] +
                      [os.path.join(ir, m + ".c") for m in mods], cwd=C.LEAN)
    if rc != 0:
        C.log(o[-2000:])
        return os.path.join(d, "missing-model-driver")
    return exe


def run_model(mode, lines):
    try:
        return C.run_lines(model_cmd(mode), lines)
    except OSError as e:
        return 127, [], str(e)


# ------------------------------------------------------------------------------------------------
# generators
# ------------------------------------------------------------------------------------------------
def gen_rules(rng, k):
    """k-th valid file: stratified so that every special character, every separator kind, CRLF, single and multiple
    rules all occur for every seed."""
    nrules = 1 + (k % 3)
    rules = []
    for r in range(nrules):
        tgt_alpha = [c for c in PATH_ALPHA if c != 0x3a]
        target = rng.bytes_from(tgt_alpha, 6, 1)
        if (k + r) % 5 == 0:
            target = bytes([SPECIAL[(k // 5) % 4]]) + target          # a special character first (never ':')
        deps = []
        for j in range(rng.below(5) if k % 7 else 0):
            p = rng.bytes_from(PATH_ALPHA, 8, 1)
            if p[0] == 0x3a:
                p = b"/" + p
            if (k + j) % 4 == 0:
                p = p + bytes([SPECIAL[(k + j) // 4 % 5]])            # a special character last (':' included)
            deps.append(((k + j + r) % 3, p))
        rules.append((target, deps, (k + r) % 4 == 3))
    return rules


def decorate(rng, rules, k):
    """the same rules written with leading blank space / comment lines between them (what a hand-written or
    tool-annotated file contains); expected events are unchanged."""
    out = b""
    has_comment = False
    for i, (t, d, c) in enumerate(rules):
        m = (k + i) % 4
        if m == 1:
            out += b"\n  \t"
        elif m == 2:
            text = rng.bytes_from([0x61, 0x20, 0x3a, 0x5c, 0x23, 0x24, 0x62], 8)
            out += b"#" + text + b"\n"
            has_comment = True
        elif m == 3:
            out += b"# generated: do not edit\r\n\n# x\n"
            has_comment = True
        out += mk_rule(t, d, c)
    return out, has_comment


MUT_BYTES = [0x5c, 0x0a, 0x0d, 0x24, 0x3a, 0x23, 0x20, 0x09, 0x00, 0xff, 0x61]


def mutate(rng, data):
    b = bytearray(data)
    for _ in range(1 + rng.below(3)):
        k = rng.below(4)
        pos = rng.below(len(b) + 1)
        if k == 0 and b:
            b[pos % len(b)] = rng.choice(MUT_BYTES)
        elif k == 1:
            b.insert(pos, rng.choice(MUT_BYTES))
        elif k == 2 and b:
            del b[pos % len(b)]
        else:
            b[pos:pos] = bytes(rng.choice(MUT_BYTES) for _ in range(1 + rng.below(3)))
    return bytes(b)


def small_strings(alpha, maxlen):
    out = [b""]
    for n in range(1, maxlen + 1):
        out += [bytes(t) for t in itertools.product(alpha, repeat=n)]
    return out


# ------------------------------------------------------------------------------------------------
# Makefile-style dependency files
# ------------------------------------------------------------------------------------------------
def corr_makedeps(ctx, res):
    rng = ctx.rng
    exe = ctx.exe[(HARNESS, "asan")]
    cases = []   # (ign, bytes, kind, expected events or None, extra)
    nvalid = 1500 if ctx.thorough else 250
    valid_files = []
    for k in range(nvalid):
        rules = gen_rules(rng, k)
        data = mk_file(rules)
        valid_files.append(data)
        cases.append((0, data, "valid", expected_events(rules), {}))
        cases.append((1, data, "valid", expected_events(rules, True), {}))
        dec, has_comment = decorate(rng, rules, k)
        cases.append((0, dec, "valid-decorated", expected_events(rules), {"has_comment": has_comment}))
        # last line without a newline (a file cut exactly at the end of the last word)
        cases.append((0, data.rstrip(b"\r\n"), "valid", expected_events(rules), {}))
    # hand-written seeds
    cdir = os.path.join(C.VERIF, "corpus", "C11")
    if os.path.isdir(cdir):
        for fn in sorted(os.listdir(cdir)):
            if fn.endswith(".d"):
                cases.append((0, open(os.path.join(cdir, fn), "rb").read(), "corpus", None, {}))
    # malformed: truncation at EVERY prefix of every valid file, plus mutations
    ntrunc = 0
    for data in valid_files[: (400 if ctx.thorough else 80)]:
        for n in range(len(data)):
            cases.append((ntrunc & 1, data[:n], "truncated", None, {}))
            ntrunc += 1
    for k in range(20000 if ctx.thorough else 3000):
        cases.append((k & 1, mutate(rng, valid_files[k % len(valid_files)]), "mutated", None, {}))
    # exhaustive: every string over the structural bytes up to a length bound
    ex = small_strings([0x61, 0x5c, 0x0a, 0x20, 0x3a, 0x24, 0x23, 0x0d], 5 if ctx.thorough else 4)
    for s in ex:
        cases.append((0, s, "exhaustive", None, {}))
    lines = ["%d %s" % (ign, C.hexs(d)) for ign, d, _, _, _ in cases]
    import threading
    r = {}
    t = threading.Thread(target=lambda: r.__setitem__("m", run_model("c11makedeps", lines)))
    t.start()
    hout, restarts = run_attributed([exe, "makedeps"], lines)
    t.join()
    mrc, mout, merr = r["m"]
    model_ok = mrc == 0 and len(mout) == len(lines)
    if ctx.model_ok and not model_ok:
        res.mismatches.append({"stream": "c11makedeps", "input": "model driver exit %s, %d/%d lines" % (mrc, len(mout), len(lines)), "model": merr[-300:]})
    dist = {}
    errkinds = {}
    nontriv = 0
    for i, (ign, data, kind, exp, extra) in enumerate(cases):
        dist[kind] = dist.get(kind, 0) + 1
        line = hout[i]
        if model_ok and mout[i] != line and len(res.mismatches) < 20:
            res.mismatches.append({"stream": "c11makedeps", "input": lines[i], "model": mout[i], "impl": line})
        if line.startswith("ABORT") or line.startswith("HANG"):
            res.oracle_failures.append({
                "what": "MakefileDepsParser %s on a %d-byte input held in an exact-size heap buffer: %s" % (
                    "did not terminate within the watchdog" if line.startswith("HANG") else "aborted under ASan/UBSan", len(data), line[:400]),
                "parser": "makedeps", "kind": "hang" if line.startswith("HANG") else "sanitizer-abort",
                "ends_with_backslash": data.endswith(b"\\"), "report": line[:400],
                "input": {"ign": ign, "hex": C.hexs(data), "bytes": repr(data)}})
            continue
        ev = parse_md_line(line)
        if ev is None:
            res.oracle_failures.append({"what": "MakefileDepsParser handed a callback a string outside the input buffer / unparsable stream: " + line[:200],
                                        "parser": "makedeps", "kind": "outside-buffer", "input": {"ign": ign, "hex": C.hexs(data)}})
            continue
        for e in ev:
            if e[0] == "X":
                errkinds[e[1]] = errkinds.get(e[1], 0) + 1
                if e[2] > len(data):
                    res.oracle_failures.append({"what": "error position %d beyond the %d-byte input" % (e[2], len(data)), "parser": "makedeps",
                                                "kind": "position-outside", "input": {"ign": ign, "hex": C.hexs(data)}})
            if e[0] in ("S", "D") and 0x0a in e[1]:
                res.oracle_failures.append({"what": "a reported path contains a newline", "parser": "makedeps", "kind": "newline-in-path",
                                            "input": {"ign": ign, "hex": C.hexs(data)}})
        if exp is not None:
            nontriv += 1
            if ev != exp:
                res.oracle_failures.append({
                    "what": "paths written with the documented escaping were not recovered byte for byte: expected %s, parser reported %s" % (exp[:6], ev[:6]),
                    "parser": "makedeps", "kind": "roundtrip", "has_comment": bool(extra.get("has_comment")),
                    "input": {"ign": ign, "hex": C.hexs(data), "bytes": repr(data)}})
    res.evaluations += len(cases)
    res.distinct_nontrivial += nontriv
    res.distribution["makedeps_cases"] = dist
    res.distribution["makedeps_error_kinds"] = errkinds
    res.distribution["makedeps_truncation_prefixes"] = ntrunc
    res.distribution["makedeps_harness_restarts"] = restarts
    res.samples.append({"makedeps": lines[0], "impl": hout[0]})


# ------------------------------------------------------------------------------------------------
# dependency-info files
# ------------------------------------------------------------------------------------------------
OPS = {"V": 0x00, "I": 0x10, "M": 0x11, "O": 0x40}


def di_encode(recs):
    return b"".join(bytes([OPS[k]]) + s + b"\0" for k, s in recs)


def gen_recs(rng, k):
    alpha = list(range(1, 256))
    common = [0x61, 0x2f, 0x20, 0x10, 0x11, 0x40, 0xff, 0x01, 0x5c]
    recs = [("V", rng.bytes_from(common, 6, 1))]
    for j in range(rng.below(6) if k % 6 else 0):
        recs.append(("IMO"[(k + j) % 3], rng.bytes_from(alpha if (k + j) % 5 == 0 else common, 10, 1)))
    return recs


def parse_di_line(line):
    if line == ".":
        return []
    ev = []
    for a in line.split(";"):
        f = a.split(":")
        if f[0] in OPS and len(f) == 2:
            if f[1].startswith("OUTSIDE"):
                return None
            ev.append((f[0], C.unhex(f[1])))
        elif f[0] == "X" and len(f) == 3:
            ev.append(("X", f[1], int(f[2])))
        else:
            return None
    return ev


def corr_depinfo(ctx, res):
    rng = ctx.rng
    exe = ctx.exe[(HARNESS, "asan")]
    cases = []
    valid = []
    for k in range(1500 if ctx.thorough else 300):
        recs = gen_recs(rng, k)
        data = di_encode(recs)
        valid.append(data)
        cases.append((data, "valid", recs))
    cdir = os.path.join(C.VERIF, "corpus", "C11")
    if os.path.isdir(cdir):
        for fn in sorted(os.listdir(cdir)):
            if fn.endswith(".depinfo"):
                cases.append((open(os.path.join(cdir, fn), "rb").read(), "corpus", None))
    ntrunc = 0
    for data in valid[: (500 if ctx.thorough else 120)]:
        for n in range(len(data)):
            cases.append((data[:n], "truncated", None))
            ntrunc += 1
        cases.append((data + b"\0", "extra-nul", None))
        cases.append((data + b"\0\0", "extra-nul", None))
    for k in range(20000 if ctx.thorough else 3000):
        d = bytearray(valid[k % len(valid)])
        for _ in range(1 + rng.below(3)):
            m = rng.below(3)
            pos = rng.below(len(d) + 1)
            b = rng.choice([0x00, 0x00, 0x10, 0x11, 0x40, 0x41, 0x61, 0xff])
            if m == 0 and d:
                d[pos % len(d)] = b
            elif m == 1:
                d.insert(pos, b)
            elif d:
                del d[pos % len(d)]
        cases.append((bytes(d), "mutated", None))
    for s in small_strings([0x00, 0x10, 0x11, 0x40, 0x61, 0x99], 6 if ctx.thorough else 5):
        cases.append((s, "exhaustive", None))
    lines = [C.hexs(d) for d, _, _ in cases]
    import threading
    r = {}
    t = threading.Thread(target=lambda: r.__setitem__("m", run_model("c11depinfo", lines)))
    t.start()
    hout, restarts = run_attributed([exe, "depinfo"], lines)
    t.join()
    mrc, mout, merr = r["m"]
    model_ok = mrc == 0 and len(mout) == len(lines)
    if ctx.model_ok and not model_ok:
        res.mismatches.append({"stream": "c11depinfo", "input": "model driver exit %s, %d/%d lines" % (mrc, len(mout), len(lines)), "model": merr[-300:]})
    dist, errkinds, nontriv = {}, {}, 0
    for i, (data, kind, recs) in enumerate(cases):
        dist[kind] = dist.get(kind, 0) + 1
        line = hout[i]
        if model_ok and mout[i] != line and len(res.mismatches) < 20:
            res.mismatches.append({"stream": "c11depinfo", "input": lines[i], "model": mout[i], "impl": line})
        if line.startswith("ABORT") or line.startswith("HANG"):
            res.oracle_failures.append({
                "what": "DependencyInfoParser %s on a %d-byte input held in an exact-size heap buffer: %s" % (
                    "did not terminate within the watchdog" if line.startswith("HANG") else "aborted under ASan/UBSan", len(data), line[:400]),
                "parser": "depinfo", "kind": "hang" if line.startswith("HANG") else "sanitizer-abort",
                "ends_with_two_nuls": data.endswith(b"\0\0"), "report": line[:400],
                "input": {"hex": C.hexs(data)}})
            continue
        ev = parse_di_line(line)
        if ev is None:
            res.oracle_failures.append({"what": "DependencyInfoParser handed a callback a string outside the input buffer / unparsable stream: " + line[:200],
                                        "parser": "depinfo", "kind": "outside-buffer", "input": {"hex": C.hexs(data)}})
            continue
        for e in ev:
            if e[0] == "X":
                errkinds[e[1]] = errkinds.get(e[1], 0) + 1
                if e[2] > len(data):
                    res.oracle_failures.append({"what": "error position %d beyond the %d-byte input" % (e[2], len(data)), "parser": "depinfo",
                                                "kind": "position-outside", "input": {"hex": C.hexs(data)}})
        if recs is not None:
            nontriv += 1
            if ev != recs:
                res.oracle_failures.append({"what": "dependency-info records not recovered: wrote %s, parser reported %s" % (recs[:5], ev[:5]),
                                            "parser": "depinfo", "kind": "roundtrip", "input": {"hex": C.hexs(data)}})
    res.evaluations += len(cases)
    res.distinct_nontrivial += nontriv
    res.distribution["depinfo_cases"] = dist
    res.distribution["depinfo_error_kinds"] = errkinds
    res.distribution["depinfo_truncation_prefixes"] = ntrunc
    res.distribution["depinfo_harness_restarts"] = restarts
    res.samples.append({"depinfo": lines[0], "impl": hout[0]})


# ------------------------------------------------------------------------------------------------
# relative paths / the decision taken by ShellCommand (C11 only)
# ------------------------------------------------------------------------------------------------
def corr_resolve(ctx, res):
    exe = ctx.exe[(HARNESS, "plain")]
    wds = [b"/", b"/w", b"/w/", b"/w//", b"/a b/c", b"//x/y"]
    ps = small_strings([0x2f, 0x61, 0x2e, 0x20], 5 if ctx.thorough else 4)[1:]
    pairs = [(w, p) for w in wds for p in ps]
    for _ in range(2000):
        pairs.append((ctx.rng.choice(wds), ctx.rng.bytes_from(PATH_ALPHA + [0x2f, 0x2f], 8, 1)))
    lines = ["%s %s" % (C.hexs(w), C.hexs(p)) for w, p in pairs]
    (mrc, mout, merr) = run_model("c11resolve", lines)
    hrc, hout, herr = C.run_lines([exe, "resolve"], lines)
    if hrc != 0 or len(hout) != len(lines):
        res.mismatches.append({"stream": "c11resolve", "input": "harness exit %d" % hrc, "impl": herr[-300:]})
        return
    model_ok = mrc == 0 and len(mout) == len(lines)
    if ctx.model_ok and not model_ok:
        res.mismatches.append({"stream": "c11resolve", "input": "model driver exit %s" % mrc, "model": merr[-300:]})
    nrel = 0
    for i, (w, p) in enumerate(pairs):
        if model_ok and mout[i] != hout[i] and len(res.mismatches) < 20:
            res.mismatches.append({"stream": "c11resolve", "input": lines[i], "model": mout[i], "impl": hout[i]})
        if not p.startswith(b"//"):
            k, _, h = hout[i].partition(" ")
            got = C.unhex(h)
            if not p.startswith(b"/"):
                nrel += 1
            if got != resolve_spec(w, p):
                res.oracle_failures.append({"what": "path %r with working directory %r resolved to %r, expected %r" % (p, w, got, resolve_spec(w, p)),
                                            "kind": "resolve", "input": {"wd": C.hexs(w), "path": C.hexs(p)}})
    res.evaluations += len(pairs)
    res.distinct_nontrivial += nrel
    res.distribution["resolve_pairs"] = len(pairs)
    res.distribution["resolve_relative"] = nrel


def corr_buildsystem(ctx, res):
    """One real BuildSystem build per case: shell command (`/bin/true`) with `deps:` pointing at a file with the given
    contents.  Observed: command value (successful / failed), number of dependency-file diagnostics, discovered paths."""
    rng = ctx.rng
    exe = ctx.exe[(HARNESS, "plain")]
    scratch = os.path.join(C.BUILD, "scratch")
    os.makedirs(scratch, exist_ok=True)
    wds = [b"/", b"/tmp", b"/tmp/", scratch.encode()]
    cases = []
    n = 600 if ctx.thorough else 120
    for k in range(n):
        rules = gen_rules(rng, k)
        # make a fair share of prerequisites relative / absolute
        # (file paths only: no trailing separator = no directory-tree nodes; no leading "//", which llvm::sys::path reads as a root *name*)
        def fix(i, d):
            d = d.strip(b"/") or b"x"
            if d.startswith(b":"):
                d = b"r" + d
            return (b"/" + d) if (k + i) % 2 else d
        rules = [(t, [(s, fix(i, d)) for i, (s, d) in enumerate(deps)], c) for t, deps, c in rules]
        data = mk_file(rules)
        style = "makefile-ignoring-subsequent-outputs" if k % 4 == 3 else "makefile"
        wd = wds[k % len(wds)]
        exp = [d for t, deps, c in (rules[:1] if k % 4 == 3 else rules) for _, d in deps]
        cases.append((style, wd, data, "valid", exp))
        m = mutate(rng, data) if k % 3 else data[: rng.below(len(data) + 1)]
        cases.append((style, wd, m, "malformed", None))
    for k in range(n // 2):
        recs = [(op, s.rstrip(b"/") or b"x") for op, s in gen_recs(rng, k)]
        data = di_encode(recs)
        cases.append(("dependency-info", wds[k % len(wds)], data, "valid", recs))
        d = bytearray(data)
        if d:
            d[rng.below(len(d))] = rng.choice([0x00, 0x41, 0x00, 0x10])
        cases.append(("dependency-info", wds[k % len(wds)], bytes(d) if k % 3 else data[: rng.below(len(data) + 1)], "malformed", None))
    lines = ["%s %s %s" % (s, C.hexs(w), C.hexs(d)) for s, w, d, _, _ in cases]
    (mrc, mout, merr) = run_model("c11bs", lines)
    hout, restarts = run_attributed([exe, "c11bs", scratch], lines, watchdog=300)
    model_ok = mrc == 0 and len(mout) == len(lines)
    if ctx.model_ok and not model_ok:
        res.mismatches.append({"stream": "c11bs", "input": "model driver exit %s" % mrc, "model": merr[-300:]})
    nfail = nok = nskip = 0
    di_resolved = depinfo_input_resolved() if STRICT_DEPINFO_RELATIVE is None else STRICT_DEPINFO_RELATIVE
    for i, (style, wd, data, kind, exp) in enumerate(cases):
        line = hout[i]
        # a discovered path with a trailing separator is a directory-tree node (C12's subject; "/" even makes the engine report a
        # cycle): such mutated files are outside this stream
        if kind == "malformed" and model_ok and any(x.endswith("2f") for x in mout[i].split(" deps=")[-1].split(";")):
            nskip += 1
            continue
        if model_ok and mout[i] != line and len(res.mismatches) < 20:
            res.mismatches.append({"stream": "c11bs", "input": lines[i], "model": mout[i], "impl": line})
        if not line.startswith("status="):
            res.oracle_failures.append({"what": "build of a shell command with a dependency file did not complete normally: " + line[:300],
                                        "kind": "bs-abnormal", "input": {"line": lines[i]}})
            continue
        f = dict(x.split("=", 1) for x in line.split(" "))
        deps = [] if f["deps"] == "." else [(x.split(":")[0], C.unhex(x.split(":")[1])) for x in f["deps"].split(";")]
        errors = int(f["errors"])
        if f["status"] == "failed":
            nfail += 1
        else:
            nok += 1
        # a malformed dependency file fails the command (never silently drops dependencies)
        if errors > 0 and f["status"] != "failed":
            res.oracle_failures.append({"what": "the dependency file produced %d diagnostics but the command did not fail" % errors,
                                        "kind": "malformed-not-failed", "input": {"line": lines[i]}})
        if style == "dependency-info" and not depinfo_wellformed(data) and f["status"] != "failed":
            res.oracle_failures.append({"what": "a dependency-info file that violates the documented format (%d bytes: %s) did not fail the command" % (
                                            len(data), data[:24].hex()),
                                        "kind": "malformed-not-failed", "spec": "dependency-info", "input": {"line": lines[i]}})
        if errors == 0 and f["status"] != "ok":
            res.oracle_failures.append({"what": "the command failed although the dependency file produced no diagnostic: " + line[:200],
                                        "kind": "failed-without-diagnostic", "input": {"line": lines[i]}})
        if kind == "valid":
            if style == "dependency-info":
                # input records: resolved like Makefile-style prerequisites once the code does that (fingerprint extracted; finding F41)
                want = [(k, resolve_spec(wd, s) if k == "I" and di_resolved else s) for k, s in exp if k != "V"]
            else:
                want = [("I", resolve_spec(wd, d)) for d in exp]
            if style == "dependency-info" and di_resolved and any(k == "I" and s.startswith(b"//") for k, s in exp):
                continue        # llvm reads a leading `//name` as a root NAME (relative): modelled and corresponded, outside the python spec
            if f["status"] != "ok" or deps != want:
                res.oracle_failures.append({"what": "well-formed dependency file: status %s, discovered %s, expected %s" % (f["status"], deps[:5], want[:5]),
                                            "kind": "bs-roundtrip", "input": {"line": lines[i]}})
    res.evaluations += len(cases)
    res.distinct_nontrivial += nfail
    res.distribution["buildsystem_cases"] = len(cases)
    res.distribution["buildsystem_failed_commands"] = nfail
    res.distribution["buildsystem_successful_commands"] = nok
    res.distribution["buildsystem_skipped_directory_nodes"] = nskip
    res.samples.append({"c11bs": lines[0], "impl": hout[0]})


# ------------------------------------------------------------------------------------------------
# END TO END: histories through the real shell-command path (deps: LIST, every style, with / without working-directory)
# ------------------------------------------------------------------------------------------------
E2E_STYLES = ["makefile", "makefile-ignoring-subsequent-outputs", "dependency-info"]
# After fix F41 (dependency-info inputs resolved against the working directory) is in the tree and registered, set this to True so
# that a revert is reported; None = follow the extracted fingerprint `Generated.shDepInfoInputResolved` (cases with a relative
# dependency-info path under a working directory different from the process's are then only PROBED and counted as evidence).
STRICT_DEPINFO_RELATIVE = True


def depinfo_input_resolved():
    try:
        txt = open(os.path.join(C.LEAN, "LLBuild", "Generated", "DepsTables.lean")).read()
    except OSError:
        return False
    return "def shDepInfoInputResolved : Bool := true" in txt


def e2e_path(rng, alpha, k, j):
    """a file path in one of the spellings a dependency file can contain: relative (plain, `./`, `../`, nested) or absolute;
    the random part is over the full alphabet; empty / `.` / `..` components are only used deliberately (leading `./`, `../`)."""
    raw = rng.bytes_from(alpha + [0x2f], 8, 1)
    comps = [c if c not in (b".", b"..") else b"a" for c in raw.split(b"/") if c]
    p = b"/".join(comps) or b"x"
    if (k + j) % 4 == 0:
        p += bytes([SPECIAL[(k + j) // 4 % 5]])                        # a special character last (':' included)
    if p.startswith(b":"):
        p = b"r" + p
    shape = (k // 2 + j) % 6
    return shape, p


def e2e_file(rng, style, k, fi, absdir, force_abs):
    """a well-formed dependency file in `style`; returns (bytes, listed paths as written, honoured paths as written)"""
    def place(shape, p):
        if shape in (1, 5) or force_abs:
            return absdir + b"/" + p
        if shape == 2:
            return b"./" + p
        if shape == 3:
            return b"../" + p
        return p
    if style == "dependency-info":
        alpha = [c for c in range(1, 256) if c != 0x2f] if (k + fi) % 3 == 0 else [c for c in PATH_ALPHA if c != 0x2f] + [0x0a, 0x09, 0x10, 0x40]
        recs = [("V", rng.bytes_from([0x61, 0x2e, 0x31, 0x20], 6, 1))]
        listed = []
        for j in range(1 + rng.below(4)):
            shape, p = e2e_path(rng, alpha, k, j + 3 * fi)
            op = "IIMO"[(k + j + fi) % 4] if j else "I"
            w = place(shape, p)
            recs.append((op, w))
            if op == "I":
                listed.append(w)
        return di_encode(recs), listed
    ign = style != "makefile"
    rules, listed = [], []
    for r in range(1 + (k + fi) % 2 + (1 if (k + fi) % 5 == 0 else 0)):
        target = rng.bytes_from([c for c in PATH_ALPHA if c != 0x3a], 6, 1)
        deps = []
        for j in range((1 + rng.below(4)) if r == 0 else rng.below(3)):
            shape, p = e2e_path(rng, [c for c in PATH_ALPHA if c != 0x2f], k, j + 3 * fi + 5 * r)
            w = place(shape, p)
            deps.append(((k + j + r) % 3, w))
            if r == 0 or not ign:
                listed.append(w)
        rules.append((target, deps, (k + r + fi) % 4 == 3))
    return mk_file(rules), listed


def depinfo_wellformed(data):
    """the documented shape of a dependency-info file (docs/buildsystem.rst, DependencyInfoParser.h), restated: a non-empty sequence
    of records `opcode byte, non-empty operand, NUL`, the first (and only the first) a version record, opcodes 0x00 version,
    0x10 input, 0x11 missing, 0x40 output"""
    if not data or data[-1:] != b"\0" or data[0] != 0x00:
        return False
    pos, first = 0, True
    while pos < len(data):
        op = data[pos]
        end = data.find(b"\0", pos + 1)
        if end < 0 or end == pos + 1:
            return False
        if op == 0x00:
            if not first:
                return False
        elif op not in (0x10, 0x11, 0x40):
            return False
        first = False
        pos = end + 1
    return True


def e2e_malformed(rng, style, good, k):
    """a dependency file that is malformed BY CONSTRUCTION (documented shape violated), derived from the well-formed `good`"""
    if style == "dependency-info":
        m = k % 5
        if m == 4:
            return b"", "empty-file"
        if m == 0:
            return good[good.index(b"\0", 1) + 1:] or b"\x10a\0", "no-version-record"
        if m == 1:
            return good[:-1], "missing-final-nul"
        if m == 2:
            cut = good.index(b"\0", 1) + 1
            return good[:cut] + b"\x41zz\0" + good[cut:], "unknown-opcode"
        cut = good.index(b"\0", 1) + 1
        return good[:cut] + b"\x10\0" + good[cut:], "empty-operand"
    first, nl, rest = good.partition(b"\n")
    m = k % 3
    if m == 0:       # an unexpanded make variable among the prerequisites of the first rule
        head, colon, tail = first.partition(b":")
        words = tail.split(b" ")
        words.insert(1 + rng.below(len(words)), b"$(GENERATED)")
        return head + colon + b" ".join(words) + nl + rest, "variable-reference"
    if m == 1:       # the rule has no ':'
        return first.replace(b":", b"", 1).replace(b":", b"") + nl + rest, "missing-colon"
    return b": " + first + nl + rest, "no-target"


def _norm(p):
    return os.path.normpath(p)


def e2e_case(rng, k, scratch, seed, strict_rel):
    style = E2E_STYLES[k % 3]
    wdmode = ["none", "abs", "rel"][(k // 3) % 3]
    nfiles = 1 + (k // 9) % 3
    kind = ["valid", "malformed", "valid", "missing", "malformed", "mutated"][(k // 27 + k) % 6]
    root = ("%s/e2e-%d-%d" % (scratch, seed, k)).encode()
    cwd = root + b"/r"
    wdval = {"none": None, "abs": cwd + b"/w d", "rel": b"w d"}[wdmode]
    W = cwd if wdmode == "none" else cwd + b"/w d"
    absdir = cwd + b"/A"
    probe = False
    force_abs = False
    if style == "dependency-info" and wdmode != "none" and not strict_rel:
        # the dependency-info branch of the unrepaired code does not resolve relative paths (F41): a few probes, otherwise absolute
        probe = kind == "valid" and k % 4 == 0
        force_abs = not probe
    names, locs, contents, listed = [], [], [], []
    for fi in range(nfiles):
        nm = [b"d%d.d" % fi, b"sub/d %d.d" % fi, cwd + b"/abs d%d.d" % fi][(k + fi) % 3]
        names.append(nm)
        locs.append(nm if nm.startswith(b"/") else W + b"/" + nm)
        data, ls = e2e_file(rng, style, k, fi, absdir, force_abs)
        contents.append(data)
        listed.append(ls)
    bad = (k // 5) % nfiles
    good_at_bad = contents[bad]
    sub = ""
    if kind == "malformed":
        contents[bad], sub = e2e_malformed(rng, style, contents[bad], k // 3)
    elif kind == "mutated":
        contents[bad] = mutate(rng, contents[bad])
    elif kind == "missing":
        contents[bad] = None

    def resolve(p):
        return p if p.startswith(b"/") else W + b"/" + p

    needed = set()
    for q in [_norm(resolve(p)) for ls in listed for p in ls] + locs + [W + b"/x", cwd + b"/x"]:
        while len(q) > 1:
            q = os.path.dirname(q)
            needed.add(q)

    def touchable(p):
        q = _norm(resolve(p))
        return q.startswith(root + b"/") and not q.startswith(root + b"/db") and q not in needed

    exists = {}
    steps = []
    for fi in range(nfiles):
        if contents[fi] is not None:
            steps.append("W%s:%s" % (C.hexs(locs[fi]), C.hexs(contents[fi])))
    for ls in listed:
        for p in ls:
            q = _norm(resolve(p))
            if touchable(p) and q not in exists:
                exists[q] = rng.below(2) == 0
                if exists[q]:
                    steps.append("A" + C.hexs(resolve(p)))
    expect = []     # per build: dict(status=..., ran=..., why=...) ; None entries = not constrained
    current = list(contents)
    snaps = []      # deps-file contents at each build (for the model)
    ntouch = {"edit": 0, "create": 0, "delete": 0}

    def build(status=None, ran=None, why="", deps=None):
        steps.append("B")
        expect.append({"status": status, "ran": ran, "why": why, "deps": deps})
        snaps.append(list(current))

    def touch(p):
        q = _norm(resolve(p))
        if exists[q]:
            if rng.below(2):
                steps.append("A" + C.hexs(resolve(p))); ntouch["edit"] += 1; return "edit"
            steps.append("R" + C.hexs(resolve(p))); exists[q] = False; ntouch["delete"] += 1; return "delete"
        steps.append("A" + C.hexs(resolve(p))); exists[q] = True; ntouch["create"] += 1; return "create"

    def honoured(files, maxn):
        """touch up to maxn listed paths — one of EVERY file first (last file first: its position must not matter), then others"""
        cand = []
        for fi in files:
            t = [p for p in listed[fi] if touchable(p)]
            if t:
                cand.append((fi, rng.choice(t)))
        extra = [(fi, p) for fi in files for p in listed[fi] if touchable(p)]
        while len(cand) < maxn and extra:
            cand.append(extra.pop(rng.below(len(extra))))
        for fi, p in cand[:maxn]:
            how = touch(p)
            build("ok", 1, "%s of %r (written %r in dependency file %d of %d)" % (how, resolve(p), p, fi + 1, nfiles))
            build("ok", 0, "null build")

    want_deps = None
    if kind == "valid":
        if not probe:
            want_deps = [resolve(p) if (style != "dependency-info" or strict_rel) else p for ls in listed for p in ls]
        build("ok", 1, "first build", want_deps)
        build("ok", 0, "null build")
        honoured(list(reversed(range(nfiles))), 3 if nfiles < 3 else 4)
        trig = next((p for ls in listed for p in ls if touchable(p)), None)
        if k % 4 == 1 and not probe and trig is not None:
            # the command reports one more path on its next run (it rewrites its dependency file): honoured from then on
            fi = (k // 4) % nfiles
            newp = (absdir + b"/" if force_abs or k % 8 == 1 else b"") + b"new file %d.h" % k
            if style == "dependency-info":
                data = di_encode([("V", b"2")] + [("I", p) for p in listed[fi]] + [("I", newp)])
            else:
                data = mk_file([(b"out", [((j + k) % 3, p) for j, p in enumerate(listed[fi] + [newp])], k % 8 == 5)])
            steps.append("W%s:%s" % (C.hexs(locs[fi]), C.hexs(data)))
            current[fi] = data
            listed[fi] = listed[fi] + [newp]
            how = touch(trig)
            build("ok", 1, "%s of %r (this run reads a rewritten dependency file %d of %d)" % (how, resolve(trig), fi + 1, nfiles))
            build("ok", 0, "null build")
            exists[_norm(resolve(newp))] = False
            how = touch(newp)
            build("ok", 1, "%s of %r (listed only since the previous run, dependency file %d of %d)" % (how, resolve(newp), fi + 1, nfiles))
            build("ok", 0, "null build")
    elif kind in ("malformed", "missing"):
        why = "dependency file %d of %d is %s" % (bad + 1, nfiles, "malformed (%s)" % sub if kind == "malformed" else "missing")
        build("failed", 1, why)
        build("failed", 1, why + ": the command must not have been recorded as up to date")
        steps.append("W%s:%s" % (C.hexs(locs[bad]), C.hexs(good_at_bad)))
        current[bad] = good_at_bad
        build("ok", 1, "dependency file repaired")
        build("ok", 0, "null build")
        honoured([bad] + [fi for fi in reversed(range(nfiles)) if fi != bad], 2)
    else:
        build(None, 1, "first build")
        build(None, None, "second build")
    name_field = ("s:" if nfiles == 1 and k % 2 else "l:") + ",".join(C.hexs(n) for n in names)
    line = " ".join([C.hexs(root), style, "none" if wdval is None else C.hexs(wdval), name_field, ",".join(steps)])
    return dict(line=line, style=style, wdmode=wdmode, W=W, nfiles=nfiles, kind=kind, sub=sub, bad=bad, expect=expect, snaps=snaps,
                probe=probe, ntouch=ntouch, k=k)


def parse_e2e(line):
    """harness line -> list of per-build dicts, or None"""
    if not line.startswith("status="):
        return None
    out = []
    for b in line.split(" | "):
        f = {}
        for x in b.split(" "):
            if "=" not in x:
                return None              # a file-system step failed
            a, _, v = x.partition("=")
            f[a] = v
        if not all(x in f for x in ("status", "ran", "errors", "open", "deps")):
            return None
        f["deplist"] = [] if f["deps"] == "." else [(x.split(":")[0], C.unhex(x.split(":")[1])) for x in f["deps"].split(";")]
        out.append(f)
    return out


def e2e_judge(case_line, expect, builds, meta):
    """the PROPERTY, evaluated on what the real builds did.  Returns a list of failure dicts (without `input`)."""
    fails = []
    if builds is None or len(builds) != len(expect):
        return [{"what": "the history did not run to its end (%s builds reported, %d expected)" % (None if builds is None else len(builds), len(expect)),
                 "kind": "e2e-abnormal"}]
    prev = None
    for i, (e, b) in enumerate(zip(expect, builds)):
        ctx = "build %d of %d (%s)" % (i + 1, len(expect), e["why"])
        ran = int(b["ran"])
        diag = int(b["errors"]) + int(b["open"])
        if b["status"] not in ("ok", "failed"):
            fails.append({"what": "%s: the build did not produce a command result (%s)" % (ctx, b["status"]), "kind": "e2e-abnormal"})
            break
        # (i) a malformed dependency file, at ANY position of the list, fails the command ...
        if e["status"] == "failed" and b["status"] != "failed":
            fails.append({"what": "%s, but the command completed successfully (%d diagnostics): its dependencies were silently dropped" % (ctx, diag),
                          "kind": "e2e-missing-not-failed" if meta.get("fault") == "missing" else "e2e-malformed-not-failed",
                          "position": meta["pos"], "nfiles": meta["nfiles"]})
        if ran and diag > 0 and b["status"] != "failed":
            fails.append({"what": "%s: %d dependency-file diagnostics were reported but the command did not fail" % (ctx, diag),
                          "kind": "e2e-diagnosed-not-failed", "position": meta["pos"], "nfiles": meta["nfiles"]})
        # ... and is not recorded as up to date
        if prev is not None and prev["status"] == "failed" and ran == 0:
            fails.append({"what": "%s: the previous build's command failed, yet it was not run again" % ctx, "kind": "e2e-failed-command-up-to-date"})
        if e["status"] == "ok" and b["status"] != "ok":
            fails.append({"what": "%s: every dependency file is well-formed but the command failed (%d diagnostics)" % (ctx, diag),
                          "kind": "e2e-wellformed-failed"})
        # (ii) a change to ANY listed path re-executes the command; a null build does not
        if e["ran"] == 1 and ran == 0:
            fails.append({"what": "%s: the command was NOT re-executed" % ctx,
                          "kind": "e2e-not-rerun" if i else "e2e-first-build-not-run", "style": meta["style"], "wd": meta["wdmode"]})
        if e["ran"] == 0 and ran != 0 and (prev is None or prev["status"] == "ok"):
            fails.append({"what": "%s: nothing changed since the previous successful build, but the command ran again" % ctx, "kind": "e2e-null-build-ran"})
        if e["ran"] is None and prev is not None and prev["status"] == "ok" and ran != 0:
            fails.append({"what": "%s: nothing changed since the previous successful build, but the command ran again" % ctx, "kind": "e2e-null-build-ran"})
        # (iii) relative paths are resolved against the command's working directory (what the engine was given)
        if e.get("deps") is not None and ran and b["status"] == "ok":
            got = [p for kd, p in b["deplist"] if kd == "I"]
            if got != e["deps"]:
                bad = next((x for x in zip(got, e["deps"]) if x[0] != x[1]), (got[len(e["deps"]):], e["deps"][len(got):]))
                fails.append({"what": "%s: discovered dependencies differ from what the files list (first difference: got %r, expected %r)" % (ctx, bad[0], bad[1]),
                              "kind": "e2e-discovered", "style": meta["style"], "wd": meta["wdmode"]})
        prev = b
        if fails:
            break
    return fails


def corr_e2e(ctx, res):
    """Histories through the REAL BuildSystem shell-command path (ShellCommand::processDiscoveredDependencies with a deps: list,
    ExternalCommand, BuildEngine, BuildDB): see `E2E rule` in Check.correspond."""
    rng = ctx.rng
    exe = ctx.exe[(HARNESS, "plain")]
    scratch = os.path.join(C.BUILD, "scratch")
    os.makedirs(scratch, exist_ok=True)
    strict = depinfo_input_resolved() if STRICT_DEPINFO_RELATIVE is None else STRICT_DEPINFO_RELATIVE
    n = 1080 if ctx.thorough else 216
    cases = [e2e_case(rng, k, scratch, ctx.seed, strict) for k in range(n)]
    lines = [c["line"] for c in cases]
    hout, restarts = run_attributed([exe, "c11e2e", scratch], lines, watchdog=300)
    # the model: every build in which the command runs is one evaluation of processDiscoveredDependencies on the files as they are then
    mlines, mwhere = [], []
    for ci, c in enumerate(cases):
        for bi, snap in enumerate(c["snaps"]):
            mlines.append("%s %s %s" % (c["style"], C.hexs(c["W"]), ",".join("x" if d is None else C.hexs(d) for d in snap)))
            mwhere.append((ci, bi))
    mrc, mout, merr = run_model("c11bsl", mlines)
    model_ok = mrc == 0 and len(mout) == len(mlines)
    if ctx.model_ok and not model_ok:
        res.mismatches.append({"stream": "c11bsl", "input": "model driver exit %s, %d/%d lines" % (mrc, len(mout), len(mlines)), "model": merr[-300:]})
    mpred = {}
    if model_ok:
        for (ci, bi), o in zip(mwhere, mout):
            mpred[(ci, bi)] = o
    dist = {"kind": {}, "style": {}, "working_directory": {}, "deps_files": {}, "touches": {"edit": 0, "create": 0, "delete": 0}}
    nbuilds = nrerun = nnull = nfailed = nskip = nprobe = nprobe_unresolved = ncmp = 0
    for ci, c in enumerate(cases):
        for a, b in (("kind", c["kind"] + ("/" + c["sub"] if c["sub"] else "")), ("style", c["style"]), ("working_directory", c["wdmode"]), ("deps_files", str(c["nfiles"]))):
            dist[a][b] = dist[a].get(b, 0) + 1
        for t, v in c["ntouch"].items():
            dist["touches"][t] += v
        line = hout[ci]
        inp = {"line": c["line"], "scratch": scratch, "stream": "c11e2e",
               "expect": [[e["status"], e["ran"], e["why"], None if e["deps"] is None else [C.hexs(x) for x in e["deps"]]] for e in c["expect"]],
               "style": c["style"], "wdmode": c["wdmode"], "nfiles": c["nfiles"], "pos": c["bad"] + 1, "fault": c["kind"]}
        if line.startswith(("ABORT", "HANG")):
            res.oracle_failures.append({"what": "a history through the shell-command path did not complete normally: " + line[:300], "kind": "e2e-abnormal", "input": inp})
            continue
        builds = parse_e2e(line)
        # a discovered path with a trailing separator is a directory-tree node (C12's subject; "/" even makes the engine report a cycle)
        if c["kind"] == "mutated" and (builds is None or any(p.endswith(b"/") for b in builds for _, p in b["deplist"]) or
                                       any(b["status"] not in ("ok", "failed") for b in builds)):
            nskip += 1
            continue
        meta = {"pos": c["bad"] + 1, "nfiles": c["nfiles"], "style": c["style"], "wdmode": c["wdmode"], "fault": c["kind"]}
        fails = e2e_judge(c["line"], c["expect"], builds, meta)
        if c["probe"]:
            nprobe += 1
            if fails:
                nprobe_unresolved += 1
            continue
        for f in fails:
            f["input"] = inp
            res.oracle_failures.append(f)
        if builds is None:
            continue
        nbuilds += len(builds)
        for bi, (e, b) in enumerate(zip(c["expect"], builds)):
            if b["status"] == "failed":
                nfailed += 1
            if e["ran"] == 1 and bi and e["status"] == "ok" and int(b["ran"]):
                nrerun += 1
            if e["ran"] == 0 and int(b["ran"]) == 0:
                nnull += 1
            if int(b["ran"]) and (ci, bi) in mpred:
                ncmp += 1
                keys = [p for kd, p in b["deplist"] if kd == "I"]
                impl = "status=%s errors=%s open=%s deps=%s keys=%s" % (b["status"], b["errors"], b["open"], b["deps"],
                                                                      ",".join(C.hexs(x) for x in keys) if keys else ".")
                if impl != mpred[(ci, bi)] and len(res.mismatches) < 20:
                    res.mismatches.append({"stream": "c11bsl", "input": mlines[mwhere.index((ci, bi))] + "   [build %d of: %s]" % (bi + 1, c["line"]),
                                           "model": mpred[(ci, bi)], "impl": impl})
    res.evaluations += nbuilds
    res.distinct_nontrivial += nrerun + nfailed
    dist.update({"histories": len(cases), "builds": nbuilds, "reruns_after_a_change_verified": nrerun, "null_builds_verified": nnull,
                 "failed_builds": nfailed, "builds_compared_with_model": ncmp, "skipped_directory_nodes": nskip,
                 "depinfo_relative_strict": bool(strict), "depinfo_relative_probes": nprobe, "depinfo_relative_probes_not_honoured": nprobe_unresolved,
                 "harness_restarts": restarts})
    res.distribution["e2e"] = dist
    res.samples.append({"c11e2e": lines[0][:400], "impl": hout[0][:400]})
    ctx.e2e_runs = (cases, hout)


# ------------------------------------------------------------------------------------------------
# stream `clientx`: the EXTENDED BuildSystem client model (Model/BuildSystemClientX.lean, driver mode c08xclean: commands with
# discovered dependencies and own failures as an engine `Program`; Props/C08X.lean) against the real tool
#   (a) every build of the c11e2e histories in which the command ran: how its execution ends and the keys it hands to the engine,
#       computed by the client model from the dependency files' BYTES (absDepsFile -> processDeps -> runX), vs the real callbacks;
#   (b) histories of compile-like commands (real ShellCommand, deps files written by the commands themselves as a function of the
#       source they read, headers edited / deleted, commands exiting non-zero, deps files missing / malformed) through an in-process
#       keep-going client: the value kind and the dependency list the engine RECORDS in build.db for every command, and the contents of
#       every output, vs the model's clean evaluation (`cleanRunX` / `cleanEvalX`); plus the property itself (re-run after a change of
#       a recorded discovered path, no re-run otherwise, failed commands retried).
# ------------------------------------------------------------------------------------------------
CX_MOD = 1000000007
CX_BASE_T = 1600000000
CX_HEADERS = ["inc/h0.h", "inc/h1.h", "inc/h2.h"]
CX_SETS = {0: (["inc/h0.h"], []), 1: (["inc/h0.h", "inc/h1.h"], ["inc/h2.h"]), 2: (["inc/h2.h"], ["inc/h1.h"])}


def cx_mix(h, v):
    return (h * 131 + v + 7) % CX_MOD


def corr_clientx_e2e(ctx, res):
    """(a) the c11e2e builds through the client model"""
    cases, hout = getattr(ctx, "e2e_runs", ([], []))
    mlines, where = [], []
    for ci, c in enumerate(cases):
        if c["probe"] or ci >= len(hout) or hout[ci].startswith(("ABORT", "HANG")):
            continue
        builds = parse_e2e(hout[ci])
        if builds is None or len(builds) != len(c["snaps"]):
            continue
        if c["kind"] == "mutated" and (any(p.endswith(b"/") for b in builds for _, p in b["deplist"]) or
                                       any(b["status"] not in ("ok", "failed") for b in builds)):
            continue
        for bi, (snap, b) in enumerate(zip(c["snaps"], builds)):
            if not int(b["ran"]) or b["status"] not in ("ok", "failed"):
                continue
            mlines += ["node 0 1 0", "cmd 0 0 1 . 0",
                       "xdepsb 0 %s %s %s" % (c["style"], C.hexs(c["W"]), ",".join("x" if d is None else C.hexs(d) for d in snap)), "evalx"]
            keys = [p for kd, p in b["deplist"] if kd == "I"]
            where.append((ci, bi, "C0=%s:%s" % ("ok" if b["status"] == "ok" else "depsfailed", ",".join(C.hexs(x) for x in keys) if keys else ".")))
    n = 0
    if where:
        mrc, mout, merr = run_model("c08xclean", mlines)
        if mrc != 0 or len(mout) != len(where):
            if ctx.model_ok:
                res.mismatches.append({"stream": "clientx", "input": "model driver exit %s, %d/%d lines" % (mrc, len(mout), len(where)), "model": merr[-300:]})
        else:
            for (ci, bi, impl), m in zip(where, mout):
                n += 1
                if m != impl and len(res.mismatches) < 20:
                    res.mismatches.append({"stream": "clientx", "input": "build %d of: %s" % (bi + 1, cases[ci]["line"]), "model": m, "impl": impl})
    return n


class CxHistory:
    """one compile-like history (b)"""

    def __init__(self, base, k, rng, style, ncomp, ndeps, kinds, seed=None, thorough=False):
        self.seed, self.thorough = seed, thorough
        self.d = os.path.join(base, "cx%d" % k)
        self.k, self.rng, self.style, self.ncomp, self.ndeps, self.kinds = k, rng, style, ncomp, ndeps, kinds
        self.clock = 1
        self.fails, self.cases, self.trace = [], [], []
        self.stats = {"builds": 0, "reruns_after_header_change": 0, "null_builds": 0, "failed_exit": 0, "failed_deps": 0, "retried": 0}
        self.recorded = {}        # command -> set of discovered paths recorded by its last SUCCESSFUL run (None = must run)
        import shutil
        shutil.rmtree(self.d, ignore_errors=True)
        for sub in ("o", "inc", "ctl"):
            os.makedirs(os.path.join(self.d, sub))
        self.salt = [3 + 17 * i + k for i in range(ncomp)]
        open(os.path.join(self.d, "build.llbuild"), "w").write(self.manifest())

    # -- the description -------------------------------------------------------------------------------------
    def deps_names(self, i):
        return ["o/C%d.d" % i] + (["o/C%d.d2" % i] if self.ndeps == 2 else [])

    def script(self, i):
        M = CX_MOD
        b = "echo C%d >> log; v=$(cat s%d.c) || exit 1; h=$(( (%d*131+v+7) %% %d )); " % (i, i, self.salt[i], M)
        b += "case $((v % 7)) in 3) exit 3;; esac; "
        b += "case $((v % 3)) in "
        for r, (A, B) in CX_SETS.items():
            b += "%d) A='%s'; B='%s';; " % (r, " ".join(A), " ".join(B))
        b += "esac; "
        b += "for p in $A $B; do if [ -e $p ]; then w=$(cat $p); h=$(( (h*131+w+1+7) %% %d )); else h=$(( (h*131+7) %% %d )); fi; done; " % (M, M)
        b += "echo $(( (h*131+7) %% %d )) > o/C%d.o; touch -d @$((%d+$(cat ctl/clock))) o/C%d.o; " % (M, i, CX_BASE_T, i)
        names = self.deps_names(i)
        lists = ["$A $B"] if self.ndeps == 1 else ["$A", "$B"]
        for nm, L in zip(names, lists):
            if self.style == "dependency-info":
                b += "{ printf '\\000v1\\000'; for p in %s; do printf '\\020%%s\\000' $p; done; } > %s; " % (L, nm)
            else:
                b += "echo o/C%d.o: %s > %s; " % (i, L, nm)
        # faults of the dependency files, as a function of the source read
        if self.style == "dependency-info":
            bad = "printf '\\101zz\\000' >> %s" % names[0]
        else:
            bad = "echo o/C%d.o: $A '$(BAD)' > %s" % (i, names[0])
        b += "case $((v %% 11)) in 5) rm -f %s;; 6) %s;; 7) rm -f %s;; esac; true" % (names[0], bad, names[-1])
        return b

    def manifest(self):
        q = lambda t: '"' + t.replace("\\", "\\\\").replace('"', '\\"') + '"'
        L = ["client:", "  name: basic", "  version: 0", "", "targets:", '  "": ["o/prog"]', "", "commands:"]
        for i in range(self.ncomp):
            L += ['  "C%d":' % i, "    tool: shell", '    inputs: ["s%d.c"]' % i, '    outputs: ["o/C%d.o"]' % i,
                  "    args: [\"/bin/sh\", \"-c\", %s]" % q(self.script(i)),
                  "    deps: [%s]" % ", ".join(q(n) for n in self.deps_names(i)), "    deps-style: %s" % self.style]
        objs = ["o/C%d.o" % i for i in range(self.ncomp)]
        link = "echo L >> log; h=%d; " % (1000 + self.k)
        for o in objs:
            link += "v=$(cat %s) || exit 1; h=$(( (h*131+v+7) %% %d )); " % (o, CX_MOD)
        link += "echo $(( (h*131+7) %% %d )) > o/prog; touch -d @$((%d+$(cat ctl/clock))) o/prog" % (CX_MOD, CX_BASE_T)
        L += ['  "L":', "    tool: shell", "    inputs: [%s]" % ", ".join(q(o) for o in objs), '    outputs: ["o/prog"]',
              "    args: [\"/bin/sh\", \"-c\", %s]" % q(link)]
        return "\n".join(L) + "\n"

    # -- file-system edits (observable: mtimes from a logical clock) ----------------------------------------------
    def write(self, rel, val):
        p = os.path.join(self.d, rel)
        with open(p, "w") as f:
            f.write("%d\n" % val)
        self.clock += 1
        t = (CX_BASE_T + self.clock) * 10**9
        os.utime(p, ns=(t, t))
        self.trace.append("write %s %d" % (rel, val))

    def remove(self, rel):
        os.unlink(os.path.join(self.d, rel))
        self.trace.append("remove %s" % rel)

    def value(self, rel):
        try:
            return int(open(os.path.join(self.d, rel)).read())
        except (OSError, ValueError):
            return None

    def pick(self, r3, fail=False, fault=None):
        """a source content with the wanted include set (v % 3), exit behaviour (v % 7 == 3) and deps-file fault (v % 11)"""
        while True:
            v = 1 + self.rng.below(100000)
            if v % 3 == r3 and (v % 7 == 3) == fail and (v % 11 == fault if fault is not None else v % 11 not in (5, 6, 7)):
                return v

    def bad(self, what, **kw):
        f = {"what": "[clientx history %d, %s, %d deps file(s)] %s" % (self.k, self.style, self.ndeps, what), "stream": "clientx",
             "style": self.style, "input": {"stream": "clientx", "k": self.k, "seed": self.seed, "thorough": self.thorough,
                                             "trace": list(self.trace)}}
        f.update(kw)
        self.fails.append(f)

    # -- one build -------------------------------------------------------------------------------------------
    def build(self, client, jobs, expect_run=None, expect_not=None, why=""):
        self.clock += 1
        open(os.path.join(self.d, "ctl", "clock"), "w").write("%d\n" % self.clock)
        failed, log, out = client.build(self.d, jobs)
        self.stats["builds"] += 1
        self.trace.append("build -> %s log=%s" % (out, log))
        for nm in set(log):
            if log.count(nm) > 1:
                self.bad("command %s executed %d times in one build" % (nm, log.count(nm)), kind="clientx-twice")
        for nm in expect_run or []:
            if nm not in log:
                self.bad("%s: command %s was NOT re-executed" % (why, nm), kind="clientx-not-rerun")
        for nm in expect_not or []:
            if nm in log:
                self.bad("%s: command %s was re-executed although nothing it depends on changed" % (why, nm), kind="clientx-spurious-rerun")
        # the model's view of this state ------------------------------------------------------------------------
        import sqlite3
        from .c10 import db_snapshot
        nodes = ["s%d.c" % i for i in range(self.ncomp)] + CX_HEADERS + ["o/C%d.o" % i for i in range(self.ncomp)] + ["o/prog"]
        idx = {n: i for i, n in enumerate(nodes)}
        absd = os.path.realpath(self.d).encode()
        L = []
        for n in nodes:
            v = self.value(n) if not n.startswith("o/") else None
            L.append("node %d 0 %d" % (idx[n], 0 if v is None else v + 1))
            L.append("path %d %s" % (idx[n], C.hexs(absd + b"/" + n.encode())))
        expect_failed = {}
        for i in range(self.ncomp):
            L.append("cmd %d 0 %d %d %d" % (i, self.salt[i], idx["s%d.c" % i], idx["o/C%d.o" % i]))
            v = self.value("s%d.c" % i)
            if v is not None and v % 7 == 3:
                L.append("xfail %d 1" % i)
            files = []
            for nm in self.deps_names(i):
                try:
                    files.append(C.hexs(open(os.path.join(self.d, nm), "rb").read()))
                except OSError:
                    files.append("x")
            L.append("xdepsb %d %s %s %s" % (i, self.style, C.hexs(absd), ",".join(files)))
        L.append("cmd %d 0 %d %s %d" % (self.ncomp, 1000 + self.k, ",".join(str(idx["o/C%d.o" % i]) for i in range(self.ncomp)), idx["o/prog"]))
        L.append("evalx")
        try:
            snap = db_snapshot(os.path.join(self.d, "build.db"), self.kinds)
        except sqlite3.Error as e:
            self.bad("build database not readable: %s" % e, kind="clientx-harness")
            return failed, log
        from .c10 import STATUS_OF_KIND
        toks = []
        names = ["C%d" % i for i in range(self.ncomp)] + ["L"]
        ins = [["s%d.c" % i] for i in range(self.ncomp)] + [["o/C%d.o" % i for i in range(self.ncomp)]]
        status = {}
        for ci, (nm, want) in enumerate(zip(names, ins)):
            kind, deps = snap.get(b"C" + nm.encode(), ("<no record>", []))
            extra = list(deps)
            for w in want:
                w = b"N" + w.encode()
                if w in extra:
                    extra.remove(w)
                else:
                    extra.append(b"N<missing request " + w + b">")
            st = STATUS_OF_KIND.get(kind, kind)
            status[nm] = (st, [x[1:] for x in extra])
            toks.append("C%d=%s:%s" % (ci, st, ",".join(C.hexs(x[1:]) for x in extra) if extra else "."))
        for n in nodes:
            if n.startswith("o/"):
                kind, _ = snap.get(b"N" + n.encode(), ("<no record>", []))
                toks.append("%d=%s" % (idx[n], "failed" if kind == "FailedInput" else str(self.value(n)) if kind == "ExistingInput" else kind))
        impl = " ".join(toks)
        self.cases.append((L, impl, list(self.trace[-6:])))
        # bookkeeping for the property oracle: what each command's last successful run recorded
        for i in range(self.ncomp):
            nm = "C%d" % i
            st, extra = status[nm]
            if st == "ok":
                if nm in log or nm not in self.recorded or self.recorded[nm] is None:
                    self.recorded[nm] = set(extra)
            else:
                self.recorded[nm] = None
                self.stats["failed_exit" if (self.value("s%d.c" % i) or 0) % 7 == 3 else "failed_deps"] += 1
        if bool(failed) != any(status[nm][0] != "ok" for nm in names):
            self.bad("the build reports %s (%s) but the recorded command results are %s" % (
                "failure" if failed else "success", out, {n: status[n][0] for n in names}), kind="clientx-build-status")
        return failed, log


def cx_history(exe, base, k, rng, thorough, kinds, seed=None):
    from .c10 import InProc
    style = E2E_STYLES[k % 3]
    ncomp = 1 + (k // 3) % 3
    ndeps = 1 + (k // 9) % 2
    w = CxHistory(base, k, rng, style, ncomp, ndeps, kinds, seed, thorough)
    client = InProc(exe)
    try:
        jobs = lambda: 1 if rng.chance(1, 2) else 4
        absd = os.path.realpath(w.d).encode()
        for h in CX_HEADERS:
            if rng.chance(4, 5):
                w.write(h, 1 + rng.below(1000))
        for i in range(ncomp):
            w.write("s%d.c" % i, w.pick(rng.below(3)))
        allc = ["C%d" % i for i in range(ncomp)]
        w.build(client, jobs(), expect_run=allc + ["L"], why="first build")
        w.build(client, jobs(), expect_not=allc + ["L"], why="null build")
        w.stats["null_builds"] += 1
        for step in range(10 if thorough else 6):
            i = rng.below(ncomp)
            nm = "C%d" % i
            r = rng.below(9)
            rec = w.recorded.get(nm)
            listed = sorted(rec) if rec else []
            if r < 3 and listed:
                # a recorded discovered path changes: edit / delete / create
                p = rng.choice(listed)
                rel = os.path.relpath(p, absd).decode()
                if os.path.exists(os.path.join(w.d, rel)) and rng.chance(1, 3):
                    w.remove(rel)
                else:
                    w.write(rel, 1 + rng.below(1000))
                must = [c for c in allc if w.recorded.get(c) and p in w.recorded[c]]
                others = [c for c in allc if w.recorded.get(c) is not None and p not in w.recorded[c]]
                w.build(client, jobs(), expect_run=must, expect_not=others, why="change of %s, a discovered dependency recorded for %s" % (rel, must))
                w.stats["reruns_after_header_change"] += len(must)
            elif r == 3:
                # a header that is NOT recorded for anybody changes: nothing re-runs
                free = [h for h in CX_HEADERS if all(not w.recorded.get(c) or (absd + b"/" + h.encode()) not in w.recorded[c] for c in allc)
                        and all(w.recorded.get(c) is not None for c in allc)]
                if free:
                    w.write(rng.choice(free), 1 + rng.below(1000))
                    w.build(client, jobs(), expect_not=allc + ["L"], why="change of a header no command lists")
                    w.stats["null_builds"] += 1
            elif r == 4:
                # the source changes so that the command lists another set of headers
                old = w.value("s%d.c" % i)
                w.write("s%d.c" % i, w.pick(((old or 0) + 1) % 3))
                w.build(client, jobs(), expect_run=[nm], why="source of %s edited" % nm)
            elif r == 5:
                # the command exits with a non-zero status; it is retried; then repaired
                keep = w.value("s%d.c" % i) or 0
                w.write("s%d.c" % i, w.pick(keep % 3, fail=True))
                w.build(client, jobs(), expect_run=[nm], expect_not=["L"], why="%s exits with status 3" % nm)
                w.build(client, jobs(), expect_run=[nm], expect_not=["L"], why="%s failed in the previous build: retried" % nm)
                w.stats["retried"] += 1
                w.write("s%d.c" % i, w.pick(keep % 3))
                w.build(client, jobs(), expect_run=[nm, "L"], why="%s repaired" % nm)
            elif r in (6, 7, 8):
                # a dependency file is missing (first / last of the list) or malformed behind its first words
                fault = {6: 5, 7: 6, 8: 7}[r]
                keep = w.value("s%d.c" % i) or 0
                w.write("s%d.c" % i, w.pick(keep % 3, fault=fault))
                w.build(client, jobs(), expect_run=[nm], expect_not=["L"], why="dependency file of %s %s" % (nm, {5: "missing (first)", 6: "malformed", 7: "missing (last)"}[fault]))
                w.build(client, jobs(), expect_run=[nm], expect_not=["L"], why="%s failed in the previous build: retried" % nm)
                w.stats["retried"] += 1
                w.write("s%d.c" % i, w.pick(keep % 3))
                w.build(client, jobs(), expect_run=[nm, "L"], why="%s repaired" % nm)
            if rng.chance(1, 2) and all(w.recorded.get(c) is not None for c in allc):
                w.build(client, jobs(), expect_not=allc + ["L"], why="null build")
                w.stats["null_builds"] += 1
    finally:
        client.close()
        import shutil
        shutil.rmtree(w.d, ignore_errors=True)
    return w


def probe_discovered_generated_header(exe, base):
    """What `DiscsAreSources` (Props/C08X.lean) excludes, on the real tool: a command DISCOVERS a path that another command produces
    (a generated header nobody declares).  The engine brings the header up to date only after the discovering command ran, so the
    result depends on the order of events and an incremental build differs from a clean one.  Executed, counted, NOT judged (the
    description is under-specified by the tool's own account: BuildEngine.cpp `FIXME: ... an underspecified build (e.g., a generated
    header)`).  Returns a dict for the evidence."""
    import shutil
    from .c10 import InProc
    d = os.path.join(base, "cx-genhdr")
    shutil.rmtree(d, ignore_errors=True)
    os.makedirs(os.path.join(d, "o"))
    absd = os.path.realpath(d)
    gen = absd + "/o/gen.h"
    open(os.path.join(d, "build.llbuild"), "w").write(
        'client:\n  name: basic\n  version: 0\n\ntargets:\n  "": ["o/obj"]\n\ncommands:\n'
        '  "G":\n    tool: shell\n    inputs: ["g.src"]\n    outputs: ["%s"]\n    args: ["/bin/sh", "-c", "echo G >> log; cat g.src > o/gen.h"]\n'
        '  "C":\n    tool: shell\n    inputs: ["c.src"]\n    outputs: ["o/obj"]\n'
        '    args: ["/bin/sh", "-c", "echo C >> log; cat c.src o/gen.h > o/obj 2>/dev/null; echo o/obj: o/gen.h > o/c.d"]\n'
        '    deps: "o/c.d"\n    deps-style: makefile\n' % gen)

    def wr(rel, txt, t):
        p = os.path.join(d, rel)
        open(p, "w").write(txt)
        os.utime(p, ns=((CX_BASE_T + t) * 10**9,) * 2)
    wr("g.src", "g1\n", 1)
    wr("c.src", "c1\n", 2)
    cl = InProc(exe)
    out = {}
    try:
        r1 = cl.build(d, 1)
        obj1 = open(os.path.join(d, "o", "obj")).read()
        r2 = cl.build(d, 1)
        wr("g.src", "g2, longer\n", 3)
        r3 = cl.build(d, 1)
        obj3 = open(os.path.join(d, "o", "obj")).read()
        # the clean build of the final sources
        c = d + "-clean"
        shutil.rmtree(c, ignore_errors=True)
        os.makedirs(os.path.join(c, "o"))
        shutil.copy(os.path.join(d, "build.llbuild"), c)
        txt = open(os.path.join(c, "build.llbuild")).read().replace(absd, os.path.realpath(c))
        open(os.path.join(c, "build.llbuild"), "w").write(txt)
        shutil.copy2(os.path.join(d, "g.src"), c)
        shutil.copy2(os.path.join(d, "c.src"), c)
        rc = cl.build(c, 1)
        objc = open(os.path.join(c, "o", "obj")).read()
        out = {"first_build": [r1[0], r1[1]], "null_build": [r2[0], r2[1]], "after_editing_the_generator_source": [r3[0], r3[1]],
               "object_after_first_build": obj1, "object_after_incremental_build": obj3, "object_of_clean_build": objc,
               "incremental_differs_from_clean": obj3 != objc}
        shutil.rmtree(c, ignore_errors=True)
    finally:
        cl.close()
        shutil.rmtree(d, ignore_errors=True)
    return out


def corr_clientx(ctx, res):
    import threading
    from .c10 import generated_names
    n_e2e = corr_clientx_e2e(ctx, res)
    exe = ctx.exe[("vc10", "plain")]
    base = os.path.join(C.BUILD, "scratch", "c11-clientx-%d" % os.getpid())
    os.makedirs(base, exist_ok=True)
    kinds = generated_names()[0]
    n = 108 if ctx.thorough else 27
    seeds = [ctx.rng.next() for _ in range(n)]
    worlds, errs = [None] * n, []
    nxt, lock = [0], threading.Lock()

    def worker():
        while True:
            with lock:
                i = nxt[0]
                nxt[0] += 1
            if i >= n:
                return
            try:
                worlds[i] = cx_history(exe, base, i, C.Rng(seeds[i], "C11cx"), ctx.thorough, kinds, seeds[i])
            except Exception as e:
                import traceback
                errs.append("history %d: %s\n%s" % (i, e, traceback.format_exc()[-600:]))
    ts = [threading.Thread(target=worker) for _ in range(8)]
    [t.start() for t in ts]
    [t.join() for t in ts]
    for e in errs[:5]:
        res.mismatches.append({"stream": "clientx", "input": e[-500:], "model": "", "impl": "harness exception: " + e[:200]})
    tot = {}
    cases = []
    for w in worlds:
        if w is None:
            continue
        res.oracle_failures += w.fails
        for k, v in w.stats.items():
            tot[k] = tot.get(k, 0) + v
        cases += w.cases
    ncmp = ncmd = nkeys = 0
    if cases:
        mrc, mout, merr = run_model("c08xclean", [l for c in cases for l in c[0]])
        if mrc != 0 or len(mout) != len(cases):
            if ctx.model_ok:
                res.mismatches.append({"stream": "clientx", "input": "model driver exit %s, %d/%d lines" % (mrc, len(mout), len(cases)), "model": merr[-300:]})
        else:
            for (ls, impl, tr), m in zip(cases, mout):
                m = m.replace("=depsfailed:", "=failed:")      # the database has one kind (FailedCommand) for both causes
                ncmp += 1
                ncmd += sum(1 for t in impl.split() if t.startswith("C"))
                nkeys += sum(len(t.partition(":")[2].split(",")) for t in impl.split() if t.startswith("C") and not t.endswith(":."))
                if m != impl and len(res.mismatches) < 20:
                    res.mismatches.append({"stream": "clientx", "input": {"ops": ls, "last_steps": tr}, "model": m, "impl": impl})
    try:
        probe = probe_discovered_generated_header(exe, base)
    except Exception as e:
        probe = {"error": str(e)}
    import shutil
    shutil.rmtree(base, ignore_errors=True)
    res.evaluations += tot.get("builds", 0)
    res.distinct_nontrivial += tot.get("reruns_after_header_change", 0) + tot.get("retried", 0)
    res.distribution["clientx"] = dict(tot, histories=n, e2e_builds_compared_with_client_model=n_e2e, builds_compared_with_client_model=ncmp,
                                       command_records_compared=ncmd, discovered_keys_compared=nkeys,
                                       probe_discovered_generated_header_not_judged=probe)


C19_DEPS_THEOREMS = [
    "LLBuild.MakeDeps.C19_makedeps_no_oob", "LLBuild.MakeDeps.C19_makedeps_terminates", "LLBuild.MakeDeps.C19_lexWord_no_oob",
    "LLBuild.MakeDeps.C19_makedeps_slices_in_bounds",
    "LLBuild.DepInfo.C19_depinfo_no_oob", "LLBuild.DepInfo.C19_depinfo_terminates",
]


class Check(PropertyCheck):
    prop = "C11"
    module = "LLBuild.Props.C11All"
    theorems = [
        "LLBuild.MakeDeps.C11_roundtrip_word", "LLBuild.MakeDeps.C11_roundtrip_target",
        "LLBuild.MakeDeps.C11_roundtrip_file", "LLBuild.MakeDeps.C11_roundtrip_file_ignoring", "LLBuild.MakeDeps.C11_roundtrip_file_discovered",
        "LLBuild.MakeDeps.C11_inexpressible_newline", "LLBuild.MakeDeps.C11_inexpressible_control",
        "LLBuild.MakeDeps.C11_comment_skipped", "LLBuild.MakeDeps.C11_relative_resolved", "LLBuild.MakeDeps.C11_absolute_unchanged",
        "LLBuild.DepInfo.C11_depinfo_roundtrip", "LLBuild.ShellDeps.C11_malformed_fails", "LLBuild.ShellDeps.C11_wellformed_succeeds",
        "LLBuild.ShellDeps.C11_success_registers_every_file", "LLBuild.ShellDeps.C11_succeeded_only_if_processed",
        # engine half: a recorded discovered dependency whose external value changed can never be declared up to date
        "LLBuild.Engine.C11_discovered_change_not_up_to_date",
        # ... instantiated for the BuildSystem's rule set with discovered dependencies (Props/C08X.lean, Model/BuildSystemClientX.lean)
        "LLBuild.BuildSystemClient.C11_client_honoured", "LLBuild.BuildSystemClient.C11_client_discovered_recorded",
        "LLBuild.BuildSystemClient.C11_client_discovered_only_on_success", "LLBuild.BuildSystemClient.C11_client_missing_depsfile_fails",
        "LLBuild.BuildSystemClient.C11_client_keys_are_parsed_keys",
    ] + C19_DEPS_THEOREMS
    # x_bsrules: Props/C08X.lean quantifies over the generated rule tables of the C08 client model
    extractors = ["x_depsparsers", "x_bsrules", "x_failtables", "x_enginefp"]
    impl_cfgs = ["plain", "asan"]
    # vc10 (C10's harness): its `c10build` mode is the in-process keep-going client of the `clientx` histories
    harnesses = [(HARNESS, "plain"), (HARNESS, "asan"), ("vc10", "plain")]
    assumptions = [
        "hand model of MakefileDepsParser / DependencyInfoParser / processDiscoveredDependencies, tied by differential correspondence "
        "(action streams compared verbatim on valid, truncated-at-every-prefix, mutated and exhaustive small inputs; ASan+UBSan build, exact-size heap buffers)",
        "the working directory of the command is set and absolute (configureAttribute makes it so); with no working-directory attribute "
        "make_absolute resolves against the process's current directory, which is not modelled",
        "llvm::sys::path::append / is_absolute (POSIX style) are modelled for one component and corresponded, not proved",
        "the end-to-end clause (touching a discovered path re-executes the command) is a theorem about traces accepted by the abstract engine "
        "(C11_discovered_change_not_up_to_date), instantiated for the BuildSystem's rule set with discovered dependencies (C11_client_honoured, "
        "C11_client_discovered_recorded over Model/BuildSystemClientX.lean; hypotheses: DiscsAreSources - every path a command can report is a "
        "source file of the description -, the F22 ghost flag of C01 clear, the discovered list a function of the contents of the declared "
        "inputs); safety form (no accepted history declares the command up to date), the engine model has no liveness; on the real code it is "
        "checked by the c11e2e histories (oracle) and by the `clientx` stream (the discovered keys and value kinds the engine records in "
        "build.db against the client model)",
        "dependency-info input records: the model follows the extracted fingerprint shDepInfoInputResolved (unrepaired code: the operand is the key as "
        "it is, i.e. a relative path is relative to the process's directory, finding F41; such cases are probed and counted, not judged, until the fix is in)",
    ]
    trusted_base = ["extractor x_depsparsers (character classes, escape set, comment loop operator, bounds guards, opcode enum)",
                    "extractors x_bsrules, x_failtables, x_enginefp and the hand models Model/Engine.lean, Model/BuildSystemClient.lean, "
                    "Model/BuildSystemClientX.lean for the engine-level theorems (C11_client_*); harness vc10 (keep-going client) and the build.db "
                    "decoder of the `clientx` stream",
                    "correspondence harness vc11 (makedeps, depinfo, resolve, c11bs, c11e2e) and its generators",
                    "python oracles (escape/mk_file/resolve_spec restated independently; sanitizer reports; watchdog)"]

    def replay(self, ctx, res):
        """--replay <file>: run the recorded input alone (real parser under ASan vs the model); the recorded oracle verdict is
        re-derived from scratch: abort / hang / stream different from the model = failure."""
        import json
        rec = json.load(open(ctx.replay_path))
        f = rec.get("failure", {})
        inp = f.get("input", {})
        if inp.get("stream") == "c11e2e":
            return self.replay_e2e(ctx, res, f)
        if inp.get("stream") == "clientx" and inp.get("seed") is not None:
            # one recorded compile-like history, generated again from its seed and judged again (property oracle only)
            from .c10 import generated_names
            base = os.path.join(C.BUILD, "scratch", "c11-clientx-replay-%d" % os.getpid())
            os.makedirs(base, exist_ok=True)
            w = cx_history(ctx.exe[("vc10", "plain")], base, inp["k"], C.Rng(inp["seed"], "C11cx"), bool(inp.get("thorough")),
                           generated_names()[0], inp["seed"])
            C.log("replay clientx history %d: %d builds, %d failures\n  %s" % (inp["k"], w.stats["builds"], len(w.fails), "\n  ".join(w.trace[-12:])))
            res.evaluations += w.stats["builds"]
            res.oracle_failures += w.fails
            res.rule = "replay of one recorded history"
            import shutil
            shutil.rmtree(base, ignore_errors=True)
            return
        if "line" in inp:
            mode, hmode, cfg, line, extra = "c11bs", "c11bs", "plain", inp["line"], [os.path.join(C.BUILD, "scratch")]
        elif "wd" in inp:
            mode, hmode, cfg, line, extra = "c11resolve", "resolve", "plain", "%s %s" % (inp["wd"], inp["path"]), []
        elif f.get("parser") == "depinfo":
            mode, hmode, cfg, line, extra = "c11depinfo", "depinfo", "asan", inp["hex"], []
        elif "hex" in inp:
            mode, hmode, cfg, line, extra = "c11makedeps", "makedeps", "asan", "%d %s" % (inp.get("ign", 0), inp["hex"]), []
        else:
            C.log("replay file has no input (kind=%s): nothing to run" % rec.get("kind"))
            return
        hout, _ = run_attributed([ctx.exe[(HARNESS, cfg)], hmode] + extra, [line])
        mrc, mout, merr = run_model(mode, [line])
        C.log("replay input: %s\n  impl : %s\n  model: %s" % (line, hout[0], mout[0] if mout else merr[-200:]))
        res.evaluations += 1
        if hout[0].startswith(("ABORT", "HANG")) or not mout or mout[0] != hout[0]:
            g = dict(f)
            g.setdefault("what", "replayed input still fails")
            g["replayed"] = {"impl": hout[0][:400], "model": (mout[0] if mout else "")[:400]}
            res.oracle_failures.append(g)
        res.rule = "replay of one recorded input"

    def replay_e2e(self, ctx, res, f):
        """one recorded history through the real shell-command path, judged again by the property oracle"""
        inp = f["input"]
        scratch = os.path.join(C.BUILD, "scratch")
        os.makedirs(scratch, exist_ok=True)
        line = inp["line"]
        if inp.get("scratch") and inp["scratch"] != scratch:        # recorded under another build directory: re-base the paths
            line = line.replace(C.hexs(inp["scratch"].encode()), C.hexs(scratch.encode()))
        hout, _ = run_attributed([ctx.exe[(HARNESS, "plain")], "c11e2e", scratch], [line], watchdog=300)
        expect = [{"status": e[0], "ran": e[1], "why": e[2],
                   "deps": None if e[3] is None else [C.unhex(x.replace(C.hexs(inp["scratch"].encode()), C.hexs(scratch.encode()))) for x in e[3]]}
                  for e in inp["expect"]]
        builds = None if hout[0].startswith(("ABORT", "HANG")) else parse_e2e(hout[0])
        C.log("replay history: %s\n  expected (status, ran, why): %s\n  builds: %s" % (
            line[:300], [(e["status"], e["ran"], e["why"]) for e in expect], hout[0][:2000]))
        res.evaluations += 1
        meta = {"pos": inp.get("pos"), "nfiles": inp.get("nfiles"), "style": inp.get("style"), "wdmode": inp.get("wdmode"), "fault": inp.get("fault")}
        for g in e2e_judge(line, expect, builds, meta):
            g["input"] = inp
            g["replayed"] = {"impl": hout[0][:600]}
            res.oracle_failures.append(g)
        res.rule = "replay of one recorded history"

    def correspond(self, ctx, res):
        if getattr(ctx, "replay_path", None):
            return self.replay(ctx, res)
        corr_makedeps(ctx, res)
        corr_depinfo(ctx, res)
        corr_resolve(ctx, res)
        corr_buildsystem(ctx, res)
        corr_e2e(ctx, res)
        corr_clientx(ctx, res)
        res.rule = ("Makefile deps: files written by mk_file over an alphabet with every special character (plain / decorated with comments and "
                    "blank space / without final newline / ignoreSubsequentOutputs), every proper prefix of each of the first valid files, seeded "
                    "mutations, and every string over 8 structural bytes up to a length bound; dependency-info likewise (plus files with extra "
                    "trailing NULs, every string over 6 bytes up to a bound); resolve: 6 working directories x every path over 4 bytes up to a bound "
                    "+ seeded; build-system: one real build per case.  Non-trivial = valid files whose round trip is checked by the python oracle, "
                    "relative paths, failed commands.  "
                    "END TO END (c11e2e): one HISTORY per case through the real shell-command path (manifest -> ShellCommand with a `deps:` list of "
                    "1-3 files in scalar or list form, relative or absolute file names -> processDiscoveredDependencies -> engine -> build database; "
                    "every build in a fresh BuildSystem over the same database): full factorial of 3 styles x working-directory absent / absolute / "
                    "relative x 1-3 files, crossed with well-formed / malformed by construction (variable reference, no colon, no target; no version "
                    "record, no final NUL, unknown opcode, empty operand) / missing / mutated file at every position of the list; listed paths over the "
                    "full alphabet in relative (plain, ./, ../, nested) and absolute spellings, half of them existing.  Oracle = the property: a "
                    "malformed file at any position fails the command and the command runs again on the next build; after a successful build an edit, "
                    "creation or deletion of a listed path (one of EVERY file of the list, resolved against the command's working directory by the "
                    "oracle) re-executes the command, also for paths listed only since the previous run, and a build with no change does not; "
                    "the discovered keys are the listed paths.  Each build in which the command ran is also compared with the Lean model "
                    "(c11bsl: ShellDeps.completion / discoveredKeys on the files as they were).  Non-trivial = verified re-executions + failed builds.  "
                    "CLIENTX: (a) each of those builds again through the extended client model (c08xclean: dependency-file bytes -> absDepsFile -> "
                    "processDeps -> runX: how the execution ends, which keys go to the engine); (b) 27 (thorough 108) histories of 1-3 compile-like "
                    "shell commands + a link step through an in-process keep-going client: the commands write their own dependency files (3 styles, "
                    "1-2 files) listing a set of headers that is a function of the source they read, exit non-zero / leave no / a malformed "
                    "dependency file for certain sources; edits, deletions, creations of recorded and unrecorded headers, source edits that "
                    "change the include set, failures, retries, repairs, null builds, serial and 4 lanes; after EVERY build the value kind and the "
                    "dependency list of every command in build.db and the contents of every output are compared with the model's clean "
                    "evaluation, and the property is evaluated by python (re-run iff a recorded discovered path changed, failed commands "
                    "retried, dependents of a failed command not run); one probe (discovered GENERATED header) is executed and counted, not judged.")

    def search(self, ctx, res, why):
        return


CHECK = Check()
