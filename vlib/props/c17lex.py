"""C17LEX — lexical half of C17 (keywords as whole words, high bytes ordinary, $-escapes/continuations at
token level, shell quoting round trip) and the Ninja-lexer part of C19 (no over-read, termination, tokens
tile the input, EndOfFile only at the true end).

The routines below (generators, `run_lex`, `check_tokens`, `run_shesc`, `binsh_words`, `py_sh_words`) are
plain functions so that the combined C17 / C19 checks can call them."""
import os, re, subprocess
from concurrent.futures import ThreadPoolExecutor
from .. import common as C
from ..runner import PropertyCheck

HARNESS = ("vc17lex", "asan")
ENV = {"ASAN_OPTIONS": "detect_leaks=0:abort_on_error=0", "UBSAN_OPTIONS": "print_stacktrace=0"}
CORPUS = os.path.join(C.VERIF, "corpus", "C17LEX")

# ---- the specification, written from the Ninja manual (independent of Generated/ and of the Lean model) ----
KEYWORDS = {b"build": "KWBuild", b"rule": "KWRule", b"pool": "KWPool", b"default": "KWDefault",
            b"include": "KWInclude", b"subninja": "KWSubninja"}
IDENT = set(b"abcdefghijklmnopqrstuvwxyzABCDEFGHIJKLMNOPQRSTUVWXYZ0123456789_.-")
SPACE = set(b" \t\n\v\f\r")
TRIVIA = re.compile(rb"(?:[ \t\x0b\x0c]|\$\n\r?|\$\r\n)*\Z")
IDENT_KINDS = set(KEYWORDS.values()) | {"Identifier"}


def _get(buf, i):
    """index after one getNextChar() at i (CR/LF pairs fold into one newline); also says whether it was a newline"""
    n = len(buf)
    if i >= n:
        return i, False
    c = buf[i]
    if c in (10, 13):
        j = i + 1
        if j < n and buf[j] == 23 - c:
            j += 1
        return j, True
    return i + 1, False


def string_extent(mode, buf, start):
    """Where a String token starting at `start` must end, from the Ninja manual's token-level rules: `$` escapes the
    next character (an escaped newline is a line continuation; in paths the indentation after it is skipped too);
    a variable value runs to the end of the line, a path to the next unescaped blank, newline, ':' or '|'."""
    n, i = len(buf), start
    stop = (10, 13) if mode == "v" else tuple(SPACE | {0x3a, 0x7c})
    while i < n:
        c = buf[i]
        if c == 0x24:
            i, nl = _get(buf, i + 1)
            if nl and mode != "v":
                while i < n and buf[i] in (0x20, 0x09, 0x0b, 0x0c):
                    i += 1
            continue
        if c in stop:
            break
        i += 1
    return i


def model_cmd():
    """the compiled Lean driver (a private build can be substituted before integration)"""
    return [os.environ.get("VERIF_C17LEX_MODEL") or C.model_exe()]


# ------------------------------------------------------------------------------------------------
# running both sides
# ------------------------------------------------------------------------------------------------
def run_pair(model_mode, harness_exe, harness_mode, lines):
    import threading
    r = {}
    t1 = threading.Thread(target=lambda: r.__setitem__("m", C.run_lines(model_cmd() + [model_mode], lines)))
    t2 = threading.Thread(target=lambda: r.__setitem__("h", C.run_lines([harness_exe, harness_mode], lines, env=ENV)))
    t1.start(); t2.start(); t1.join(); t2.join()
    return r["m"], r["h"]


def lex_line(modes, buf):
    return "%s %s" % (modes, C.hexs(buf))


def parse_tokens(out):
    """'ok K,s,l,line,col ...' -> (status, [(kind, start, len, line, col)], rest-of-line)"""
    f = out.split(" ")
    st = f[0]
    toks = []
    if st in ("ok", "hang"):
        for t in f[1:]:
            p = t.split(",")
            if len(p) != 5:
                return "garbled", [], out
            toks.append((p[0], int(p[1]), int(p[2]), int(p[3]), int(p[4])))
    return st, toks, " ".join(f[1:])


def check_tokens(modes, buf, out):
    """The property oracle on the REAL lexer's token stream for one input.  Returns a list of failure dicts."""
    fails = []
    n = len(buf)
    base = {"input": {"modes": modes, "hex": C.hexs(buf), "bytes": repr(buf[:80]), "line": lex_line(modes, buf)}}

    def fail(oracle, what, **kw):
        d = dict(base)
        d.update({"oracle": oracle, "what": what})
        d.update(kw)
        fails.append(d)
    st, toks, rest = parse_tokens(out)
    if st == "crash":
        fail("sanitizer", "lexing crashed or a sanitizer reported: " + rest, report=rest.split(" ")[-1],
             last_byte=(buf[-1] if n else None), dollar_is_last=bool(n and buf[-1] == 0x24))
        return fails
    if st == "hang":
        fail("termination", "more than size+2 tokens without EndOfFile")
        return fails
    if st != "ok" or not toks:
        fail("protocol", "unparsable harness line: " + out[:100])
        return fails
    prev_end = 0
    for k, (kind, start, ln, _line, _col) in enumerate(toks):
        mode = modes[k % len(modes)]
        if start < prev_end or start + ln > n:
            fail("tile", "token %d (%s) [%d,%d) overlaps its predecessor or leaves the buffer" % (k, kind, start, start + ln), token=kind)
            return fails
        gap = buf[prev_end:start]
        at_line_start = prev_end == 0 or buf[prev_end - 1] in (10, 13)
        if gap and at_line_start and kind != "EndOfFile":
            # at column 0 leading blanks are an Indentation token and `$` is not a continuation: nothing may be skipped
            fail("tile", "bytes %r skipped at the start of a line before token %d (%s)" % (gap[:20], k, kind), token=kind, at_line_start=True)
        if not TRIVIA.match(gap):
            fail("tile", "bytes %r between token %d and %d are neither whitespace nor $-newline continuations" % (gap[:20], k - 1, k),
                 token=kind, gap_has_high_byte=any(b >= 0x80 for b in gap))
        last = k == len(toks) - 1
        if kind == "EndOfFile":
            if start != n or ln != 0:
                fail("eof", "EndOfFile reported at offset %d of %d" % (start, n), byte_at_eof=(buf[start] if start < n else None))
            if not last:
                fail("eof", "token after EndOfFile")
            break
        if ln == 0:
            fail("tile", "empty %s token at %d" % (kind, start), token=kind)
        tb = buf[start:start + ln]
        end = start + ln
        if kind in IDENT_KINDS:
            want = "Identifier" if mode == "i" else KEYWORDS.get(tb, "Identifier")
            if kind != want:
                fail("keyword", "identifier %r classified %s, whole-word rule says %s" % (tb, kind, want), got=kind, want=want,
                     ident_prefix=tb[:7].decode("latin-1"), ident_len=len(tb))
            if end < n and buf[end] in IDENT:
                fail("keyword", "identifier token %r stops before identifier character %r" % (tb, buf[end:end + 1]), got=kind, want="longer")
        if kind == "Comment":
            if tb[:1] != b"#" or b"\n" in tb or b"\r" in tb or (end < n and buf[end] not in (10, 13)):
                fail("comment", "Comment token %r is not '#' up to the end of the line" % tb[:40])
        if kind == "String":
            stop = ({10, 13} if mode == "v" else SPACE | {0x3a, 0x7c})
            if end < n and buf[end] not in stop:
                fail("string-end", "String token ends at offset %d before ordinary byte 0x%02x" % (end, buf[end]),
                     stop_byte=buf[end], high=buf[end] >= 0x80)
            elif end != string_extent(mode, buf, start):
                fail("string-extent", "String token [%d,%d) but $-escape / terminator rules give [%d,%d)" % (start, end, start, string_extent(mode, buf, start)))
        prev_end = end
    else:
        fail("eof", "no EndOfFile token")
    return fails


def run_lex(harness_exe, cases, model_mode="c17lex"):
    """cases: [(modes, bytes)] -> (model (rc, lines, err), harness (rc, lines, err))"""
    lines = [lex_line(m, b) for m, b in cases]
    return run_pair(model_mode, harness_exe, "lex", lines)


def run_shesc(harness_exe, paths):
    lines = [C.hexs(p) for p in paths]
    return run_pair("c17shesc", harness_exe, "shesc", lines)


# ------------------------------------------------------------------------------------------------
# /bin/sh: the reference for the quoting round trip
# ------------------------------------------------------------------------------------------------
PLAIN = set(b"abcdefghijklmnopqrstuvwxyzABCDEFGHIJKLMNOPQRSTUVWXYZ0123456789-_/:@%+=.,")


def py_sh_words(text):
    """POSIX sh field splitting / quote removal for the sub-language shellEscaped may emit; None = outside it.
    Independent python statement of the rules (also the guard that decides whether text may be handed to /bin/sh)."""
    words, cur, i, n = [], None, 0, len(text)
    while i < n:
        c = text[i]
        if c == 0x27:
            j = text.find(b"'", i + 1)
            if j < 0 or 0 in text[i + 1:j]:
                return None
            cur = (cur or b"") + text[i + 1:j]
            i = j + 1
        elif c == 0x5c:
            if i + 1 < n and text[i + 1] == 0x27:
                cur = (cur or b"") + b"'"
                i += 2
            else:
                return None
        elif c in (0x20, 0x09):
            if cur is not None:
                words.append(cur)
                cur = None
            i += 1
        elif c == 0x23 and cur is None:
            if b"\n" in text[i:]:
                return None
            return words
        elif c in PLAIN or c == 0x23:
            cur = (cur or b"") + bytes([c])
            i += 1
        else:
            return None
    if cur is not None:
        words.append(cur)
    return words


def binsh_words(text):
    """Fields /bin/sh passes to a command for the argument text; None when sh rejects the text.
    Only call for text inside the sub-language (py_sh_words(text) is not None): nothing else is ever executed."""
    if 0 in text:
        return None
    p = subprocess.run(["/bin/sh", "-c", b'printf "%s\\0" X ' + text], stdout=subprocess.PIPE, stderr=subprocess.PIPE,
                       stdin=subprocess.DEVNULL, timeout=20)
    if p.returncode != 0:
        return None
    parts = p.stdout.split(b"\0")
    if len(parts) < 2 or parts[0] != b"X" or parts[-1] != b"":
        return None
    return parts[1:-1]


def binsh_many(texts):
    with ThreadPoolExecutor(16) as ex:
        return list(ex.map(binsh_words, texts))


# ------------------------------------------------------------------------------------------------
# generators
# ------------------------------------------------------------------------------------------------
def corpus_files():
    out = []
    if os.path.isdir(CORPUS):
        for f in sorted(os.listdir(CORPUS)):
            if f.endswith(".ninja"):
                out.append((f, open(os.path.join(CORPUS, f), "rb").read()))
    return out


def corpus_regressions():
    """corpus/C17LEX/*.cases: lines '<modes> <hex>  # comment'"""
    out = []
    if os.path.isdir(CORPUS):
        for f in sorted(os.listdir(CORPUS)):
            if f.endswith(".cases"):
                for l in open(os.path.join(CORPUS, f)):
                    l = l.split("#")[0].strip()
                    if l:
                        m, h = l.split()
                        out.append((m, C.unhex(h)))
    return out


NAMES = [b"cc", b"link", b"a.o", b"b-1.o", b"out/x_y", b"rule", b"build", b"pool", b"default", b"include", b"subninja",
         b"builds", b"rul", b"in", b"out", b"phony", b"\xc3\xa9t\xc3\xa9", b"f\xffg", b"d\x80", b"a$ b", b"c$:d", b"e$$f",
         b"x=y", b"#h", b"p|q", b"${v}", b"$v.w"]
NL = [b"\n", b"\n", b"\n", b"\r\n", b"\r", b"\n\r"]


def gen_manifest(rng):
    """mostly-valid Ninja text from the declaration grammar, with all newline styles, continuations, comments"""
    out = []

    def nl():
        return rng.choice(NL)

    def name():
        return rng.choice(NAMES)

    def sp():
        return rng.choice([b" ", b" ", b"  ", b"\t", b" $" + nl() + b"    ", b""]) if rng.chance(1, 4) else b" "

    def value():
        parts = [rng.choice([b"cc", b"-o", b"$out", b"$in", b"${in}", b"$$", b"$ ", b"$:", b"x y", b"'q'", b"\xe2\x82\xac", b"\xff",
                              b"$" + nl() + b"   more", b"a=b", b"#no", b":", b"|", b"||"]) for _ in range(1 + rng.below(5))]
        return b" ".join(parts)

    def bindings(ind):
        b = b""
        for _ in range(rng.below(3)):
            b += ind + rng.choice([b"command", b"description", b"depfile", b"deps", b"rspfile", b"pool", b"x.y-z", b"build"]) + \
                sp() + b"=" + sp() + value() + nl()
        return b
    for _ in range(1 + rng.below(6)):
        k = rng.below(9)
        if k == 0:
            out.append(b"rule" + sp() + name() + nl() + bindings(rng.choice([b"  ", b"\t", b" "])))
        elif k == 1:
            s = b"build" + sp() + b" ".join(name() for _ in range(1 + rng.below(2))) + rng.choice([b":", b" :", b": "]) + sp() + name()
            s += b"".join(b" " + name() for _ in range(rng.below(3)))
            if rng.chance(1, 3):
                s += b" | " + name()
            if rng.chance(1, 3):
                s += rng.choice([b" || ", b"||", b" |", b"| |"]) + name()
            out.append(s + nl() + bindings(b"  "))
        elif k == 2:
            out.append(name() + sp() + b"=" + sp() + value() + nl())
        elif k == 3:
            out.append(b"default" + b"".join(b" " + name() for _ in range(1 + rng.below(2))) + nl())
        elif k == 4:
            out.append(rng.choice([b"include", b"subninja"]) + b" " + name() + nl())
        elif k == 5:
            out.append(b"pool " + name() + nl() + b"  depth = " + rng.choice([b"1", b"42"]) + nl())
        elif k == 6:
            out.append(b"#" + value() + nl())
        elif k == 7:
            out.append(rng.choice([b"", b"  ", b"\t \t", b" $", b"$" + nl()]) + nl())
        else:
            out.append(rng.choice([b"  ", b""]) + value() + (nl() if rng.chance(3, 4) else b""))
    s = b"".join(out)
    if rng.chance(1, 5) and s:
        s = s[:rng.below(len(s))]          # cut anywhere (interrupted writer)
    return s


def gen_keyword_near():
    """every keyword-length identifier one substitution/extension/truncation away from a keyword, in context"""
    alpha = b"abejklrstuxyz_.-09AZ" + bytes([0x20, 0x3a, 0x24, 0x80, 0xff, 0x00, 0x0a])
    ids = set()
    for kw in KEYWORDS:
        ids.add(kw)
        for i in range(len(kw)):
            for c in alpha:
                ids.add(kw[:i] + bytes([c]) + kw[i + 1:])       # substitution at every position
            ids.add(kw[:i] + kw[i + 1:])                        # deletion
        for c in alpha:
            ids.add(kw + bytes([c]))
            ids.add(bytes([c]) + kw)
        ids.add(kw.upper())
        ids.add(kw[:-1])
        ids.add(kw + kw)
    cases = []
    for w in sorted(ids):
        cases.append(("n", w))                     # the identifier is the whole buffer (memcmp at the very end)
        cases.append(("n", w + b" x"))
        cases.append(("n", b"a " + w))
        cases.append(("i", w))
        cases.append(("np", w + b" out: in"))
    return cases


def gen_high_bytes(rng, n):
    frames = [b"%s", b"x = a%sb\n", b"build o%s: cc i%s\n", b"a%s", b"%sb", b"rule r%s\n  command = c %s d\n", b"# c%s\nz",
              b"a $\n %s", b"  %s  ", b"v = $%s\n", b"p%s|q", b"p%s:q"]
    out = []
    for b in list(range(0x80, 0x100)):
        for fr in frames[:6]:
            s = fr.replace(b"%s", bytes([b]))
            for m in ("n", "v", "p", "i"):
                out.append((m, s))
    for _ in range(n):
        fr = rng.choice(frames)
        hb = bytes(rng.choice([0xff, 0xff, 0x80, 0xfe, 0xc3, 0xa9, 0xa0, 0x85]) for _ in range(1 + rng.below(3)))
        out.append((rng.choice(["n", "v", "p", "i", "nv", "npv", "pv"]), fr.replace(b"%s", hb)))
    return out


def gen_truncations(files, modes_list, step_big=7):
    """every prefix of each corpus manifest (files above 400 bytes: every prefix of the first 400, then every 7th)"""
    out = []
    for _name, data in files:
        cuts = list(range(0, min(len(data), 400) + 1)) + list(range(400, len(data) + 1, step_big))
        for m in modes_list:
            for c in cuts:
                out.append((m, data[:c]))
    return out


RANDOM_ALPHA = [0x24, 0x24, 0x0a, 0x0a, 0x0d, 0x20, 0x20, 0x09, 0x3a, 0x7c, 0x7c, 0x23, 0x3d, 0x61, 0x62, 0x2e, 0x2d, 0x5f, 0x30,
                0xff, 0x80, 0x00, 0x0b, 0x0c, 0x7b, 0x7d, 0x72, 0x75, 0x6c, 0x65]


def gen_random(rng, n, maxlen=24):
    out = []
    for _ in range(n):
        if rng.chance(1, 4):
            b = bytes(rng.below(256) for _ in range(rng.below(maxlen)))
        else:
            b = rng.bytes_from(RANDOM_ALPHA, maxlen)
        m = rng.choice(["n", "i", "p", "v", "np", "nv", "npv", "nipv", "pn", "vn", "pv"])
        out.append((m, b))
    return out


def gen_paths(rng, n):
    a1 = [0x61, 0x27, 0x23, 0x20, 0x5c, 0x24, 0x22, 0x0a, 0x2f, 0x3d, 0x25, 0x80, 0xff, 0x09, 0x2a, 0x7e, 0x3b, 0x60, 0x2d, 0x7b]
    out = [bytes([b]) for b in range(1, 256)]
    out += [bytes([x, y]) for x in a1 for y in a1]
    a2 = [0x61, 0x27, 0x23, 0x20, 0x5c, 0x2f, 0xff, 0x0a]
    out += [bytes([x, y, z]) for x in a2 for y in a2 for z in a2]
    out += [b"#x", b"a#b", b"it's", b"''", b"'", b"a b", b"/usr/lib/x86_64-linux-gnu/libc.so.6", b"C:\\x", b"$(rm -rf /)", b"-n", b"a'b'c'"]
    alpha = a1 + [0x62, 0x2e, 0x2c, 0x40, 0x2b, 0x3a, 0x5f, 0x31, 0x27, 0x27, 0x23]
    for _ in range(n):
        out.append(rng.bytes_from(alpha, 12, 1))
    return out


def gen_sh_texts(rng, n):
    """texts of the sub-language itself (several words, comments, adjacent quotes) for validating Sh.words"""
    alpha = [0x61, 0x62, 0x27, 0x27, 0x5c, 0x23, 0x20, 0x20, 0x09, 0x3d, 0x2f, 0x2c, 0x25, 0x2d]
    out = [b"", b"a", b"a b", b"#a", b"a #b", b"a#b", b"'a b' c", b"a'b'c", b"\\'", b"a\\'b", b"''", b"'' ''", b" a ", b"'#'", b"a '#b' #c"]
    for _ in range(n):
        t = rng.bytes_from(alpha, 10)
        out.append(t)
    return out


class Check(PropertyCheck):
    prop = "C17LEX"
    module = "LLBuild.Props.C17Lex"      # imports LLBuild.Props.C19Ninja
    theorems = [
        "LLBuild.NinjaLexer.C17_keywords_whole_word", "LLBuild.NinjaLexer.C17_identifier_maximal",
        "LLBuild.NinjaLexer.C17_high_bytes_ordinary", "LLBuild.NinjaLexer.C17_string_token_stops",
        "LLBuild.NinjaLexer.C17_trivia_is_blank_or_continuation",
        "LLBuild.ShellEscape.C17_sh_roundtrip",
        "LLBuild.NinjaLexer.C19_ninja_lex_no_oob", "LLBuild.NinjaLexer.C19_ninja_lex_call_total",
        "LLBuild.NinjaLexer.C19_ninja_lex_terminates", "LLBuild.NinjaLexer.C19_tokens_tile",
        "LLBuild.NinjaLexer.C19_eof_only_at_end",
    ]
    extractors = ["x_ninjalexer", "x_shellwhitelist"]
    impl_cfgs = ["asan"]
    harnesses = [HARNESS]
    assumptions = [
        "hand model of Lexer::lex and its helpers (all four modes) and of appendShellEscapedString, tied by differential correspondence "
        "under ASan+UBSan on exact-size heap buffers; tables/flags (keywords with memcmp lengths, identifier ranges, char widening, "
        "$-look-ahead guards, shell whitelist) are regenerated from the source on every run",
        "line/column/length are `unsigned` in the C++ and Nat in the model: buffers below 4 GiB",
        "isspace() is the C-locale libc function (compared for all 256 values + EOF on every run)",
        "Sh.words models POSIX sh only for the sub-language shellEscaped emits; validated against /bin/sh on every run (spec validation)",
        "round trip is claimed for non-empty NUL-free paths used as an ARGUMENT word (shellEscaped(\"\") is the empty text; "
        "`a=b` in command position would be an assignment)",
    ]
    trusted_base = ["extractors x_ninjalexer, x_shellwhitelist", "correspondence harness vc17lex (lex, shesc, cls) under ASan+UBSan",
                    "python oracles check_tokens / py_sh_words (independent restatement of the property)", "/bin/sh (dash) as the reference shell"]

    # -- pieces (reusable) ----------------------------------------------------------------------
    def lex_cases(self, ctx):
        rng = ctx.rng
        T = ctx.thorough
        groups = {}
        groups["corpus_regressions"] = corpus_regressions()
        files = corpus_files()
        groups["corpus_whole"] = [(m, d) for _n, d in files for m in ("n", "i", "p", "v", "npv", "nipv")]
        groups["truncation_every_prefix"] = gen_truncations(files, ["n", "p", "v", "npv"] if T else ["n", "npv", "v"])
        groups["keyword_near"] = gen_keyword_near()
        groups["high_bytes"] = gen_high_bytes(rng, 60000 if T else 1500)
        gm = []
        for _ in range(100000 if T else 2500):
            s = gen_manifest(rng)
            gm.append(("n", s))
            gm.append((rng.choice(["npv", "pv", "nv", "nipv", "p", "v", "i", "vn", "pn"]), s))
        groups["grammar"] = gm
        groups["random_bytes"] = gen_random(rng, 400000 if T else 5000, 40 if T else 24)
        return groups

    def correspond_cls(self, ctx, res):
        (mrc, mout, merr), (hrc, hout, herr) = run_pair("c17cls", ctx.exe[HARNESS], "cls", ["x"])
        if hrc != 0 or len(hout) != 1:
            res.mismatches.append({"stream": "c17cls", "input": "harness exit %d" % hrc, "impl": herr[-300:]})
            return
        if ctx.model_ok and (mrc != 0 or mout != hout):
            res.mismatches.append({"stream": "c17cls", "input": "cls", "model": (mout or [merr[-200:]])[0][:700], "impl": hout[0][:700]})
        # oracle: the classes the Ninja manual gives
        f = dict(x.split("=") for x in hout[0].split(" "))
        want_ident = "".join("1" if b in IDENT else "0" for b in range(256))
        if f["ident"] != want_ident:
            res.oracle_failures.append({"oracle": "charclass", "what": "isIdentifierChar differs from [a-zA-Z0-9_.-]", "input": f["ident"]})
        res.evaluations += 256 * 3 + 1
        res.distribution["charclass_values_compared"] = 256 * 3 + 1

    def correspond_lex(self, ctx, res):
        groups = self.lex_cases(ctx)
        cases, tags = [], []
        for g, cs in groups.items():
            cases += cs
            tags += [g] * len(cs)
        (mrc, mout, merr), (hrc, hout, herr) = run_lex(ctx.exe[HARNESS], cases)
        if hrc != 0 or len(hout) != len(cases):
            res.mismatches.append({"stream": "c17lex", "input": "harness exit %d, %d/%d lines" % (hrc, len(hout), len(cases)), "impl": herr[-300:]})
            return
        model_ok = mrc == 0 and len(mout) == len(cases)
        if ctx.model_ok and not model_ok:
            res.mismatches.append({"stream": "c17lex", "input": "model driver exit %d, %d/%d lines" % (mrc, len(mout), len(cases)), "model": merr[-300:]})
        kinds, nontriv, crashes, ntok = {}, 0, 0, 0
        dist = {g: len(cs) for g, cs in groups.items()}
        for i, (m, b) in enumerate(cases):
            fs = check_tokens(m, b, hout[i])
            for f in fs:
                f["generator"] = tags[i]
            res.oracle_failures += fs[:3] if len(res.oracle_failures) < 200 else []
            if model_ok and mout[i] != hout[i] and len(res.mismatches) < 20:
                res.mismatches.append({"stream": "c17lex", "input": lex_line(m, b), "model": mout[i][:400], "impl": hout[i][:400]})
            st, toks, _ = parse_tokens(hout[i])
            crashes += st == "crash"
            ntok += len(toks)
            ks = {t[0] for t in toks}
            for k in ks:
                kinds[k] = kinds.get(k, 0) + 1
            if len(ks) >= 3:
                nontriv += 1
        res.evaluations += len(cases)
        res.distinct_nontrivial += nontriv
        res.distribution["lex_cases"] = dist
        res.distribution["lex_inputs_with_token_kind"] = kinds
        res.distribution["lex_tokens_total"] = ntok
        res.distribution["lex_crash_or_sanitizer_reports"] = crashes
        res.distribution["lex_max_input_bytes"] = max(len(b) for _m, b in cases)
        res.samples.append({"lex": lex_line(*cases[len(cases) // 2]), "impl": hout[len(cases) // 2][:200]})

    def correspond_shell(self, ctx, res):
        rng = ctx.rng
        paths = gen_paths(rng, 60000 if ctx.thorough else 1500)
        (mrc, mout, merr), (hrc, hout, herr) = run_shesc(ctx.exe[HARNESS], paths)
        if hrc != 0 or len(hout) != len(paths):
            res.mismatches.append({"stream": "c17shesc", "input": "harness exit %d, %d/%d lines" % (hrc, len(hout), len(paths)), "impl": herr[-300:]})
            return
        model_ok = mrc == 0 and len(mout) == len(paths)
        if ctx.model_ok and not model_ok:
            res.mismatches.append({"stream": "c17shesc", "input": "model driver exit %d" % mrc, "model": merr[-300:]})
        todo = []
        quoted = 0
        for i, p in enumerate(paths):
            if model_ok and mout[i] != hout[i] and len(res.mismatches) < 20:
                res.mismatches.append({"stream": "c17shesc", "input": C.hexs(p), "model": mout[i], "impl": hout[i]})
            f = hout[i].split(" ")
            base = {"input": {"path_hex": C.hexs(p), "path": repr(p), "escaped": f[0]}, "first_byte": p[0], "oracle": "sh-roundtrip"}
            if f[0] == "crash" or len(f) > 1:
                res.oracle_failures.append(dict(base, what="shellEscaped crashed / appendShellEscapedString disagrees: " + hout[i]))
                continue
            esc = C.unhex(f[0])
            quoted += esc != p
            w = py_sh_words(esc)
            if w is None:
                res.oracle_failures.append(dict(base, what="shellEscaped(%r) = %r contains an unquoted shell metacharacter / unbalanced quote" % (p, esc),
                                                kind="outside-sublanguage"))
                continue
            todo.append((p, esc, w, base))
        real = binsh_many([e for _p, e, _w, _b in todo])
        disagree = 0
        for (p, esc, w, base), r in zip(todo, real):
            if r != w:
                disagree += 1          # python statement of the sh rules vs /bin/sh: spec bug, not a violation
                C.log("spec validation: py_sh_words(%r)=%r but /bin/sh gives %r" % (esc, w, r))
            if r != [p]:
                res.oracle_failures.append(dict(base, what="/bin/sh reads shellEscaped(%r) = %r as %r, not as the original path" % (p, esc, r),
                                                kind="comment" if (r == [] and p[:1] == b"#") else "wrong-words",
                                                sh_words=[repr(x) for x in (r or [])]))
        # spec validation of the Lean Sh.words against /bin/sh on texts of the sub-language
        texts = gen_sh_texts(rng, 4000 if ctx.thorough else 600) + [e for _p, e, _w, _b in todo[:: (10 if ctx.thorough else 4)]]
        rc, wout, werr = C.run_lines(model_cmd() + ["c17shwords"], [C.hexs(t) for t in texts])
        inside = 0
        spec_dis = disagree
        if rc == 0 and len(wout) == len(texts):
            idx = [i for i, o in enumerate(wout) if o.startswith("words=")]
            real = binsh_many([texts[i] for i in idx])
            for i, r in zip(idx, real):
                inside += 1
                h = wout[i][6:]
                mw = [] if h == "." else [C.unhex(x) for x in h.split(",")]
                if r != mw or py_sh_words(texts[i]) != mw:
                    spec_dis += 1
                    C.log("spec validation: Sh.words(%r)=%r, /bin/sh %r, python %r" % (texts[i], mw, r, py_sh_words(texts[i])))
            for i, o in enumerate(wout):
                if o == "none" and py_sh_words(texts[i]) is not None:
                    spec_dis += 1
                    C.log("spec validation: Sh.words(%r)=none, python %r" % (texts[i], py_sh_words(texts[i])))
        elif ctx.model_ok:
            res.mismatches.append({"stream": "c17shwords", "input": "model driver exit %d" % rc, "model": werr[-300:]})
        res.evaluations += len(paths)
        res.distinct_nontrivial += quoted
        res.distribution["shell_paths"] = len(paths)
        res.distribution["shell_paths_needing_quotes"] = quoted
        res.distribution["shell_paths_through_binsh"] = len(todo)
        res.distribution["sh_words_texts_validated_against_binsh"] = inside
        res.extra["spec_validation"] = {"sh_words_vs_binsh_texts": inside, "spec_disagreements": spec_dis}
        res.samples.append({"path": repr(paths[300]), "escaped": hout[300]})

    def replay(self, ctx, res, path):
        """re-run the single input stored in a replay file through the real code, the model and the oracles"""
        import json
        d = json.load(open(path))
        inp = (d.get("failure") or {}).get("input")
        if isinstance(inp, dict) and "line" in inp:
            modes, h = inp["line"].split(" ")
            case = (modes, C.unhex(h))
            (mrc, mout, merr), (hrc, hout, herr) = run_lex(ctx.exe[HARNESS], [case])
            C.log("replay lex %s\n  impl : %s\n  model: %s" % (inp["line"], hout[0] if hout else herr[-200:], mout[0] if mout else merr[-200:]))
            if hout:
                res.oracle_failures += check_tokens(modes, case[1], hout[0])
                if mout and mout[0] != hout[0]:
                    res.mismatches.append({"stream": "c17lex", "input": inp["line"], "model": mout[0][:400], "impl": hout[0][:400]})
            res.evaluations += 1
            return True
        if isinstance(inp, dict) and "path_hex" in inp:
            p = C.unhex(inp["path_hex"])
            (mrc, mout, merr), (hrc, hout, herr) = run_shesc(ctx.exe[HARNESS], [p])
            esc = C.unhex(hout[0].split(" ")[0]) if hout and not hout[0].startswith("crash") else None
            w = py_sh_words(esc) if esc is not None else None
            r = binsh_words(esc) if w is not None else None
            C.log("replay shellEscaped(%r) = %r ; /bin/sh reads it as %r" % (p, esc, r))
            if r != [p]:
                res.oracle_failures.append({"oracle": "sh-roundtrip", "first_byte": p[0] if p else None, "input": inp,
                                            "what": "/bin/sh reads shellEscaped(%r) = %r as %r, not as the original path" % (p, esc, r)})
            if mout and hout and mout[0] != hout[0]:
                res.mismatches.append({"stream": "c17shesc", "input": C.hexs(p), "model": mout[0], "impl": hout[0]})
            res.evaluations += 1
            return True
        return False

    def correspond(self, ctx, res):
        if getattr(ctx, "replay_path", None) and self.replay(ctx, res, ctx.replay_path):
            res.rule = "replay of one stored input"
            return
        self.correspond_cls(ctx, res)
        self.correspond_lex(ctx, res)
        self.correspond_shell(ctx, res)
        res.rule = ("lexer: corpus regressions + every prefix of each corpus manifest + every identifier one edit away from a keyword + "
                    "high-byte frames (all of 0x80..0xFF) + grammar-generated manifests + random bytes, each in several mode cycles, on exact-size "
                    "heap buffers under ASan/UBSan; non-trivial = the token stream has at least 3 distinct kinds. shell: all 1-byte paths, all 2/3-byte "
                    "paths over representative alphabets, seeded paths; non-trivial = the path needs quoting; every escaped text goes through /bin/sh.")
        res.exhaustive = False

    def match_known(self, failure, known):
        m = known.get("match", {})
        return all(failure.get(k) == v for k, v in m.items())

    def search(self, ctx, res, why):
        # correspond() already runs the deterministic generators (keyword_near, all high bytes, every prefix, all short paths)
        # that contain a witness for each clause; nothing further to search.
        return


CHECK = Check()
