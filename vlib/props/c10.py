"""C10 — A failed or cancelled command never feeds dependents and is always retried (decision-table half
+ end-to-end oracles through the real `llbuild buildsystem build` and in-process keep-going clients).
Streams: exhaustive value-kind tables; real child processes (every exit code / fatal signal); the per-execution protocol of one
ExternalCommand object over several builds (`life`); `e2e` (one failing set per history) and `e2e_histories` (attributes, every
failure cause, multi-phase histories, three clients) - see notes/C10.md."""
import itertools, json, os, re, shutil, subprocess, threading
from .. import common as C
from ..runner import PropertyCheck

GEN = os.path.join(C.LEAN, "LLBuild", "Generated", "FailTables.lean")
NODE_CLASSES = ["plain", "directory", "directoryStructure", "virtual", "commandTimestamp"]
NOT_INSTANTIABLE = {"ExternalCommand"}            # abstract base: its table rows are reached through every subclass
NO_RFO = {"SwiftGetVersionCommand"}               # getResultForOutput is llvm_unreachable: never called
# Linux signals whose default action terminates the process (with or without a core); 17-23 and 28 stop/continue/are ignored
FATAL_SIGNALS = [n for n in range(1, 65) if n not in (17, 18, 19, 20, 21, 22, 23, 28, 32, 33)]
SIGNAME = {1: "HUP", 2: "INT", 3: "QUIT", 4: "ILL", 5: "TRAP", 6: "ABRT", 7: "BUS", 8: "FPE", 9: "KILL", 10: "USR1", 11: "SEGV", 12: "USR2",
           13: "PIPE", 14: "ALRM", 15: "TERM", 16: "STKFLT", 24: "XCPU", 25: "XFSZ", 26: "VTALRM", 27: "PROF", 29: "IO", 30: "PWR", 31: "SYS"}


KINDS = []      # value-kind names in enum order (filled by e2e_part from the generated tables)


def generated_names():
    txt = open(GEN).read()

    def block(name):
        m = re.search(r"def %s : \w+ → String\n((?:  \| .*\n)+)" % re.escape(name), txt)
        return re.findall(r'=> "(\w+)"', m.group(1))
    kinds = block("Kind.name")
    classes = block("CommandClass.name")
    preds = re.findall(r'\("(\w+)", \w+\)', re.search(r"def predicates .*", txt).group(0))
    return kinds, classes, preds


def model_cmd(mode):
    """The shared driver once `LLBuild.Drv.C10.modes` is listed in Driver.lean; until then a private driver
    generated under the build directory (never under lean/) and run with `lake env lean --run`."""
    exe = C.model_exe()
    if os.path.exists(exe):
        p = subprocess.run([exe, mode], input=b"", stdout=subprocess.PIPE, stderr=subprocess.PIPE)
        if p.returncode == 0:
            return [exe, mode], None
    ok, out = C.lake_build(["LLBuild.Drv.C10"])     # not yet reachable from Driver.lean: build it ourselves
    if not ok:
        C.log(out[-1500:])
    d = os.path.join(C.BUILD, "drv")
    os.makedirs(d, exist_ok=True)
    path = os.path.join(d, "DriverC10.lean")
    with open(path, "w") as f:
        f.write("import LLBuild.Drv.Common\nimport LLBuild.Drv.C10\nopen LLBuild.Drv\n"
                "def main (args : List String) : IO UInt32 := do\n"
                "  let stdin ← IO.getStdin\n  let stdout ← IO.getStdout\n"
                "  match args with\n  | [m] =>\n    match LLBuild.Drv.C10.modes.lookup m with\n"
                "    | some f => f stdin stdout; return 0\n    | none => IO.eprintln s!\"unknown mode {m}\"; return 2\n"
                "  | _ => return 2\n")
    return ["lake", "env", "lean", "--run", path, mode], C.LEAN


def run_model(mode, lines):
    cmd, cwd = model_cmd(mode)
    data = ("\n".join(lines) + "\n").encode()
    p = subprocess.run(cmd, cwd=cwd, input=data, stdout=subprocess.PIPE, stderr=subprocess.PIPE)
    out = p.stdout.decode().split("\n")
    if out and out[-1] == "":
        out.pop()
    return p.returncode, out, p.stderr.decode()



# --------------------------------------------------------------------------------------------------
# stream `clientx`: the extended client model (Model/BuildSystemClientX.lean: commands that fail by themselves) against what the
# real engine RECORDS: the value kind of every command / produced node and the dependency list of every command in build.db
# --------------------------------------------------------------------------------------------------
STATUS_OF_KIND = {"SuccessfulCommand": "ok", "FailedCommand": "failed", "CancelledCommand": "failed", "PropagatedFailureCommand": "skipped"}


def db_snapshot(path, kinds):
    """{key bytes: (value kind name, [dependency key bytes, in recorded order])} of a build database"""
    import sqlite3, struct
    con = sqlite3.connect("file:%s?mode=ro" % path, uri=True, timeout=20)
    con.text_factory = bytes
    try:
        rows = con.execute("select key_names.key, rule_results.value, rule_results.dependencies from rule_results "
                           "join key_names on key_names.id = rule_results.key_id").fetchall()
        names = dict(con.execute("select id, key from key_names").fetchall())
    finally:
        con.close()
    out = {}
    for key, blob, dep in rows:
        blob, dep = bytes(blob or b""), bytes(dep or b"")
        kind = kinds[blob[0]] if blob and blob[0] < len(kinds) else "Invalid"
        out[bytes(key)] = (kind, [bytes(names.get(r >> 2, b"?")) for r in struct.unpack("<%dQ" % (len(dep) // 8), dep[:len(dep) // 8 * 8])])
    return out


def clientx_case(desc, d, armed, kinds):
    """One build of a DescX history seen through the database: (op lines for the Lean driver mode `c08xclean`, what the real
    engine recorded in the same canonical form), or (None, reason) when the state is outside the model's fragment."""
    for nm, mode in armed.items():
        if mode == "missing-input" and desc.byname[nm].get("ami"):
            return None, "allow-missing-inputs command with a missing input (the model has no allow-missing-inputs)"
    cmds = list(desc.cmds) + [{"name": "<all>", "tool": "phony", "inputs": [o for c in desc.cmds for o in c["outputs"]],
                               "outputs": ["<all>"], "src": None}]
    ins_of = lambda c: list(c["inputs"]) + ([c["src"]] if c["src"] else [])
    nodes = sorted({n for c in cmds for n in ins_of(c) + c["outputs"]})
    idx = {n: i for i, n in enumerate(nodes)}
    produced = {o for c in cmds for o in c["outputs"]}
    L = []
    for n in nodes:
        st = 2 if (n not in produced and not n.startswith("<") and os.path.isfile(os.path.join(d, n))) else 0
        L.append("node %d %d %d" % (idx[n], 1 if n.startswith("<") else 0, st))
    for ci, c in enumerate(cmds):
        L.append("cmd %d %d %d %s %s" % (ci, 0 if c["tool"] == "shell" else 1, ci + 1, ",".join(str(idx[i]) for i in ins_of(c)) or ".",
                                         ",".join(str(idx[o]) for o in c["outputs"]) or "."))
        if c["name"] in armed and armed[c["name"]] != "missing-input":
            L.append("xfail %d 1" % ci)
    L.append("evalx")
    try:
        snap = db_snapshot(os.path.join(d, "build.db"), kinds)
    except Exception as e:
        return None, "database not readable: %s" % e
    toks = []
    for ci, c in enumerate(cmds):
        kind, deps = snap.get(b"C" + c["name"].encode(), ("<no record>", []))
        want = sorted(b"N" + i.encode() for i in ins_of(c))
        extra = list(deps)
        for w in want:                        # the requested keys are recorded in delivery order: compared as a multiset
            if w in extra:
                extra.remove(w)
            else:
                extra.append(b"<missing request " + w + b">")
        toks.append("C%d=%s:%s" % (ci, STATUS_OF_KIND.get(kind, kind), ",".join(C.hexs(x[1:]) for x in extra) if extra else "."))
    for n in nodes:
        if n in produced and not n.startswith("<"):
            kind, _ = snap.get(b"N" + n.encode(), ("<no record>", []))
            toks.append("%d=%s" % (idx[n], "failed" if kind == "FailedInput" else "present" if kind == "ExistingInput" else kind))
    return L, " ".join(toks)


def clientx_canon(model_line):
    """the model's line with the content of a present node replaced by `present` (the shell scripts of this stream write text)"""
    out = []
    for tok in model_line.split():
        a, _, b = tok.partition("=")
        out.append("%s=present" % a if (a.isdigit() and b.isdigit()) else tok)
    return " ".join(out)

# --------------------------------------------------------------------------------------------------
# end-to-end descriptions
# --------------------------------------------------------------------------------------------------
class Desc:
    """A generated build description: shell commands C0..Cn-1 in topological order, optional phony groups."""

    def __init__(self, rng, idx):
        self.idx = idx
        n = 3 + rng.below(6)
        self.cmds = []          # dicts: name, tool, inputs (node names), outputs (node names)
        self.producer = {}      # node -> command name
        nodes = []
        for i in range(n):
            name = "C%d" % i
            k = rng.below(10)
            outs = ["o/%s.a" % name]
            if k < 3:
                outs.append("o/%s.b" % name)         # multi-output
            if k in (2, 5, 6):
                outs.append("<%s>" % name)           # virtual output next to the files
            if k == 7:
                outs = ["<%s>" % name]               # virtual-only producer
            ins = []
            if nodes:
                for _ in range(1 + rng.below(3)):
                    if rng.chance(4, 5):
                        x = rng.choice(nodes)
                        if x not in ins:
                            ins.append(x)
            self.cmds.append({"name": name, "tool": "shell", "inputs": ins, "outputs": outs, "src": "src/%s.src" % name})
            for o in outs:
                self.producer[o] = name
            nodes += outs
            # now and then a phony group over some existing nodes; consumers of its virtual output are ordered only
            if rng.chance(1, 4) and nodes:
                g = "G%d" % i
                gi = []
                for _ in range(1 + rng.below(2)):
                    x = rng.choice(nodes)
                    if x not in gi:
                        gi.append(x)
                self.cmds.append({"name": g, "tool": "phony", "inputs": gi, "outputs": ["<%s>" % g], "src": None})
                self.producer["<%s>" % g] = g
                nodes.append("<%s>" % g)
        self.byname = {c["name"]: c for c in self.cmds}
        shell = [c["name"] for c in self.cmds if c["tool"] == "shell"]
        # failure assignment: a random non-empty subset (one description in eight has none)
        self.fail = {}
        if idx % 8 != 7:
            k = 1 + rng.below(min(3, len(shell)))
            for nm in rng.shuffle(shell)[:k]:
                self.fail[nm] = rng.choice(["exit", "exit-after-write", "signal", "sigint", "missing-input"])
        self.history = rng.chance(1, 2)     # True: a fully successful build precedes the failing one

    def manifest(self):
        L = ["client:", "  name: basic", "  version: 0", "", "targets:", '  "": ["<all>"]', "", "commands:"]
        allouts = []
        for c in self.cmds:
            L.append('  "%s":' % c["name"])
            L.append("    tool: %s" % c["tool"])
            ins = list(c["inputs"]) + ([c["src"]] if c["src"] else [])
            L.append("    inputs: [%s]" % ", ".join('"%s"' % i for i in ins))
            L.append("    outputs: [%s]" % ", ".join('"%s"' % o for o in c["outputs"]))
            if c["tool"] == "shell":
                files_in = [i for i in ins if not i.startswith("<")]
                files_out = [o for o in c["outputs"] if not o.startswith("<")]
                nm = c["name"]
                body = "echo %s >> log; " % nm
                body += "if [ -e ctl/%s.exit ]; then exit 3; fi; " % nm
                body += "if [ -e ctl/%s.signal ]; then kill -9 $$; fi; " % nm
                body += "if [ -e ctl/%s.sigint ]; then kill -2 $$; sleep 5; fi; " % nm
                for o in files_out:
                    body += "(echo '%s('; cat %s; echo ')') > %s; " % (nm, " ".join(files_in) if files_in else "/dev/null", o)
                body += "if [ -e ctl/%s.exit-after-write ]; then exit 4; fi; true" % nm
                L.append('    args: ["/bin/sh", "-c", "%s"]' % body)
            allouts += c["outputs"]
        L.append('  "<all>":')
        L.append("    tool: phony")
        L.append("    inputs: [%s]" % ", ".join('"%s"' % o for o in allouts))
        L.append('    outputs: ["<all>"]')
        return "\n".join(L) + "\n"

    def data_downstream(self, roots):
        """Commands with a transitive producer in `roots` along data-carrying edges (may include members of `roots`
        that sit below another root).  A phony command's virtual output carries no data (documented exception F16)."""
        bad = set()
        changed = True
        while changed:
            changed = False
            for c in self.cmds:
                if c["name"] in bad:
                    continue
                for i in c["inputs"]:
                    p = self.producer.get(i)
                    if (p in bad or p in roots) and not (self.byname[p]["tool"] == "phony" and i.startswith("<")):
                        bad.add(c["name"])
                        changed = True
                        break
        return bad

    def to_json(self):
        return {"idx": self.idx, "cmds": self.cmds, "fail": self.fail, "history": self.history}


def llbuild(exe, d, jobs):
    args = [exe, "buildsystem", "build", "-f", "build.llbuild", "--db", "build.db"] + (["--serial"] if jobs == 1 else ["-j", str(jobs)])
    try:
        os.unlink(os.path.join(d, "log"))
    except FileNotFoundError:
        pass
    p = subprocess.run(args, cwd=d, stdout=subprocess.PIPE, stderr=subprocess.STDOUT, timeout=120)
    log = []
    lp = os.path.join(d, "log")
    if os.path.exists(lp):
        log = open(lp).read().split()
    return p.returncode, log, p.stdout.decode("utf-8", "replace")


def snapshot(d):
    out = {}
    od = os.path.join(d, "o")
    if os.path.isdir(od):
        for f in sorted(os.listdir(od)):
            out[f] = open(os.path.join(od, f), "rb").read().decode("utf-8", "replace")
    return out


class InProc:
    """keep-going client: the harness builds in-process with a delegate that counts failures and never cancels"""
    name = "keep-going"

    def __init__(self, exe):
        self.p = subprocess.Popen([exe, "c10build"], stdin=subprocess.PIPE, stdout=subprocess.PIPE, stderr=subprocess.DEVNULL)

    def build(self, d, jobs):
        try:
            os.unlink(os.path.join(d, "log"))
        except FileNotFoundError:
            pass
        self.p.stdin.write(("%s %s %d\n" % (getattr(self, "verb", "build"), d, jobs)).encode())
        self.p.stdin.flush()
        line = self.p.stdout.readline().decode().strip()
        m = re.fullmatch(r"ok=(\d) failures=(\d+) errors=(\d+)", line)
        if not m:
            raise RuntimeError("harness c10build: %r" % line)
        log = []
        lp = os.path.join(d, "log")
        if os.path.exists(lp):
            log = open(lp).read().split()
        # what BuildSystemFrontend::build computes from the same numbers
        failed = not (m.group(1) == "1" and m.group(2) == "0" and m.group(3) == "0")
        return failed, log, line

    def close(self):
        self.p.stdin.close()
        self.p.wait()


class Cli:
    """the command line tool: its delegate cancels the build at the first command failure"""
    name = "cli"

    def __init__(self, exe):
        self.exe = exe

    def build(self, d, jobs):
        rc, log, out = llbuild(self.exe, d, jobs)
        return rc != 0, log, "exit=%d" % rc

    def close(self):
        pass


def run_desc(client, base, desc, jobs):
    """Runs the history through one client; returns (list of failure dicts, stats)."""
    fails = []
    keep = client.name == "keep-going"
    d = os.path.join(base, "d%d-j%d-%s" % (desc.idx, jobs, client.name))
    clean = d + "-clean"

    def setup(x):
        shutil.rmtree(x, ignore_errors=True)
        os.makedirs(os.path.join(x, "ctl"))
        os.makedirs(os.path.join(x, "src"))
        os.makedirs(os.path.join(x, "o"))
        open(os.path.join(x, "build.llbuild"), "w").write(desc.manifest())
        for c in desc.cmds:
            if c["src"]:
                open(os.path.join(x, c["src"]), "w").write("src of %s\n" % c["name"])
    setup(d)
    shell = [c["name"] for c in desc.cmds if c["tool"] == "shell"]
    failing = set(desc.fail)
    down = {n for n in desc.data_downstream(failing) if desc.byname[n]["tool"] == "shell"}
    # failing commands that are reached at all (not themselves below another failure) and do start
    runs_and_fails = {n for n, m in desc.fail.items() if m != "missing-input"} - down

    def bad(what, **kw):
        f = {"what": "[%s client, %s] %s" % (client.name, "serial" if jobs == 1 else "-j%d" % jobs, what), "route": "e2e", "client": client.name,
             "jobs": jobs, "input": {"desc": desc.to_json(), "jobs": jobs, "client": client.name}}
        f.update(kw)
        fails.append(f)

    def count(log, names, label, lo=1, hi=1):
        for nm in sorted(names):
            if not (lo <= log.count(nm) <= hi):
                bad("%s: command %s executed %d times, expected %s" % (label, nm, log.count(nm), "exactly once" if lo == hi else "at most once"),
                    clause="rerun", command=nm, mode=desc.fail.get(nm, "downstream"))

    # optional successful first build, then the sources of the failing commands change --------------------------
    if desc.history:
        failed, log, out = client.build(d, jobs)
        if failed or sorted(log) != sorted(shell):
            bad("initial build without failures did not run every command once and succeed (%s log=%s)" % (out, log), clause="reference")
            return fails, {}
        for nm, mode in desc.fail.items():
            if mode != "missing-input":
                open(os.path.join(d, desc.byname[nm]["src"]), "a").write("edited, longer\n")
    # inject the failures --------------------------------------------------------------------------------
    for nm, mode in desc.fail.items():
        if mode == "missing-input":
            os.unlink(os.path.join(d, desc.byname[nm]["src"]))
        else:
            open(os.path.join(d, "ctl", "%s.%s" % (nm, mode)), "w").write("x")
    for label in ("failing build", "repeated failing build"):
        failed, log, out = client.build(d, jobs)
        for nm in log:
            if nm in down:
                bad("%s: %s executed although it consumes (transitively) an output of a failed command %s" % (label, nm, sorted(failing)),
                    clause="no-downstream-execution", command=nm)
            if desc.fail.get(nm) == "missing-input":
                bad("%s: %s executed although its declared input is missing" % (label, nm), clause="no-downstream-execution", command=nm)
        if failing and not failed:
            modes = sorted(set(desc.fail.values()))
            bad("%s: the build reports success (%s) although commands %s failed (%s)" % (label, out, sorted(failing), ",".join(modes)),
                clause="build-reports-failure", modes=modes,
                only_killed=all(m in ("signal", "sigint") for m in desc.fail.values()))
        if not failing and failed:
            bad("%s: the build reports failure (%s) although nothing failed" % (label, out), clause="build-reports-failure", modes=[])
        if keep:
            # nobody cancels: every failing command is attempted (again), exactly once
            count(log, runs_and_fails, label + " (a failed command is attempted again)")
            if not desc.history and label == "failing build":
                count(log, set(shell) - failing - down, label + " (commands that do not depend on the failure still run)")
        else:
            # the tool cancels at the first failure: at least one of them was attempted again, none twice
            count(log, runs_and_fails, label, 0, 1)
            if runs_and_fails and not (set(log) & runs_and_fails) and not (failing - runs_and_fails):
                bad("%s: none of the failed commands %s was attempted again" % (label, sorted(runs_and_fails)), clause="rerun",
                    command=sorted(runs_and_fails)[0], mode="any")
    # repair (the edited sources stay edited; the reference is built from the final sources) -------------------------
    for nm, mode in desc.fail.items():
        if mode == "missing-input":
            open(os.path.join(d, desc.byname[nm]["src"]), "w").write("src of %s, recreated\n" % nm)
        else:
            os.unlink(os.path.join(d, "ctl", "%s.%s" % (nm, mode)))
    failed, log, out = client.build(d, jobs)
    if failed:
        bad("build after repair reports failure (%s)" % out, clause="converges")
    count(log, failing - down, "build after repair (the failed command)")
    if keep or not desc.history:
        count(log, down, "build after repair (everything downstream of the failed command)")
    else:
        count(log, down, "build after repair", 0, 1)   # the cancelled build recorded nothing for them; the older results may stand
    got = snapshot(d)
    setup(clean)
    for c in desc.cmds:
        if c["src"]:
            shutil.copyfile(os.path.join(d, c["src"]), os.path.join(clean, c["src"]))
    failed, log, out = client.build(clean, jobs)
    if failed or sorted(log) != sorted(shell):
        bad("reference clean build did not run every command once and succeed (%s log=%s)" % (out, log), clause="reference")
    elif got != snapshot(clean):
        want = snapshot(clean)
        diff = sorted(k for k in set(got) | set(want) if got.get(k) != want.get(k))
        bad("build after repair: outputs differ from a clean build: %s" % diff, clause="converges")
    failed, log, out = client.build(d, jobs)
    if failed or log:
        bad("build after convergence is not a null build: %s executed=%s" % (out, log), clause="converges")
    shutil.rmtree(d, ignore_errors=True)
    shutil.rmtree(clean, ignore_errors=True)
    return fails, {"cmds": len(shell), "failing": len(failing), "downstream": len(down), "modes": sorted(desc.fail.values()),
                   "phony": sum(1 for c in desc.cmds if c["tool"] == "phony")}

# --------------------------------------------------------------------------------------------------
# extended end-to-end stream (added after the seeded changes): every way to fail, command attributes, multi-phase histories,
# three clients (the `llbuild` tool; a keep-going client with a new BuildSystem per build; a keep-going client that REUSES
# its BuildSystem for the whole history, as BuildSystemFrontend does)
# --------------------------------------------------------------------------------------------------
E2E_SIGNALS = [15, 11, 6, 9, 2, 1, 13, 3, 7, 8, 4, 10, 12, 14, 24, 31, 34]     # TERM SEGV ABRT KILL INT HUP PIPE QUIT BUS FPE ILL USR1 USR2 ALRM XCPU SYS RTMIN


class DescX(Desc):
    """Shell commands C0..Cn-1 (topological order, chains and diamonds, multi-output, virtual outputs, phony groups) with
    the attributes allow-modified-outputs / always-out-of-date / allow-missing-inputs, and a HISTORY: an optional fully
    successful first build, then 1-3 phases, each with its own set of failing commands (a later phase repairs some and breaks
    others), each phase optionally built twice (null rebuild of a failed state), then full repair."""

    def __init__(self, rng, idx, fixed=None):
        self.idx = idx
        self.ext = True
        if fixed is not None:
            self.cmds, self.phases, self.repeat, self.history = fixed["cmds"], fixed["phases"], fixed["repeat"], fixed["history"]
            self._index()
            return
        n = 2 + rng.below(5)
        self.cmds = []
        nodes = []
        for i in range(n):
            name = "C%d" % i
            k = rng.below(10)
            outs = ["o/%s.a" % name]
            if k < 3:
                outs.append("o/%s.b" % name)
            if k in (2, 5):
                outs.append("<%s>" % name)
            if k == 7:
                outs = ["<%s>" % name]
            ins = []
            if nodes:
                for _ in range(1 + rng.below(3)):
                    if rng.chance(4, 5):
                        x = rng.choice(nodes)
                        if x not in ins:
                            ins.append(x)
            c = {"name": name, "tool": "shell", "inputs": ins, "outputs": outs, "src": "src/%s.src" % name,
                 "amo": rng.chance(2, 5), "aood": rng.chance(1, 8), "ami": rng.chance(1, 8)}
            self.cmds.append(c)
            nodes += outs
            if rng.chance(1, 6) and nodes:
                g = "G%d" % i
                self.cmds.append({"name": g, "tool": "phony", "inputs": [rng.choice(nodes)], "outputs": ["<%s>" % g], "src": None,
                                  "amo": False, "aood": False, "ami": False})
                nodes.append("<%s>" % g)
        self.phases = []
        self._index()
        shell = [c["name"] for c in self.cmds if c["tool"] == "shell"]

        def mode_for(nm):
            c = self.byname[nm]
            r = rng.below(10)
            if r == 0:
                return "missing-input"
            if r == 1:
                return "undeclared-input"
            if r == 2 and not c["amo"] and any(not o.startswith("<") for o in c["outputs"]):
                return "unwritable-output"
            how = "exit" if rng.chance(1, 3) else "sig%d" % rng.choice(E2E_SIGNALS)
            return how + "@" + rng.choice(["before", "partial", "after", "after"])
        self.history = rng.chance(2, 3)
        self.phases, self.repeat = [], []
        cur = {}
        for ph in range(1 + rng.below(2) + (1 if rng.chance(1, 4) else 0)):
            nxt = {nm: m for nm, m in cur.items() if rng.chance(1, 2)}
            for nm in rng.shuffle(shell)[:1 + rng.below(min(2, len(shell)))]:
                if nm not in nxt:
                    nxt[nm] = mode_for(nm)
            if not nxt:
                nm = rng.choice(shell)
                nxt[nm] = mode_for(nm)
            self.phases.append(nxt)
            self.repeat.append(rng.chance(1, 2))
            cur = nxt
        self._index()

    def _index(self):
        self.byname = {c["name"]: c for c in self.cmds}
        self.producer = {o: c["name"] for c in self.cmds for o in c["outputs"]}
        self.fail = {}
        for ph in self.phases:
            self.fail.update(ph)

    def manifest(self):
        L = ["client:", "  name: basic", "  version: 0", "", "targets:", '  "": ["<all>"]', "", "commands:"]
        allouts = []
        for c in self.cmds:
            L.append('  "%s":' % c["name"])
            L.append("    tool: %s" % c["tool"])
            ins = list(c["inputs"]) + ([c["src"]] if c["src"] else [])
            L.append("    inputs: [%s]" % ", ".join('"%s"' % i for i in ins))
            L.append("    outputs: [%s]" % ", ".join('"%s"' % o for o in c["outputs"]))
            if c["tool"] == "shell":
                for key, attr in (("amo", "allow-modified-outputs"), ("aood", "always-out-of-date"), ("ami", "allow-missing-inputs")):
                    if c[key]:
                        L.append('    %s: "true"' % attr)
                files_in = [i for i in ins if not i.startswith("<")]
                files_out = [o for o in c["outputs"] if not o.startswith("<")]
                nm = c["name"]
                # f <when>: fail here if ctl/<name>.<when> exists (its content says how: `exit` or a signal number)
                body = "echo %s >> log; ulimit -c 0; " % nm
                body += "f() { if [ -e ctl/%s.$1 ]; then M=$(cat ctl/%s.$1); case $M in exit) exit 3;; *) kill -$M $$; exit 97;; esac; fi; }; " % (nm, nm)
                body += "f before; cat aux/%s.aux > /dev/null || exit 7; " % nm         # an input the description does not declare
                for j, o in enumerate(files_out):
                    body += "{ echo '%s('; cat %s || exit 8; echo ')'; } > %s || exit 9; " % (nm, " ".join(files_in) if files_in else "/dev/null", o)
                    if j == 0:
                        body += "f partial; "
                if not files_out:
                    body += "cat %s > /dev/null || exit 8; f partial; " % (" ".join(files_in) if files_in else "/dev/null")
                body += "f after; true"
                L.append('    args: ["/bin/sh", "-c", "%s"]' % body)
            allouts += c["outputs"]
        L.append('  "<all>":')
        L.append("    tool: phony")
        L.append("    inputs: [%s]" % ", ".join('"%s"' % o for o in allouts))
        L.append('    outputs: ["<all>"]')
        return "\n".join(L) + "\n"

    def file_downstream(self, roots):
        """commands that re-run when the FILE outputs of `roots` are rewritten (a virtual node's value does not change)"""
        hit = set()
        changed = True
        while changed:
            changed = False
            for c in self.cmds:
                if c["name"] in hit:
                    continue
                if any(not i.startswith("<") and (self.producer.get(i) in hit or self.producer.get(i) in roots) for i in c["inputs"]):
                    hit.add(c["name"])
                    changed = True
        return hit

    def to_json(self):
        return {"ext": True, "idx": self.idx, "cmds": self.cmds, "phases": self.phases, "repeat": self.repeat, "history": self.history}


def fixed_descx():
    """hand-written members of the scenario space, first in every run: a chain whose head has allow-modified-outputs, fails by
    each kind of cause AFTER writing its outputs, is rebuilt unchanged, then repaired (with and without an earlier success)"""
    out = []
    modes = ["exit@after", "sig15@after", "sig11@partial", "sig6@before", "sig9@after", "sig2@after", "sig1@after", "undeclared-input",
             "missing-input", "unwritable-output", "sig13@after", "exit@partial"]
    for i, mode in enumerate(modes):
        amo = mode != "unwritable-output" and i % 3 != 2
        cmds = [{"name": "C0", "tool": "shell", "inputs": [], "outputs": ["o/C0.a", "o/C0.b"], "src": "src/C0.src", "amo": amo, "aood": False, "ami": False},
                {"name": "C1", "tool": "shell", "inputs": ["o/C0.a"], "outputs": ["o/C1.a"], "src": "src/C1.src", "amo": False, "aood": False, "ami": False},
                {"name": "C2", "tool": "shell", "inputs": ["o/C1.a", "o/C0.b"], "outputs": ["o/C2.a", "<C2>"], "src": "src/C2.src", "amo": i % 2 == 1, "aood": False, "ami": False},
                {"name": "C3", "tool": "shell", "inputs": [], "outputs": ["o/C3.a"], "src": "src/C3.src", "amo": False, "aood": i == 5, "ami": False}]
        out.append(DescX(None, 2000 + i, fixed={"cmds": cmds, "phases": [{"C0": mode}], "repeat": [True], "history": i % 2 == 0}))
    return out


class Session(InProc):
    """keep-going client that creates ONE BuildSystem per history and reuses it for every build of that history"""
    name = "session"
    verb = "session"

    def drop(self, d):
        self.p.stdin.write(("drop %s\n" % d).encode())
        self.p.stdin.flush()
        self.p.stdout.readline()


def run_hist(client, base, desc, jobs):
    """The history of a DescX through one client.  Oracle = the property text, evaluated with a lower bound `pending` of the
    commands that MUST execute in the next build in which nothing upstream of them fails (never built, failed, skipped because
    of a failure, or made out of date by the test)."""
    fails = []
    keep = client.name != "cli"
    d = os.path.join(base, "x%d-j%d-%s" % (desc.idx, jobs, client.name))
    clean = d + "-clean"
    shell = [c["name"] for c in desc.cmds if c["tool"] == "shell"]
    amo = {c["name"] for c in desc.cmds if c["amo"]}
    aood = {c["name"] for c in desc.cmds if c["aood"]}
    # amo_risky: allow-modified-outputs commands that had a recorded success and LATER failed, were skipped for a failure or
    # were executing in a build that failed (two findings of the strengthening round live exactly there, see notes/C10.md)
    st = {"label": "", "build": 0, "ever_armed": set(), "succeeded": set(), "amo_risky": set()}
    cx = {"cases": [], "outside": {}}

    def setup(x):
        shutil.rmtree(x, ignore_errors=True)
        for sub in ("ctl", "src", "o", "aux"):
            os.makedirs(os.path.join(x, sub))
        open(os.path.join(x, "build.llbuild"), "w").write(desc.manifest())
        for c in desc.cmds:
            if c["src"]:
                open(os.path.join(x, c["src"]), "w").write("src of %s\n" % c["name"])
                open(os.path.join(x, "aux", c["name"] + ".aux"), "w").write("aux\n")
    setup(d)

    def bad(what, **kw):
        f = {"what": "[%s client, %s, build %d: %s] %s" % (client.name, "serial" if jobs == 1 else "-j%d" % jobs, st["build"], st["label"], what),
             "route": "e2e", "stream": "history", "client": client.name, "jobs": jobs,
             "input": {"desc": desc.to_json(), "jobs": jobs, "client": client.name},
             # discriminating facts about the history so far (see notes/C10.md, findings of the strengthening round)
             "amo_unsuccessful_after_success": bool(st["amo_risky"])}
        f.update(kw)
        fails.append(f)

    def files_out(nm):
        return [o for o in desc.byname[nm]["outputs"] if not o.startswith("<")]

    def edit_src(nm, pending, recreate=False):
        """a changed source; allow-modified-outputs commands at or below it are not re-run for a changed input while their outputs
        exist (known finding F42, not a C10 clause): take their outputs away so that they have to run"""
        p = os.path.join(d, desc.byname[nm]["src"])
        if recreate:
            open(p, "w").write("src of %s, recreated in build %d\n" % (nm, st["build"]))
        else:
            open(p, "a").write("edited before build %d, longer\n" % (st["build"] + 1))
        for x in ({nm} | desc.file_downstream({nm})) & amo:
            for o in files_out(x):
                try:
                    os.unlink(os.path.join(d, o))
                except (FileNotFoundError, IsADirectoryError):
                    pass
            pending.add(x)

    def arm(nm, mode, pending):
        c = desc.byname[nm]
        if nm not in pending:
            edit_src(nm, pending)
            pending.add(nm)
        if mode == "missing-input":
            os.unlink(os.path.join(d, c["src"]))
        elif mode == "undeclared-input":
            os.unlink(os.path.join(d, "aux", nm + ".aux"))
        elif mode == "unwritable-output":
            p = os.path.join(d, files_out(nm)[0])
            if os.path.isfile(p):
                os.unlink(p)
            os.mkdir(p)
        else:
            how, when = mode.split("@")
            open(os.path.join(d, "ctl", "%s.%s" % (nm, when)), "w").write("exit\n" if how == "exit" else how[3:] + "\n")
        st["ever_armed"].add(nm)

    def disarm(nm, mode, pending):
        c = desc.byname[nm]
        if mode == "missing-input":
            edit_src(nm, pending, recreate=True)
        elif mode == "undeclared-input":
            open(os.path.join(d, "aux", nm + ".aux"), "w").write("aux\n")
        elif mode == "unwritable-output":
            os.rmdir(os.path.join(d, files_out(nm)[0]))
        else:
            os.unlink(os.path.join(d, "ctl", "%s.%s" % (nm, mode.split("@")[1])))
        pending.add(nm)

    def once(log, names, why, clause="rerun"):
        for nm in sorted(names):
            if log.count(nm) != 1:
                bad("%s: command %s executed %d times, expected exactly once" % (why, nm, log.count(nm)), clause=clause, command=nm,
                    mode=armed.get(nm, "not-failing"), command_amo=nm in amo)

    def build(label, armed, pending):
        st["label"] = label
        st["build"] += 1
        failed, log, out = client.build(d, jobs)
        F = set(armed)
        down = {n for n in desc.data_downstream(F) if desc.byname[n]["tool"] == "shell"}
        roots = F - down
        skips = {n for n in F if armed[n] == "missing-input" and not desc.byname[n]["ami"]}     # never started: the input is missing
        if roots:
            st["amo_risky"] |= amo & st["succeeded"] & (F | down | set(log))
        for nm in sorted(set(log)):
            if nm in down:
                bad("%s executed although it consumes (transitively) an output of a failing command %s" % (nm, sorted(F)),
                    clause="no-downstream-execution", command=nm)
            elif nm in skips:
                bad("%s executed although its declared input is missing" % nm, clause="no-downstream-execution", command=nm)
            if log.count(nm) > 1:
                bad("%s executed %d times in one build" % (nm, log.count(nm)), clause="rerun", command=nm, mode="twice")
        if bool(roots) != bool(failed):
            modes = sorted(armed[n] for n in roots)
            bad("the build reports %s (%s) although %s" % ("failure" if failed else "success", out,
                                                           "commands %s fail (%s)" % (sorted(roots), ",".join(modes)) if roots else "nothing fails"),
                clause="build-reports-failure", modes=modes,
                only_killed=bool(roots) and all(m.startswith(("sig9@", "sig2@")) for m in modes))
        if keep:
            once(log, roots - skips, "a failing command is attempted (again)")
            once(log, pending - F - down, "a command that never ran, failed, was skipped for a failure or is out of date, and has no failing producer now, runs")
            now = (pending - set(log)) | F | down
        else:
            if roots and not (roots & skips) and F == roots and not (set(log) & roots):
                bad("none of the failing commands %s was attempted" % sorted(roots), clause="rerun", command=sorted(roots)[0], mode="any")
            if not F:
                once(log, pending, "a command that never ran, failed or is out of date runs once nothing fails any more")
            now = (pending - set(log)) | F
        st["succeeded"] |= set(log) - F - down
        pending.clear()
        pending.update(now)
        # stream `clientx`: what the engine recorded for this build against the extended client model
        if keep and KINDS:
            lines, impl = clientx_case(desc, d, armed, KINDS)
            if lines is None:
                cx["outside"][impl.split(":")[0]] = cx["outside"].get(impl.split(":")[0], 0) + 1
            else:
                cx["cases"].append((lines, impl, "%s, build %d: %s" % (client.name, st["build"], label)))
        elif not keep:
            cx["outside"]["cli client"] = cx["outside"].get("cli client", 0) + 1
        return failed, log, out

    pending = set(shell)
    armed = {}
    if desc.history:
        failed, log, out = build("initial build, nothing fails", armed, pending)
        if failed or sorted(log) != sorted(shell):
            bad("initial build without failures did not run every command once and succeed (%s log=%s)" % (out, log), clause="reference")
            if client.name == "session":
                client.drop(d)
            return fails, {}
    for pi, phase in enumerate(desc.phases):
        for nm in sorted(set(armed) - set(phase)) + sorted(nm for nm in armed if nm in phase and phase[nm] != armed[nm]):
            disarm(nm, armed.pop(nm), pending)
        for nm in sorted(phase):
            if nm not in armed:
                arm(nm, phase[nm], pending)
                armed[nm] = phase[nm]
        build("phase %d, failing %s" % (pi + 1, json.dumps(phase, sort_keys=True)), armed, pending)
        if desc.repeat[pi]:
            build("phase %d again, nothing changed" % (pi + 1), armed, pending)
    for nm in sorted(armed):
        disarm(nm, armed.pop(nm), pending)
    failed, log, out = build("after repair", armed, pending)
    got = snapshot(d)
    setup(clean)
    for c in desc.cmds:
        if c["src"]:
            shutil.copyfile(os.path.join(d, c["src"]), os.path.join(clean, c["src"]))
    st["label"] = "reference clean build"
    cfailed, clog, cout = (client if client.name != "session" else client.fresh).build(clean, jobs)
    if cfailed or sorted(clog) != sorted(shell):
        bad("reference clean build did not run every command once and succeed (%s log=%s)" % (cout, clog), clause="reference")
    elif got != snapshot(clean):
        want = snapshot(clean)
        diff = sorted(k for k in set(got) | set(want) if got.get(k) != want.get(k))
        bad("after repair the outputs differ from a clean build of the same sources: %s" % diff, clause="converges", files=diff)
    st["label"] = "null build after convergence"
    st["build"] += 1
    failed, log, out = client.build(d, jobs)
    may = aood | desc.file_downstream(aood)
    if failed or not ((aood - amo) <= set(log) <= may):
        bad("not a null build: %s executed=%s (always-out-of-date commands: %s)" % (out, log, sorted(aood)), clause="converges")
    if client.name == "session":
        client.drop(d)
    shutil.rmtree(d, ignore_errors=True)
    shutil.rmtree(clean, ignore_errors=True)
    modes = sorted(set(m for ph in desc.phases for m in ph.values()))
    return fails, {"cmds": len(shell), "failing": len(desc.fail), "downstream": len(desc.data_downstream(set(desc.fail))), "modes": modes,
                   "phony": sum(1 for c in desc.cmds if c["tool"] == "phony"), "builds": st["build"], "phases": len(desc.phases),
                   "amo_failing": len(amo & set(desc.fail)), "amo_unsuccessful_after_success": bool(st["amo_risky"]),
                   "aood": len(aood), "history": desc.history, "clientx": cx}


# --------------------------------------------------------------------------------------------------
# stream `cancel_histories` (added after seeded change C10-6): a LONG-LIVED client (one BuildSystem for the whole history, as
# BuildSystemFrontend keeps it) with a CANCELLING policy — "keep going, give up at the N-th failed command", or a cancel when a given
# command starts / has finished —, 2 lanes, descriptions in which a command has one input that fails FAST and one that is SLOW: the command
# is told FailedInput / MissingInput and the build is cancelled before it executes.  Then the cause is removed and the same client builds
# again, 1-3 times.  Only schedule-independent facts are judged (the timing decides what a changed tree shows, never what the unchanged one does).
# --------------------------------------------------------------------------------------------------
class CancelDesc:
    def __init__(self, rng, idx, fixed=None):
        self.idx = idx
        if fixed is not None:
            self.cmds, self.phases = fixed["cmds"], fixed["phases"]
            self.byname = {c["name"]: c for c in self.cmds}
            return
        shape = idx % 4
        C = lambda name, ins, kind: {"name": name, "inputs": ins, "kind": kind, "out": "o/%s.a" % name, "src": "src/%s.src" % name}
        if shape == 0:      # the demonstration of seeded/C10-6
            self.cmds = [C("A", [], "fast"), C("B", [], "slow"), C("C", ["A", "B"], "use"), C("D", ["C"], "use")]
        elif shape == 1:    # chains
            self.cmds = [C("A", [], "fast"), C("M", ["A"], "use"), C("B", [], "slow"), C("C", ["M", "B"], "use"), C("D", ["C"], "use"), C("E", ["D"], "use")]
        elif shape == 2:    # diamond
            self.cmds = [C("A", [], "fast"), C("B", [], "slow"), C("C1", ["A", "B"], "use"), C("C2", ["A"], "use"), C("D", ["C1", "C2"], "use")]
        else:
            self.cmds = [C("A", [], "fast"), C("A2", [], "fast"), C("B", [], "slow")] + ([C("B2", [], "slow")] if rng.chance(1, 2) else [])
            for i in range(2 + rng.below(3)):
                prev = [c["name"] for c in self.cmds]
                ins = [rng.choice([n for n in prev if n.startswith("A") or n.startswith("U")]), rng.choice([n for n in prev if n.startswith("B")])]
                x = rng.choice(prev)
                if x not in ins and rng.chance(1, 2):
                    ins.append(x)
                self.cmds.append(C("U%d" % i, ins, "use"))
        self.byname = {c["name"]: c for c in self.cmds}
        fast = [c["name"] for c in self.cmds if c["kind"] == "fast"]
        slow = [c["name"] for c in self.cmds if c["kind"] == "slow"]
        use = [c["name"] for c in self.cmds if c["kind"] == "use"]
        self.phases = []
        for ph in range(1 + rng.below(2)):
            r = rng.below(8)
            arm = {rng.choice(fast): "exit"}
            if r < 4:       # a slow producer fails as well: the policy gives up at the 2nd failure
                arm[rng.choice(slow)] = "exit"
                policy = "k2"
            elif r == 4:    # user cancel when the slow producer has finished (it succeeds)
                policy = "f" + rng.choice(slow)
            elif r == 5:    # the consumer's own source is missing (MissingInput) and a slow producer fails: cancel when it has finished
                s = rng.choice(slow)
                arm = {rng.choice(use): "missing-input", s: "exit"}
                policy = "f" + s
            elif r == 6:
                arm[rng.choice(fast)] = "missing-input"
                arm[rng.choice(slow)] = "exit"
                policy = "k2"
            else:
                arm[rng.choice(slow)] = "exit"
                policy = "k3" if len(arm) < 3 else "k2"      # never reached: plain keep-going control
            self.phases.append({"arm": arm, "policy": policy, "twice": rng.chance(1, 3), "repaired_builds": 1 + rng.below(3)})

    def down(self, roots):
        bad = set()
        for c in self.cmds:          # topological order
            if any(i in bad or i in roots for i in c["inputs"]):
                bad.add(c["name"])
        return bad

    def manifest(self):
        L = ["client:", "  name: basic", "  version: 0", "", "targets:", '  "": ["<all>"]', "", "commands:"]
        for c in self.cmds:
            nm = c["name"]
            ins = [self.byname[i]["out"] for i in c["inputs"]] + [c["src"]]
            body = "echo %s >> log; " % nm
            if c["kind"] == "slow":
                body += "if [ -e ctl/slow ]; then n=0; while [ ! -e ctl/gate ] && [ $n -lt 100 ]; do sleep 0.01; n=$((n+1)); done; sleep 0.25; fi; "
            body += "if [ -e ctl/%s.fail ]; then touch ctl/gate; exit 3; fi; " % nm
            body += "{ echo '%s('; cat %s || exit 8; echo ')'; } > %s || exit 9; true" % (nm, " ".join(ins), c["out"])
            L += ['  "%s":' % nm, "    tool: shell", "    inputs: [%s]" % ", ".join('"%s"' % i for i in ins), '    outputs: ["%s"]' % c["out"],
                  '    args: ["/bin/sh", "-c", "%s"]' % body]
        L += ['  "<all>":', "    tool: phony", "    inputs: [%s]" % ", ".join('"%s"' % c["out"] for c in self.cmds), '    outputs: ["<all>"]']
        return "\n".join(L) + "\n"

    def to_json(self):
        return {"cancel": True, "idx": self.idx, "cmds": self.cmds, "phases": self.phases}


class PolicySession(InProc):
    """keep-going client with ONE BuildSystem per history and a per-build cancelling policy"""
    name = "session+policy"

    def build(self, d, jobs, policy="-", verb="session"):
        try:
            os.unlink(os.path.join(d, "log"))
        except FileNotFoundError:
            pass
        self.p.stdin.write(("%s %s %d %s\n" % (verb, d, jobs, policy)).encode())
        self.p.stdin.flush()
        line = self.p.stdout.readline().decode().strip()
        m = re.fullmatch(r"ok=(\d) failures=(\d+) errors=(\d+) cancelled=(\d+)", line)
        if not m:
            raise RuntimeError("harness c10build: %r" % line)
        lp = os.path.join(d, "log")
        log = open(lp).read().split() if os.path.exists(lp) else []
        # what BuildSystemFrontend::build returns: `!cancelled && no failed command`
        failed = not (m.group(1) == "1" and m.group(2) == "0" and m.group(3) == "0" and m.group(4) == "0")
        return failed, log, line

    def drop(self, d):
        self.p.stdin.write(("drop %s\n" % d).encode())
        self.p.stdin.flush()
        self.p.stdout.readline()


def run_cancel_hist(client, base, desc):
    fails = []
    d = os.path.join(base, "k%d" % desc.idx)
    clean = d + "-clean"
    st = {"label": "", "build": 0}
    stats = {"builds": 0, "failing_builds": 0, "cancelled_builds": 0, "repaired_builds": 0, "told_then_cancelled_candidates": 0, "policies": {}}
    names = [c["name"] for c in desc.cmds]

    def setup(x):
        shutil.rmtree(x, ignore_errors=True)
        for sub in ("ctl", "src", "o"):
            os.makedirs(os.path.join(x, sub))
        open(os.path.join(x, "build.llbuild"), "w").write(desc.manifest())
        for c in desc.cmds:
            open(os.path.join(x, c["src"]), "w").write("src of %s\n" % c["name"])
    setup(d)

    def bad(what, **kw):
        f = {"what": "[long-lived client with a cancelling policy, 2 lanes, build %d: %s] %s" % (st["build"], st["label"], what), "route": "e2e",
             "stream": "cancel-history", "client": client.name, "jobs": 2, "input": {"desc": desc.to_json(), "jobs": 2, "client": client.name}}
        f.update(kw)
        fails.append(f)

    def build(label, policy="-"):
        st["label"], st["build"] = label, st["build"] + 1
        stats["builds"] += 1
        failed, log, out = client.build(d, 2, policy)
        for nm in sorted(set(log)):
            if log.count(nm) > 1:
                bad("%s executed %d times in one build" % (nm, log.count(nm)), clause="rerun", command=nm, mode="twice")
        return failed, log, out
    must = set(names)        # commands that MUST execute in the next build in which nothing fails (never succeeded / failed / downstream of a failure)
    edits = 0
    for pi, ph in enumerate(desc.phases):
        arm, policy = ph["arm"], ph["policy"]
        stats["policies"][policy[0]] = stats["policies"].get(policy[0], 0) + 1
        for nm, mode in sorted(arm.items()):
            c = desc.byname[nm]
            if mode == "missing-input":
                os.unlink(os.path.join(d, c["src"]))
            else:
                edits += 1
                open(os.path.join(d, c["src"]), "a").write("edited %d, longer\n" % edits)      # it has to run
                open(os.path.join(d, "ctl", nm + ".fail"), "w").write("x")
        open(os.path.join(d, "ctl", "slow"), "w").write("x")
        F = set(arm)
        down = desc.down(F)
        must |= F | down
        for rep in range(2 if ph["twice"] else 1):
            try:
                os.unlink(os.path.join(d, "ctl", "gate"))
            except FileNotFoundError:
                pass
            failed, log, out = build("phase %d%s, failing %s, policy %s" % (pi + 1, " again" if rep else "", json.dumps(arm, sort_keys=True), policy), policy)
            stats["failing_builds"] += 1
            stats["cancelled_builds"] += 1 if "cancelled=0" not in out else 0
            if not failed:
                bad("the build reports success (%s) although commands %s fail" % (out, sorted(F)), clause="build-reports-failure", modes=sorted(arm.values()), only_killed=False)
            for nm in sorted(set(log)):
                if nm in down:
                    bad("%s executed although it consumes (transitively) an output of a failing command %s" % (nm, sorted(F)),
                        clause="no-downstream-execution", command=nm)
                if arm.get(nm) == "missing-input":
                    bad("%s executed although its declared input is missing" % nm, clause="no-downstream-execution", command=nm)
            must -= set(log) - F - down        # ran without failing: recorded, or dropped by the cancellation and run again — both are fine
            if "cancelled=0" not in out and any(any(i in F or i in down for i in desc.byname[x]["inputs"]) and
                                                any(desc.byname[i]["kind"] == "slow" for i in desc.byname[x]["inputs"]) for x in names):
                stats["told_then_cancelled_candidates"] += 1
        # the cause is removed; the same client builds again
        for nm, mode in sorted(arm.items()):
            c = desc.byname[nm]
            if mode == "missing-input":
                open(os.path.join(d, c["src"]), "w").write("src of %s, recreated\n" % nm)
            else:
                os.unlink(os.path.join(d, "ctl", nm + ".fail"))
        for x in ("slow", "gate"):
            try:
                os.unlink(os.path.join(d, "ctl", x))
            except FileNotFoundError:
                pass
        for rb in range(ph["repaired_builds"]):
            failed, log, out = build("phase %d, build %d after the repair (nothing fails any more)" % (pi + 1, rb + 1))
            stats["repaired_builds"] += 1
            if rb == 0:
                if failed:
                    bad("the build after the repair reports failure (%s) although nothing fails" % out, clause="converges", repaired=True)
                missing = sorted(c["out"] for c in desc.cmds if not os.path.isfile(os.path.join(d, c["out"])))
                notrun = sorted(must - set(log))
                if notrun:
                    bad("the build reports %s (%s) but command(s) %s — failed, cancelled or skipped for a failure that no longer exists — were NOT executed%s" % (
                        "failure" if failed else "success", out, notrun, "; outputs %s do not exist" % missing if missing else ""),
                        clause="rerun", command=notrun[0], mode="stale-skip-after-cancel", policy=policy[0], silent=not failed)
                elif missing:
                    bad("after the repaired build outputs %s do not exist" % missing, clause="converges")
                if not failed and not notrun:
                    must = set()
            else:
                if failed or log:
                    bad("not a null build: %s executed=%s (nothing changed since the previous build)" % (out, log), clause="converges", repaired=True)
    # the final state equals a clean build of the same sources
    got = snapshot(d)
    setup(clean)
    for c in desc.cmds:
        shutil.copyfile(os.path.join(d, c["src"]), os.path.join(clean, c["src"]))
    st["label"] = "reference clean build"
    cfailed, clog, cout = client.build(clean, 2, "-", verb="build")
    if cfailed or sorted(clog) != sorted(names):
        bad("reference clean build did not run every command once and succeed (%s log=%s)" % (cout, clog), clause="reference")
    elif got != snapshot(clean):
        want = snapshot(clean)
        diff = sorted(k for k in set(got) | set(want) if got.get(k) != want.get(k))
        bad("after the repair the outputs differ from a clean build of the same sources: %s" % diff, clause="converges", files=diff)
    client.drop(d)
    shutil.rmtree(d, ignore_errors=True)
    shutil.rmtree(clean, ignore_errors=True)
    return fails, stats


# --------------------------------------------------------------------------------------------------
# stream `mkdir_histories` (added after seeded change C10-7): a `mkdir` tool command with consumers of its directory node, through the
# keep-going clients (its failed result IS recorded).  Failure flavour: a REGULAR FILE at the directory's path.  Repair flavours: the obstacle
# is removed, or the user replaces the file by a directory BY HAND.  The mkdir command runs in-process (no side-effect log): that it was
# retried is read from what the engine records (build.db: value kind of the command) and from its consumers, which must execute.
# --------------------------------------------------------------------------------------------------
def mkdir_manifest(v):
    chain = v % 2 == 1
    L = ["client:", "  name: basic", "  version: 0", "", "targets:", '  "": ["<all>"]', "", "commands:",
         '  "M":', "    tool: mkdir", '    outputs: ["dir/sub"]',
         '  "C":', "    tool: shell", '    inputs: ["dir/sub", "src/C.src"]', '    outputs: ["o/C.a"]',
         '    args: ["/bin/sh", "-c", "echo C >> log; cat src/C.src > o/C.a; echo x > dir/sub/made-by-C"]',
         '  "I":', "    tool: shell", '    inputs: ["src/I.src"]', '    outputs: ["o/I.a"]', '    args: ["/bin/sh", "-c", "echo I >> log; cat src/I.src > o/I.a"]']
    outs = ["o/C.a", "o/I.a"]
    if chain:
        L += ['  "D":', "    tool: shell", '    inputs: ["o/C.a"]', '    outputs: ["o/D.a"]', '    args: ["/bin/sh", "-c", "echo D >> log; cat o/C.a > o/D.a"]']
        outs.append("o/D.a")
    L += ['  "<all>":', "    tool: phony", "    inputs: [%s]" % ", ".join('"%s"' % o for o in outs), '    outputs: ["<all>"]']
    return "\n".join(L) + "\n", (["C", "D"] if chain else ["C"])


def run_mkdir_hist(client, base, v, kinds):
    """v: bit 0 chain consumer, bit 1 a successful build first, bit 2 repair by hand (else: obstacle removed), bit 3 failing build twice"""
    fails = []
    d = os.path.join(base, "m%d-%s" % (v, client.name))
    shutil.rmtree(d, ignore_errors=True)
    for sub in ("src", "o", "dir"):
        os.makedirs(os.path.join(d, sub))
    man, consumers = mkdir_manifest(v)
    open(os.path.join(d, "build.llbuild"), "w").write(man)
    for n in ("C", "I"):
        open(os.path.join(d, "src", n + ".src"), "w").write("src of %s\n" % n)
    st = {"n": 0, "label": ""}
    by_hand = bool(v & 4)

    def bad(what, **kw):
        f = {"what": "[%s client, mkdir history %d, build %d: %s] %s" % (client.name, v, st["n"], st["label"], what), "route": "e2e",
             "stream": "mkdir-history", "client": client.name, "jobs": 1, "input": {"desc": {"mkdir": True, "v": v}, "jobs": 1, "client": client.name}}
        f.update(kw)
        fails.append(f)

    def build(label):
        st["n"], st["label"] = st["n"] + 1, label
        failed, log, out = client.build(d, 1)
        try:
            kind = db_snapshot(os.path.join(d, "build.db"), kinds).get(b"CM", ("<no record>", []))[0]
        except Exception as e:
            kind = "<unreadable: %s>" % e
        return failed, log, out, kind
    sub = os.path.join(d, "dir", "sub")
    if v & 2:
        failed, log, out, kind = build("initial build, nothing fails")
        if failed or sorted(log) != sorted(consumers + ["I"]) or kind != "SuccessfulCommand":
            bad("initial build did not succeed and run every command (%s log=%s mkdir record %s)" % (out, log, kind), clause="reference")
        shutil.rmtree(sub, ignore_errors=True)
    open(sub, "w").write("a regular file where the directory has to be\n")
    for rep in range(2 if v & 8 else 1):
        failed, log, out, kind = build("a regular file is at the directory's path%s" % (" (again, nothing changed)" if rep else ""))
        if not failed:
            bad("the build reports success (%s) although the mkdir command cannot create its directory" % out, clause="build-reports-failure", modes=["mkdir-obstacle"], only_killed=False)
        if kind not in ("FailedCommand",):
            bad("the recorded result of the failed mkdir command is %s" % kind, clause="rerun", command="M", mode="mkdir-obstacle")
        for nm in log:
            if nm in consumers:
                bad("%s executed although it consumes (transitively) the directory of the failed mkdir command" % nm, clause="no-downstream-execution", command=nm)
    os.unlink(sub)
    if by_hand:
        os.mkdir(sub)
    failed, log, out, kind = build("after the repair: %s" % ("the user replaced the file by a directory by hand" if by_hand else "the obstacle was removed"))
    if failed:
        bad("the build after the repair reports failure (%s)" % out, clause="converges")
    if kind != "SuccessfulCommand":
        bad("the failed mkdir command was not retried: its recorded result is still %s (%s)" % (kind, out), clause="rerun", command="M",
            mode="mkdir-obstacle", by_hand=by_hand)
    notrun = [nm for nm in consumers if nm not in log]
    if notrun:
        bad("the build reports %s (%s) but the consumers %s of the directory (skipped for the failure) were NOT executed; executed: %s" % (
            "failure" if failed else "success", out, notrun, log), clause="rerun", command=notrun[0], mode="mkdir-obstacle", by_hand=by_hand)
    if not os.path.isdir(sub) or not all(os.path.isfile(os.path.join(d, "o", nm + ".a")) for nm in consumers):
        bad("after the repaired build the directory or an output of its consumers is missing", clause="converges")
    failed, log, out, kind = build("null build")
    if failed or log:
        bad("not a null build: %s executed=%s" % (out, log), clause="converges")
    if client.name == "session":
        client.drop(d)
    shutil.rmtree(d, ignore_errors=True)
    return fails


class Check(PropertyCheck):
    prop = "C10"
    module = "LLBuild.Props.C10All"
    theorems = ["LLBuild.FailProp.C10_failure_maps_to_failed_input", "LLBuild.FailProp.C10_failure_maps_to_failed_input_nodes",
                "LLBuild.FailProp.C10_process_outcomes", "LLBuild.FailProp.C10_skip_domain",
                "LLBuild.FailProp.C10_failed_input_skips", "LLBuild.FailProp.C10_never_up_to_date",
                "LLBuild.FailProp.C10_build_fails",
                # added after the seeded changes: every way a child can end (exit code / any signal); the stored failure never
                # enables the update-without-running shortcut of execute
                "LLBuild.FailProp.C10_child_end_outcomes", "LLBuild.FailProp.C10_failed_prior_is_rerun",
                "LLBuild.FailProp.C10_failed_prior_is_rerun_reused"] + \
               ["LLBuild.Engine." + t for t in (
                   # engine level, any client with the failure facts (Props/C10Engine.lean)
                   "C10_failed_never_up_to_date", "C10_failed_up_to_date_rejected", "C10_failed_never_up_to_date_any_client",
                   "C10_failed_verdict_invalid", "C10_failed_is_rerun", "C10_no_downstream_value_step", "C10_no_downstream_value",
                   "C10_no_downstream_value_unique", "C10_downstream_done_is_bad", "C10_downstream_delivers_bad",
                   "C10_downstream_build_returns_bad", "C10_converges")] + \
               ["LLBuild.BuildSystemClient." + t for t in (
                   # the BuildSystem's rule set has the failure facts (Props/C10Client.lean)
                   "C10_client_failure", "C10_client_failed_never_up_to_date", "C10_client_failed_is_rerun",
                   "C10_client_downstream_done_is_bad", "C10_client_downstream_delivers_bad", "C10_client_converges",
                   "C10_client_tables_agree",
                   # Props/C08X.lean: the EXTENDED client (a shell command fails by itself: non-zero exit status; dependency-file failure)
                   "C10X_client_failure", "C10X_own_failure_never_feeds_dependents", "C10X_own_failure_retried")]
    # x_bsrules / x_enginefp: the engine-level theorems (Props/C10Client.lean, Props/C10Engine.lean) quantify over the
    # generated rule tables of the C08 client model and import the engine-model fingerprint check of C01
    # x_depsparsers: Props/C08X.lean (extended client) ties its dependency files to the parser models of C11 (Generated/DepsTables.lean)
    extractors = ["x_failtables", "x_bsrules", "x_enginefp", "x_depsparsers"]
    harnesses = [("vc10", "plain")]
    assumptions = [
        "decision chains are translated from the source text by extract/x_failtables.py (fails closed on unknown shapes) and corresponded exhaustively against the real methods",
        "phony commands' virtual non-timestamp outputs are ordering-only edges (F16; documented purpose of the tool) and SwiftGetVersionCommand is never a producer",
        "engine-level clauses (closure, re-run on the next build, convergence) are theorems about traces accepted by the abstract engine monitor (Model/Engine.lean; its tie to BuildEngine.cpp is C01's correspondence) for any client with the two failure facts, instantiated for the C08 client model (Model/BuildSystemClient.lean: no discovered dependencies, a command has no failure of its own besides a missing/failed input) AND for its extension (Model/BuildSystemClientX.lean, Props/C08X.lean: a shell command that exits with a non-zero status - `exitsNonZero`, a predicate of the contents of its declared inputs - or whose dependency files cannot be processed completes with the failure value; C10X_own_failure_never_feeds_dependents / C10X_own_failure_retried; stream `clientx` compares the value kind the real engine records in build.db for every command and produced node, and every recorded dependency list, with that model on every build of the keep-going and session histories); 'not executed' is stated on values (the skip value), the process-level statement is C10_failed_input_skips + the end-to-end oracle",
        "a CAPIExternalCommand whose client supplies its own is_result_valid is outside the table (client code)",
        "allow-modified-outputs: a command whose only reason to run is a changed INPUT is not re-run while its outputs exist (known finding F42, property C08); the C10 histories keep to the failure/retry/repair clauses: whenever the test edits a source it removes the outputs of the allow-modified-outputs commands at or below it",
        "requires fix F47 (start() resets hasPriorResult / canUpdateIfNewer; applied): without it C10_failed_prior_is_rerun_reused does not hold and the life stream / the session client report the stale-flag history",
        "known finding F48 (cancelled build keeps the last successful database record of the commands in flight; allow-modified-outputs commands are then not retried through the llbuild tool) is suppressed by its narrow match only",
    ]
    trusted_base = ["build.db decoder of the `clientx` stream (first byte of the stored BuildValue = kind; dependency list = key ids)", "extractor x_failtables", "extractors x_bsrules, x_enginefp (shared with C08 / C01) and the hand models Model/Engine.lean, Model/BuildSystemClient.lean for the engine-level theorems", "harness vc10 (real getResultForOutput / provideValue+execute / isResultValid / Produced*NodeTask::isResultValid)",
                    "python oracles: table restatement of the three clauses; end-to-end history oracle through bin/llbuild",
                    "Linux wait-status encoding (glibc <bits/waitstatus.h>, signal numbers) written into the generated file by the extractor; the proc stream "
                    "compares it with what the kernel reports for real children (python os.W* on the raw status)"]

    # ---------------------------------------------------------------------------------------------
    def table_ops(self, ctx, kinds, classes, preds):
        ops = []
        K = range(len(kinds))
        for c in classes:
            for k in K:
                for nc in NODE_CLASSES:
                    for miss in (0, 1):
                        ops.append("rfo %s %d %s %d" % (c, k, nc, miss))
        legal = None
        for a in (0, 1):
            ops.append("prov %d ." % a)
            for k in K:
                ops.append("prov %d %d" % (a, k))
            for k1 in K:
                for k2 in K:
                    ops.append("prov %d %d,%d" % (a, k1, k2))
        self.n_short = len(ops)
        for c in classes:
            for k in K:
                for env in itertools.product((0, 1), repeat=4):
                    ops.append("valid %s %d %d %d %d %d" % ((c, k) + env))
        # real children through the real execution queue: every exit code, every signal whose default action ends the process
        for n in range(256):
            ops.append("proc exit %d" % n)
        for n in FATAL_SIGNALS:
            ops.append("proc sig %d" % n)
        for k in K:
            ops.append("pnode %d" % k)
            ops.append("pdir %d" % k)
            for p in preds:
                ops.append("pred %s %d" % (p, k))
        return ops

    def life_ops(self, ctx, nkinds, legal, first_priors, mo):
        def build(prior, inputs):
            return ["s"] + (["p%d" % prior] if prior is not None else []) + ["v%d" % k for k in inputs] + ["x"]
        priors = [None] + list(range(nkinds))
        ops = []
        for amo in (0, 1):
            for exist in (0, 1):
                for p in priors:
                    for ins in [[]] + [[k] for k in legal]:
                        ops.append("life %d %d %s" % (amo, exist, ",".join(build(p, ins))))
                firsts = priors if ctx.thorough else [None] + sorted(first_priors)
                for p1 in firsts:
                    for i1 in ([], [mo]):
                        for p2 in priors:
                            for i2 in ([], [mo]):
                                ops.append("life %d %d %s" % (amo, exist, ",".join(build(p1, i1) + build(p2, i2))))
                if ctx.thorough:
                    for p1 in sorted(first_priors):
                        for p2 in [None] + sorted(first_priors):
                            for p3 in priors:
                                ops.append("life %d %d %s" % (amo, exist, ",".join(build(p1, []) + build(p2, []) + build(p3, []))))
        return ops

    def table_part(self, ctx, res):
        kinds, classes, preds = generated_names()
        ord_of = {k: i for i, k in enumerate(kinds)}
        ops = self.table_ops(ctx, kinds, classes, preds)
        mrc, mout, merr = run_model("c10table", ops)
        if mrc != 0 or len(mout) != len(ops):
            res.mismatches.append({"stream": "c10table", "input": "model driver exit %d, %d/%d lines" % (mrc, len(mout), len(ops)), "model": merr[-400:]})
            return
        # longer input sequences over the kinds the model says are legal inputs (the others are llvm_unreachable = UB)
        legal = [k for k in range(len(kinds)) if mout[ops.index("prov 0 %d" % k)] != "unreachable"]
        n3 = 3 if not ctx.thorough else 4
        extra = []
        for a in (0, 1):
            for t in itertools.product(legal, repeat=3):
                extra.append("prov %d %s" % (a, ",".join(map(str, t))))
            if ctx.thorough:
                for t in itertools.product(legal, repeat=4):
                    extra.append("prov %d %s" % (a, ",".join(map(str, t))))
        # one ExternalCommand object through one, two (thorough: three) builds: start, providePriorValue(kind)?, provideValue(kind)*, execute
        extra += self.life_ops(ctx, len(kinds), legal, {ord_of[k] for k in ("SuccessfulCommand", "SuccessfulCommandWithOutputSignature", "FailedCommand",
                                                                               "CancelledCommand", "PropagatedFailureCommand")}, ord_of["MissingOutput"])
        erc, eout, eerr = run_model("c10table", extra)
        ops += extra
        mout += eout
        if erc != 0 or len(mout) != len(ops):
            res.mismatches.append({"stream": "c10table", "input": "model driver exit %d on sequences" % erc, "model": eerr[-400:]})
            return
        # the implementation gets every op the model does not call unreachable
        send = [i for i, o in enumerate(ops) if not (o.startswith("prov") and mout[i] == "unreachable")]
        scratch = os.path.join(C.BUILD, "scratch")
        os.makedirs(scratch, exist_ok=True)
        hrc, hout, herr = C.run_lines([ctx.exe[("vc10", "plain")], "c10table", scratch], [ops[i] for i in send])
        if hrc != 0 or len(hout) != len(send):
            res.mismatches.append({"stream": "c10table", "input": "harness exit %d, %d/%d lines" % (hrc, len(hout), len(send)), "impl": herr[-400:]})
            return
        dist = {"ops": len(ops), "sent_to_impl": len(send), "model_unreachable_withheld": len(ops) - len(send), "not_constructible": 0,
                "guards_fall_through_to_fs": 0, "not_instantiable": 0, "compared": 0, "failure_kind_rows": 0}
        FAIL = {ord_of[k] for k in ("FailedCommand", "PropagatedFailureCommand", "CancelledCommand")}
        SUCC = {ord_of[k] for k in ("SuccessfulCommand", "SuccessfulCommandWithOutputSignature")}
        FI, MI, VI, PF = ord_of["FailedInput"], ord_of["MissingInput"], ord_of["VirtualInput"], ord_of["PropagatedFailureCommand"]
        life_alone = {}
        for j, i in enumerate(send):
            f = ops[i].split()
            if f[0] == "life" and f[3].count("s") == 1:
                life_alone[(f[1], f[2], f[3])] = hout[j]
        for j, i in enumerate(send):
            op, m, h = ops[i], mout[i], hout[j]
            f = op.split()
            if h == "n/a":
                dist["not_constructible"] += 1
                continue
            if h == "unknown-class" and (f[1] in NOT_INSTANTIABLE or (f[0] == "rfo" and f[1] in NO_RFO)):
                dist["not_instantiable"] += 1
                continue
            if h == "unknown" and f[0] == "pred" and f[1].startswith("kindHas"):
                dist["not_instantiable"] += 1       # private predicate
                continue
            if m == "c":
                dist["guards_fall_through_to_fs"] += 1
            else:
                dist["compared"] += 1
                if m != h and len(res.mismatches) < 20:
                    res.mismatches.append({"stream": "c10table", "input": op, "model": m, "impl": h})
            # ---- property oracle on the implementation's own answer (independent of the Lean tables) ----
            if f[0] == "rfo" and int(f[2]) in FAIL:
                dist["failure_kind_rows"] += 1
                mm = re.fullmatch(r"virt=(\d) ts=(\d) r=(\d+)", h)
                if not mm:
                    res.oracle_failures.append({"what": "getResultForOutput gave no value: " + h, "route": "table", "call": "getResultForOutput", "input": op})
                    continue
                ordering_only = f[1] == "PhonyCommand" and mm.group(1) == "1" and mm.group(2) == "0"
                want = VI if ordering_only else FI
                if int(mm.group(3)) != want:
                    res.oracle_failures.append({
                        "what": "%s::getResultForOutput(%s node, %s) = %s, expected %s: a failed/cancelled producer must show as FailedInput"
                                % (f[1], f[3], kinds[int(f[2])], kinds[int(mm.group(3))], kinds[want]),
                        "route": "table", "call": "getResultForOutput", "command_class": f[1], "producer_kind": kinds[int(f[2])],
                        "node_class": f[3], "got": kinds[int(mm.group(3))], "input": op})
            elif f[0] == "prov":
                ks = [] if f[2] == "." else [int(x) for x in f[2].split(",")]
                blocked = any(k == FI or (k == MI and f[1] == "0") for k in ks)
                nmiss = sum(1 for k in ks if k == MI and f[1] == "0")
                want = ("skip=%d reported=%d missing=%d" % (PF, 1 if nmiss else 0, nmiss)) if blocked else "run"
                if h != want:
                    res.oracle_failures.append({
                        "what": "external command with input values %s (allow-missing-inputs=%s): %s, expected %s"
                                % ([kinds[k] for k in ks], f[1], h, want),
                        "route": "table", "call": "provideValue/execute", "got": h, "want": want, "input": op})
            elif f[0] == "proc":
                dist["child_ends"] = dist.get("child_ends", 0) + 1
                n = int(f[2])
                mm = re.fullmatch(r"raw=(-?\d+) status=(\w+)", h)
                raw = int(mm.group(1)) if mm else None
                how = "exit" if f[1] == "exit" else "signal"
                if raw is None or (f[1] == "exit" and not (os.WIFEXITED(raw) and os.WEXITSTATUS(raw) == n)) or \
                        (f[1] == "sig" and not (os.WIFSIGNALED(raw) and os.WTERMSIG(raw) == n)):
                    res.oracle_failures.append({"what": "a child made to end by %s %d was reported as %s" % (how, n, h), "route": "table", "kind": "child-end-not-observed",
                                                "call": "executeProcess", "end": how, "number": n, "input": op})
                    continue
                ok_end = os.WIFEXITED(raw) and os.WEXITSTATUS(raw) == 0
                dist["child_ends_nonzero"] = dist.get("child_ends_nonzero", 0) + (0 if ok_end else 1)
                if (mm.group(2) == "Succeeded") != ok_end or mm.group(2) not in ("Succeeded", "Failed", "Cancelled") or \
                        (mm.group(2) == "Cancelled" and not os.WIFSIGNALED(raw)):
                    res.oracle_failures.append({
                        "what": "a child that %s is reported to the command as ProcessStatus::%s (wait status %d): an external command %s"
                                % ("called exit(%d)" % n if how == "exit" else "was killed by signal %d (SIG%s)" % (n, SIGNAME.get(n, "RT")), mm.group(2), raw,
                                   "that failed is recorded as successful" if not ok_end else "that succeeded is recorded as failed"),
                        "route": "table", "kind": "child-end-misclassified", "call": "cleanUpExecutedProcess", "end": how, "number": n,
                        "got": mm.group(2), "input": op})
            elif f[0] == "life":
                dist["life_sequences"] = dist.get("life_sequences", 0) + 1
                builds = [b.split(",") for b in ("," + f[3]).split(",s,")[1:]]
                outs = h.split(";")
                if len(outs) != len(builds):
                    res.oracle_failures.append({"what": "life sequence gave %r" % h, "route": "table", "kind": "life-protocol", "input": op})
                    continue
                for bi, (b, o) in enumerate(zip(builds, outs)):
                    prior = next((int(x[1:]) for x in b if x[0] == "p"), None)
                    ins = [int(x[1:]) for x in b if x[0] == "v"]
                    if prior is not None and prior in SUCC:
                        continue      # a successful prior result: running, updating or skipping is C08's business
                    dist["life_failed_prior_builds"] = dist.get("life_failed_prior_builds", 0) + 1
                    blocked = any(k in (FI, MI) for k in ins)
                    want = ("skip=%d" % PF) if blocked else "run"
                    if o != want:
                        # does the same build on a fresh object behave? then the wrong decision comes from state left by an earlier build
                        alone = life_alone.get((f[1], f[2], ",".join(["s"] + b)))
                        res.oracle_failures.append({
                            "what": "ExternalCommand (allow-modified-outputs=%s, outputs %s) in build %d of %d on one object, prior value %s, inputs %s: "
                                    "execute gives %r, expected %r: a command whose recorded result is not a success must be re-attempted"
                                    % (f[1], "on disk" if f[2] == "1" else "missing", bi + 1, len(builds), "none" if prior is None else kinds[prior],
                                       [kinds[k] for k in ins], o, want),
                            "route": "table", "kind": "failed-prior-not-rerun", "call": "providePriorValue/execute", "got": o,
                            "prior_kind": "none" if prior is None else kinds[prior], "stale_flag_from_earlier_build": bool(bi > 0 and alone == want),
                            "input": op})
            elif f[0] == "valid" and int(f[2]) not in SUCC and h != "0":
                res.oracle_failures.append({
                    "what": "%s::isResultValid accepts a stored %s result as up to date" % (f[1], kinds[int(f[2])]),
                    "route": "table", "call": "isResultValid", "command_class": f[1], "stored_kind": kinds[int(f[2])], "input": op})
            elif f[0] in ("pnode", "pdir") and int(f[1]) in (FI, MI) and h != "0":
                res.oracle_failures.append({
                    "what": "%s::isResultValid accepts a stored %s" % ("ProducedNodeTask" if f[0] == "pnode" else "ProducedDirectoryNodeTask", kinds[int(f[1])]),
                    "route": "table", "call": f[0], "stored_kind": kinds[int(f[1])], "input": op})
        res.evaluations += len(send)
        res.distinct_nontrivial += dist["failure_kind_rows"]
        res.distribution["table"] = dist
        res.samples.append({"op": ops[send[0]], "impl": hout[0], "model": mout[send[0]]})

    # ---------------------------------------------------------------------------------------------
    def e2e_part(self, ctx, res):
        KINDS[:] = generated_names()[0]
        exe = os.path.join(C.BUILD, "plain", "bin", "llbuild")
        base = os.path.join(C.BUILD, "scratch", "c10-e2e-%d" % os.getpid())
        os.makedirs(base, exist_ok=True)
        descs = []
        only = None
        if getattr(ctx, "replay_path", None):
            try:
                rp = json.load(open(ctx.replay_path))
                inp = rp.get("failure", {}).get("input", {})
                dj = inp.get("desc") if isinstance(inp, dict) else None
                if dj and dj.get("mkdir"):
                    self.mkdir_replay = (dj["v"], inp.get("client"))
                    self.cancel_replay = None
                    descs.append(None)
                    self._mk = True
                elif dj and dj.get("cancel"):
                    self.cancel_replay = CancelDesc(None, dj["idx"], fixed=dj)
                    descs.append(None)
                elif dj and dj.get("ext"):
                    descs.append(DescX(None, dj["idx"], fixed=dj))
                    only = (inp.get("jobs"), inp.get("client"))
                elif dj:
                    d = Desc.__new__(Desc)
                    d.idx, d.cmds, d.fail, d.history = dj["idx"], dj["cmds"], dj["fail"], dj["history"]
                    d.byname = {c["name"]: c for c in d.cmds}
                    d.producer = {o: c["name"] for c in d.cmds for o in c["outputs"]}
                    descs.append(d)
            except Exception as e:
                C.log("replay file not usable: %s" % e)
        n = 120 if ctx.thorough else 28
        nx = 150 if ctx.thorough else 26
        if not descs:
            # fixed seeds of the scenario space first: one command per failure mode in a two-command chain
            for i, mode in enumerate(["exit", "exit-after-write", "signal", "sigint", "missing-input"]):
                d = Desc.__new__(Desc)
                d.idx = 1000 + i
                d.cmds = [{"name": "C0", "tool": "shell", "inputs": [], "outputs": ["o/C0.a", "<C0>"], "src": "src/C0.src"},
                          {"name": "C1", "tool": "shell", "inputs": ["o/C0.a"], "outputs": ["o/C1.a"], "src": "src/C1.src"},
                          {"name": "C2", "tool": "shell", "inputs": ["<C0>"], "outputs": ["o/C2.a"], "src": "src/C2.src"},
                          {"name": "C3", "tool": "shell", "inputs": ["o/C2.a", "o/C1.a"], "outputs": ["o/C3.a", "o/C3.b"], "src": "src/C3.src"}]
                d.fail, d.history = {"C0": mode}, bool(i % 2)
                d.byname = {c["name"]: c for c in d.cmds}
                d.producer = {o: c["name"] for c in d.cmds for o in c["outputs"]}
                descs.append(d)
            descs += [Desc(ctx.rng, i) for i in range(n)]
            descs += fixed_descx()
            descs += [DescX(ctx.rng, 3000 + i) for i in range(nx)]
        if getattr(self, "_mk", False):
            self._mk = False
            cdescs, descs = [], []
        elif getattr(self, "cancel_replay", None) is not None:
            cdescs, descs = [self.cancel_replay], []
            self.cancel_replay = None
        elif getattr(ctx, "replay_path", None) and descs:
            cdescs = []
        else:
            krng = C.Rng(ctx.rng.next(), "C10k")        # own stream, drawn after everything above: the older streams are what they were
            cdescs = [CancelDesc(krng, i) for i in range(160 if ctx.thorough else 32)]
        jobs_list = [1, 4]
        work = []
        for d in descs:
            for j in jobs_list:
                for c in (("cli", "keep-going", "session") if getattr(d, "ext", False) else ("cli", "keep-going")):
                    if only is None or only == (j, c) or only[1] is None:
                        work.append((d, j, c))
        results = [None] * len(work)
        lock = threading.Lock()
        pos = [0]

        def worker():
            def mk():
                cl = {"cli": Cli(exe), "keep-going": InProc(ctx.exe[("vc10", "plain")]), "session": Session(ctx.exe[("vc10", "plain")])}
                cl["session"].fresh = cl["keep-going"]
                return cl
            clients = mk()
            while True:
                with lock:
                    i = pos[0]
                    pos[0] += 1
                if i >= len(work):
                    break
                d, j, c = work[i]
                try:
                    results[i] = (run_hist if getattr(d, "ext", False) else run_desc)(clients[c], base, d, j)
                except Exception as e:
                    results[i] = ([{"what": "e2e case crashed: %r" % e, "route": "e2e", "client": c, "clause": "harness",
                                    "input": {"desc": d.to_json(), "jobs": j, "client": c}}], {})
                    for x in clients.values():
                        try:
                            x.p.kill()
                        except Exception:
                            pass
                    clients = mk()
            for c in clients.values():
                c.close()
        ts = [threading.Thread(target=worker) for _ in range(8)]
        for t in ts:
            t.start()
        for t in ts:
            t.join()
        for key, ext in (("e2e", False), ("e2e_histories", True)):
            modes = {}
            tot = {"descriptions": sum(1 for d in descs if bool(getattr(d, "ext", False)) == ext), "runs": 0, "with_downstream": 0,
                   "with_phony_group": 0, "commands": 0}
            if ext:
                tot.update({"builds": 0, "multi_phase": 0, "after_successful_build": 0, "failing_allow_modified_outputs": 0,
                            "allow_modified_outputs_unsuccessful_after_success": 0, "with_always_out_of_date": 0, "per_client": {}})
            for (d, j, c), r in zip(work, results):
                if bool(getattr(d, "ext", False)) != ext:
                    continue
                fails, st = r
                res.oracle_failures += fails
                tot["runs"] += 1
                if st:
                    tot["commands"] += st["cmds"]
                    tot["with_downstream"] += 1 if st["downstream"] else 0
                    tot["with_phony_group"] += 1 if st["phony"] else 0
                    for m in st["modes"]:
                        m = m if not ext else re.sub(r"^sig(\d+)", lambda mm: "SIG" + SIGNAME.get(int(mm.group(1)), "RT" + mm.group(1)), m)
                        modes[m] = modes.get(m, 0) + 1
                    if ext:
                        tot["builds"] += st["builds"]
                        tot["multi_phase"] += 1 if st["phases"] > 1 else 0
                        tot["after_successful_build"] += 1 if st["history"] else 0
                        tot["failing_allow_modified_outputs"] += 1 if st["amo_failing"] else 0
                        tot["allow_modified_outputs_unsuccessful_after_success"] += 1 if st["amo_unsuccessful_after_success"] else 0
                        tot["with_always_out_of_date"] += 1 if st["aood"] else 0
                        tot["per_client"][c] = tot["per_client"].get(c, 0) + 1
            tot["failure_modes"] = modes
            res.evaluations += tot["runs"]
            res.distinct_nontrivial += tot["with_downstream"]
            res.distribution[key] = tot
        self.clientx_part(ctx, res, [r[1].get("clientx") for r in results if r and r[1] and r[1].get("clientx")])
        self.cancel_part(ctx, res, base, cdescs)
        # stream `mkdir_histories`: 16 variants x {keep-going, session}
        if not getattr(ctx, "replay_path", None) or getattr(self, "mkdir_replay", None):
            only, self.mkdir_replay = getattr(self, "mkdir_replay", None), None
            kg, se = InProc(ctx.exe[("vc10", "plain")]), Session(ctx.exe[("vc10", "plain")])
            nb = 0
            for v in range(16):
                for cl in (kg, se):
                    if only and only != (v, cl.name):
                        continue
                    try:
                        res.oracle_failures += run_mkdir_hist(cl, base, v, KINDS)
                    except Exception as e:
                        res.oracle_failures.append({"what": "mkdir history crashed: %r" % e, "route": "e2e", "stream": "mkdir-history", "clause": "harness",
                                                    "input": {"desc": {"mkdir": True, "v": v}, "jobs": 1, "client": cl.name}})
                    nb += 1
            kg.close(); se.close()
            res.evaluations += nb
            res.distribution["mkdir_histories"] = {"histories": nb, "repair_by_hand": nb // 2, "obstacle_removed": nb - nb // 2,
                                                   "after_successful_build": nb // 2, "failing_build_repeated": nb // 2}
        shutil.rmtree(base, ignore_errors=True)

    def cancel_part(self, ctx, res, base, cdescs):
        """histories of a long-lived client with a cancelling policy (stream `cancel_histories`)"""
        out = [None] * len(cdescs)
        lock, pos = threading.Lock(), [0]

        def worker():
            cl = PolicySession(ctx.exe[("vc10", "plain")])
            while True:
                with lock:
                    i = pos[0]
                    pos[0] += 1
                if i >= len(cdescs):
                    break
                try:
                    out[i] = run_cancel_hist(cl, base, cdescs[i])
                except Exception as e:
                    out[i] = ([{"what": "cancel history crashed: %r" % e, "route": "e2e", "stream": "cancel-history", "clause": "harness",
                                "input": {"desc": cdescs[i].to_json(), "jobs": 2, "client": "session+policy"}}], {})
                    try:
                        cl.p.kill()
                    except Exception:
                        pass
                    cl = PolicySession(ctx.exe[("vc10", "plain")])
            cl.close()
        ts = [threading.Thread(target=worker) for _ in range(6)]
        [t.start() for t in ts]
        [t.join() for t in ts]
        tot = {"histories": len(cdescs), "builds": 0, "failing_builds": 0, "cancelled_builds": 0, "repaired_builds": 0,
               "told_then_cancelled_candidates": 0, "policies": {}}
        for r in out:
            if not r:
                continue
            res.oracle_failures += r[0]
            for k, v in r[1].items():
                if k == "policies":
                    for a, b in v.items():
                        tot["policies"][a] = tot["policies"].get(a, 0) + b
                else:
                    tot[k] += v
        res.evaluations += tot["builds"]
        res.distinct_nontrivial += tot["cancelled_builds"]
        res.distribution["cancel_histories"] = tot

    def clientx_part(self, ctx, res, cxs):
        """every build of the keep-going / session histories: value kinds and dependency lists in build.db vs the extended client model"""
        cases = [c for cx in cxs for c in cx["cases"]]
        outside = {}
        for cx in cxs:
            for k, v in cx["outside"].items():
                outside[k] = outside.get(k, 0) + v
        dist = {"builds_compared": 0, "commands_compared": 0, "failed": 0, "skipped": 0, "ok": 0, "nodes_compared": 0,
                "builds_outside_the_model": outside}
        if cases:
            lines = [l for c in cases for l in c[0]]
            mrc, mout, merr = run_model("c08xclean", lines)
            if mrc != 0 or len(mout) != len(cases):
                if ctx.model_ok:
                    res.mismatches.append({"stream": "clientx", "input": "model driver exit %s, %d/%d lines" % (mrc, len(mout), len(cases)),
                                           "model": merr[-300:], "impl": ""})
            else:
                for (ls, impl, where), ml in zip(cases, mout):
                    m = clientx_canon(ml)
                    dist["builds_compared"] += 1
                    for tok in impl.split():
                        if tok.startswith("C"):
                            dist["commands_compared"] += 1
                            stt = tok.partition("=")[2].partition(":")[0]
                            if stt in dist:
                                dist[stt] += 1
                        else:
                            dist["nodes_compared"] += 1
                    if m != impl and len(res.mismatches) < 20:
                        res.mismatches.append({"stream": "clientx", "input": {"where": where, "ops": ls}, "model": m, "impl": impl})
        res.evaluations += dist["builds_compared"]
        res.distribution["clientx"] = dist

    def correspond(self, ctx, res):
        self.table_part(ctx, res)
        self.e2e_part(ctx, res)
        # the runner writes replay files for the first five distinct failures: make them one per (route, clause/kind, client), end-to-end first
        buckets = {}
        for f in res.oracle_failures:
            buckets.setdefault((0 if f.get("route") == "e2e" else 1, str(f.get("kind") or f.get("clause")), str(f.get("client"))), []).append(f)
        order = []
        while any(buckets.values()):
            for k in sorted(buckets):
                if buckets[k]:
                    order.append(buckets[k].pop(0))
        res.oracle_failures = order
        res.exhaustive = True
        res.rule = ("tables: every command class x value kind x node class x output-missing flag (getResultForOutput), every input-kind sequence "
                    "of length <= 2 over all kinds and length 3%s over the legal input kinds x allow-missing-inputs (provideValue+execute on a real "
                    "PhonyCommand), every class x kind x guard environment (isResultValid), Produced[Directory]NodeTask::isResultValid and every public "
                    "BuildValue predicate for every kind - exhaustive, compared verbatim with the generated Lean tables; plus generated descriptions "
                    "with failing subsets (exit, exit after writing, SIGKILL, SIGINT, missing declared input), optionally after a successful build, "
                    "serial and -j4, through bin/llbuild and an in-process keep-going client. Added after the seeded changes: real children through "
                    "the real execution queue for every exit code 0-255 and every fatal signal (wait status -> ProcessStatus, compared with the "
                    "generated classification and with the property); one ExternalCommand object driven through 1-2%s builds of start / "
                    "providePriorValue(every kind) / provideValue / execute with allow-modified-outputs on/off and outputs present/absent; "
                    "generated HISTORIES (e2e_histories): chains/diamonds of shell commands with allow-modified-outputs, always-out-of-date, "
                    "allow-missing-inputs, multi/virtual outputs; failure by exit status or by one of 17 signals before / between / after writing "
                    "the outputs, by a missing declared input, a missing UNdeclared input, an unwritable output; 1-3 phases with different failing "
                    "subsets, each optionally rebuilt unchanged, optionally after a fully successful build, then repair, comparison with a clean build "
                    "and a null build; serial and -j4; three clients (llbuild tool, keep-going client with a BuildSystem per build, keep-going client "
                    "reusing one BuildSystem). Non-trivial = table rows with a failure kind / descriptions where a failed command has "
                    "data-dependent consumers. CLIENTX: after every build of the keep-going and session histories the value kind the engine "
                    "recorded in build.db for every command (SuccessfulCommand / FailedCommand or CancelledCommand / PropagatedFailureCommand) and "
                    "every produced file node (ExistingInput / FailedInput), and every command's recorded dependency list, are compared with the "
                    "clean evaluation of the extended client model (driver mode c08xclean over Model/BuildSystemClientX.lean: ok / failed / skipped, "
                    "no discovered keys); builds through the llbuild tool (it cancels at the first failure and keeps older records, F48) and states "
                    "with a missing input of an allow-missing-inputs command are outside the model and counted. CANCEL_HISTORIES (own RNG stream): a "
                    "long-lived client (ONE BuildSystem per history, resetForBuild between builds) on 2 lanes with a cancelling policy - give up at the "
                    "N-th failed command, or cancel when a given command has finished - over chain / diamond / generated descriptions in which a command "
                    "has one producer that fails fast (exit status or missing source) and one that is slow: the command is told FailedInput / MissingInput "
                    "and the build is cancelled before it executes; then the cause is removed and the same client builds 1-3 times. Judged (schedule-"
                    "independent facts only): failing builds report failure and run nothing downstream; the first build after the repair reports success, "
                    "executes every command that failed / was downstream of a failure / never succeeded, leaves every output; later builds are null; the "
                    "final outputs equal a clean build's."
                    % ("-4" if ctx.thorough else "", "-3" if ctx.thorough else ""))

    def search(self, ctx, res, why):
        return   # the table comparison is exhaustive and the end-to-end oracle already ran


CHECK = Check()
