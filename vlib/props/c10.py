"""C10 — A failed or cancelled command never feeds dependents and is always retried (decision-table half
+ end-to-end oracle through the real `llbuild buildsystem build`)."""
import itertools, json, os, re, shutil, subprocess, threading
from .. import common as C
from ..runner import PropertyCheck

GEN = os.path.join(C.LEAN, "LLBuild", "Generated", "FailTables.lean")
NODE_CLASSES = ["plain", "directory", "directoryStructure", "virtual", "commandTimestamp"]
NOT_INSTANTIABLE = {"ExternalCommand"}            # abstract base: its table rows are reached through every subclass
NO_RFO = {"SwiftGetVersionCommand"}               # getResultForOutput is llvm_unreachable: never called


def generated_names():
    txt = open(GEN).read()

    def block(name):
        m = re.search(r"def %s : \w+ → String\n((?:  \| .*\n)+)" % re.escape(name), txt)
        return re.findall(r'=> "(\w+)"', m.group(1))
    kinds = block("Kind.name")
    classes = block("CommandClass.name")
    preds = re.findall(r'\("(\w+)", \w+\)', re.search(r"def predicates .*", txt).group(0))
    return kinds, classes, preds


def model_cmd(mode):
    """The shared driver once `LLBuild.Drv.C10.modes` is listed in Driver.lean; until then a private driver
    generated under the build directory (never under lean/) and run with `lake env lean --run`."""
    exe = C.model_exe()
    if os.path.exists(exe):
        p = subprocess.run([exe, mode], input=b"", stdout=subprocess.PIPE, stderr=subprocess.PIPE)
        if p.returncode == 0:
            return [exe, mode], None
    ok, out = C.lake_build(["LLBuild.Drv.C10"])     # not yet reachable from Driver.lean: build it ourselves
    if not ok:
        C.log(out[-1500:])
    d = os.path.join(C.BUILD, "drv")
    os.makedirs(d, exist_ok=True)
    path = os.path.join(d, "DriverC10.lean")
    with open(path, "w") as f:
        f.write("import LLBuild.Drv.Common\nimport LLBuild.Drv.C10\nopen LLBuild.Drv\n"
                "def main (args : List String) : IO UInt32 := do\n"
                "  let stdin ← IO.getStdin\n  let stdout ← IO.getStdout\n"
                "  match args with\n  | [m] =>\n    match LLBuild.Drv.C10.modes.lookup m with\n"
                "    | some f => f stdin stdout; return 0\n    | none => IO.eprintln s!\"unknown mode {m}\"; return 2\n"
                "  | _ => return 2\n")
    return ["lake", "env", "lean", "--run", path, mode], C.LEAN


def run_model(mode, lines):
    cmd, cwd = model_cmd(mode)
    data = ("\n".join(lines) + "\n").encode()
    p = subprocess.run(cmd, cwd=cwd, input=data, stdout=subprocess.PIPE, stderr=subprocess.PIPE)
    out = p.stdout.decode().split("\n")
    if out and out[-1] == "":
        out.pop()
    return p.returncode, out, p.stderr.decode()


# --------------------------------------------------------------------------------------------------
# end-to-end descriptions
# --------------------------------------------------------------------------------------------------
class Desc:
    """A generated build description: shell commands C0..Cn-1 in topological order, optional phony groups."""

    def __init__(self, rng, idx):
        self.idx = idx
        n = 3 + rng.below(6)
        self.cmds = []          # dicts: name, tool, inputs (node names), outputs (node names)
        self.producer = {}      # node -> command name
        nodes = []
        for i in range(n):
            name = "C%d" % i
            k = rng.below(10)
            outs = ["o/%s.a" % name]
            if k < 3:
                outs.append("o/%s.b" % name)         # multi-output
            if k in (2, 5, 6):
                outs.append("<%s>" % name)           # virtual output next to the files
            if k == 7:
                outs = ["<%s>" % name]               # virtual-only producer
            ins = []
            if nodes:
                for _ in range(1 + rng.below(3)):
                    if rng.chance(4, 5):
                        x = rng.choice(nodes)
                        if x not in ins:
                            ins.append(x)
            self.cmds.append({"name": name, "tool": "shell", "inputs": ins, "outputs": outs, "src": "src/%s.src" % name})
            for o in outs:
                self.producer[o] = name
            nodes += outs
            # now and then a phony group over some existing nodes; consumers of its virtual output are ordered only
            if rng.chance(1, 4) and nodes:
                g = "G%d" % i
                gi = []
                for _ in range(1 + rng.below(2)):
                    x = rng.choice(nodes)
                    if x not in gi:
                        gi.append(x)
                self.cmds.append({"name": g, "tool": "phony", "inputs": gi, "outputs": ["<%s>" % g], "src": None})
                self.producer["<%s>" % g] = g
                nodes.append("<%s>" % g)
        self.byname = {c["name"]: c for c in self.cmds}
        shell = [c["name"] for c in self.cmds if c["tool"] == "shell"]
        # failure assignment: a random non-empty subset (one description in eight has none)
        self.fail = {}
        if idx % 8 != 7:
            k = 1 + rng.below(min(3, len(shell)))
            for nm in rng.shuffle(shell)[:k]:
                self.fail[nm] = rng.choice(["exit", "exit-after-write", "signal", "sigint", "missing-input"])
        self.history = rng.chance(1, 2)     # True: a fully successful build precedes the failing one

    def manifest(self):
        L = ["client:", "  name: basic", "  version: 0", "", "targets:", '  "": ["<all>"]', "", "commands:"]
        allouts = []
        for c in self.cmds:
            L.append('  "%s":' % c["name"])
            L.append("    tool: %s" % c["tool"])
            ins = list(c["inputs"]) + ([c["src"]] if c["src"] else [])
            L.append("    inputs: [%s]" % ", ".join('"%s"' % i for i in ins))
            L.append("    outputs: [%s]" % ", ".join('"%s"' % o for o in c["outputs"]))
            if c["tool"] == "shell":
                files_in = [i for i in ins if not i.startswith("<")]
                files_out = [o for o in c["outputs"] if not o.startswith("<")]
                nm = c["name"]
                body = "echo %s >> log; " % nm
                body += "if [ -e ctl/%s.exit ]; then exit 3; fi; " % nm
                body += "if [ -e ctl/%s.signal ]; then kill -9 $$; fi; " % nm
                body += "if [ -e ctl/%s.sigint ]; then kill -2 $$; sleep 5; fi; " % nm
                for o in files_out:
                    body += "(echo '%s('; cat %s; echo ')') > %s; " % (nm, " ".join(files_in) if files_in else "/dev/null", o)
                body += "if [ -e ctl/%s.exit-after-write ]; then exit 4; fi; true" % nm
                L.append('    args: ["/bin/sh", "-c", "%s"]' % body)
            allouts += c["outputs"]
        L.append('  "<all>":')
        L.append("    tool: phony")
        L.append("    inputs: [%s]" % ", ".join('"%s"' % o for o in allouts))
        L.append('    outputs: ["<all>"]')
        return "\n".join(L) + "\n"

    def data_downstream(self, roots):
        """Commands with a transitive producer in `roots` along data-carrying edges (may include members of `roots`
        that sit below another root).  A phony command's virtual output carries no data (documented exception F16)."""
        bad = set()
        changed = True
        while changed:
            changed = False
            for c in self.cmds:
                if c["name"] in bad:
                    continue
                for i in c["inputs"]:
                    p = self.producer.get(i)
                    if (p in bad or p in roots) and not (self.byname[p]["tool"] == "phony" and i.startswith("<")):
                        bad.add(c["name"])
                        changed = True
                        break
        return bad

    def to_json(self):
        return {"idx": self.idx, "cmds": self.cmds, "fail": self.fail, "history": self.history}


def llbuild(exe, d, jobs):
    args = [exe, "buildsystem", "build", "-f", "build.llbuild", "--db", "build.db"] + (["--serial"] if jobs == 1 else ["-j", str(jobs)])
    try:
        os.unlink(os.path.join(d, "log"))
    except FileNotFoundError:
        pass
    p = subprocess.run(args, cwd=d, stdout=subprocess.PIPE, stderr=subprocess.STDOUT, timeout=120)
    log = []
    lp = os.path.join(d, "log")
    if os.path.exists(lp):
        log = open(lp).read().split()
    return p.returncode, log, p.stdout.decode("utf-8", "replace")


def snapshot(d):
    out = {}
    od = os.path.join(d, "o")
    if os.path.isdir(od):
        for f in sorted(os.listdir(od)):
            out[f] = open(os.path.join(od, f), "rb").read().decode("utf-8", "replace")
    return out


class InProc:
    """keep-going client: the harness builds in-process with a delegate that counts failures and never cancels"""
    name = "keep-going"

    def __init__(self, exe):
        self.p = subprocess.Popen([exe, "c10build"], stdin=subprocess.PIPE, stdout=subprocess.PIPE, stderr=subprocess.DEVNULL)

    def build(self, d, jobs):
        try:
            os.unlink(os.path.join(d, "log"))
        except FileNotFoundError:
            pass
        self.p.stdin.write(("build %s %d\n" % (d, jobs)).encode())
        self.p.stdin.flush()
        line = self.p.stdout.readline().decode().strip()
        m = re.fullmatch(r"ok=(\d) failures=(\d+) errors=(\d+)", line)
        if not m:
            raise RuntimeError("harness c10build: %r" % line)
        log = []
        lp = os.path.join(d, "log")
        if os.path.exists(lp):
            log = open(lp).read().split()
        # what BuildSystemFrontend::build computes from the same numbers
        failed = not (m.group(1) == "1" and m.group(2) == "0" and m.group(3) == "0")
        return failed, log, line

    def close(self):
        self.p.stdin.close()
        self.p.wait()


class Cli:
    """the command line tool: its delegate cancels the build at the first command failure"""
    name = "cli"

    def __init__(self, exe):
        self.exe = exe

    def build(self, d, jobs):
        rc, log, out = llbuild(self.exe, d, jobs)
        return rc != 0, log, "exit=%d" % rc

    def close(self):
        pass


def run_desc(client, base, desc, jobs):
    """Runs the history through one client; returns (list of failure dicts, stats)."""
    fails = []
    keep = client.name == "keep-going"
    d = os.path.join(base, "d%d-j%d-%s" % (desc.idx, jobs, client.name))
    clean = d + "-clean"

    def setup(x):
        shutil.rmtree(x, ignore_errors=True)
        os.makedirs(os.path.join(x, "ctl"))
        os.makedirs(os.path.join(x, "src"))
        os.makedirs(os.path.join(x, "o"))
        open(os.path.join(x, "build.llbuild"), "w").write(desc.manifest())
        for c in desc.cmds:
            if c["src"]:
                open(os.path.join(x, c["src"]), "w").write("src of %s\n" % c["name"])
    setup(d)
    shell = [c["name"] for c in desc.cmds if c["tool"] == "shell"]
    failing = set(desc.fail)
    down = {n for n in desc.data_downstream(failing) if desc.byname[n]["tool"] == "shell"}
    # failing commands that are reached at all (not themselves below another failure) and do start
    runs_and_fails = {n for n, m in desc.fail.items() if m != "missing-input"} - down

    def bad(what, **kw):
        f = {"what": "[%s client, %s] %s" % (client.name, "serial" if jobs == 1 else "-j%d" % jobs, what), "route": "e2e", "client": client.name,
             "jobs": jobs, "input": {"desc": desc.to_json(), "jobs": jobs, "client": client.name}}
        f.update(kw)
        fails.append(f)

    def count(log, names, label, lo=1, hi=1):
        for nm in sorted(names):
            if not (lo <= log.count(nm) <= hi):
                bad("%s: command %s executed %d times, expected %s" % (label, nm, log.count(nm), "exactly once" if lo == hi else "at most once"),
                    clause="rerun", command=nm, mode=desc.fail.get(nm, "downstream"))

    # optional successful first build, then the sources of the failing commands change --------------------------
    if desc.history:
        failed, log, out = client.build(d, jobs)
        if failed or sorted(log) != sorted(shell):
            bad("initial build without failures did not run every command once and succeed (%s log=%s)" % (out, log), clause="reference")
            return fails, {}
        for nm, mode in desc.fail.items():
            if mode != "missing-input":
                open(os.path.join(d, desc.byname[nm]["src"]), "a").write("edited, longer\n")
    # inject the failures --------------------------------------------------------------------------------
    for nm, mode in desc.fail.items():
        if mode == "missing-input":
            os.unlink(os.path.join(d, desc.byname[nm]["src"]))
        else:
            open(os.path.join(d, "ctl", "%s.%s" % (nm, mode)), "w").write("x")
    for label in ("failing build", "repeated failing build"):
        failed, log, out = client.build(d, jobs)
        for nm in log:
            if nm in down:
                bad("%s: %s executed although it consumes (transitively) an output of a failed command %s" % (label, nm, sorted(failing)),
                    clause="no-downstream-execution", command=nm)
            if desc.fail.get(nm) == "missing-input":
                bad("%s: %s executed although its declared input is missing" % (label, nm), clause="no-downstream-execution", command=nm)
        if failing and not failed:
            modes = sorted(set(desc.fail.values()))
            bad("%s: the build reports success (%s) although commands %s failed (%s)" % (label, out, sorted(failing), ",".join(modes)),
                clause="build-reports-failure", modes=modes,
                only_killed=all(m in ("signal", "sigint") for m in desc.fail.values()))
        if not failing and failed:
            bad("%s: the build reports failure (%s) although nothing failed" % (label, out), clause="build-reports-failure", modes=[])
        if keep:
            # nobody cancels: every failing command is attempted (again), exactly once
            count(log, runs_and_fails, label + " (a failed command is attempted again)")
            if not desc.history and label == "failing build":
                count(log, set(shell) - failing - down, label + " (commands that do not depend on the failure still run)")
        else:
            # the tool cancels at the first failure: at least one of them was attempted again, none twice
            count(log, runs_and_fails, label, 0, 1)
            if runs_and_fails and not (set(log) & runs_and_fails) and not (failing - runs_and_fails):
                bad("%s: none of the failed commands %s was attempted again" % (label, sorted(runs_and_fails)), clause="rerun",
                    command=sorted(runs_and_fails)[0], mode="any")
    # repair (the edited sources stay edited; the reference is built from the final sources) -------------------------
    for nm, mode in desc.fail.items():
        if mode == "missing-input":
            open(os.path.join(d, desc.byname[nm]["src"]), "w").write("src of %s, recreated\n" % nm)
        else:
            os.unlink(os.path.join(d, "ctl", "%s.%s" % (nm, mode)))
    failed, log, out = client.build(d, jobs)
    if failed:
        bad("build after repair reports failure (%s)" % out, clause="converges")
    count(log, failing - down, "build after repair (the failed command)")
    if keep or not desc.history:
        count(log, down, "build after repair (everything downstream of the failed command)")
    else:
        count(log, down, "build after repair", 0, 1)   # the cancelled build recorded nothing for them; the older results may stand
    got = snapshot(d)
    setup(clean)
    for c in desc.cmds:
        if c["src"]:
            shutil.copyfile(os.path.join(d, c["src"]), os.path.join(clean, c["src"]))
    failed, log, out = client.build(clean, jobs)
    if failed or sorted(log) != sorted(shell):
        bad("reference clean build did not run every command once and succeed (%s log=%s)" % (out, log), clause="reference")
    elif got != snapshot(clean):
        want = snapshot(clean)
        diff = sorted(k for k in set(got) | set(want) if got.get(k) != want.get(k))
        bad("build after repair: outputs differ from a clean build: %s" % diff, clause="converges")
    failed, log, out = client.build(d, jobs)
    if failed or log:
        bad("build after convergence is not a null build: %s executed=%s" % (out, log), clause="converges")
    shutil.rmtree(d, ignore_errors=True)
    shutil.rmtree(clean, ignore_errors=True)
    return fails, {"cmds": len(shell), "failing": len(failing), "downstream": len(down), "modes": sorted(desc.fail.values()),
                   "phony": sum(1 for c in desc.cmds if c["tool"] == "phony")}


class Check(PropertyCheck):
    prop = "C10"
    module = "LLBuild.Props.C10All"
    theorems = ["LLBuild.FailProp.C10_failure_maps_to_failed_input", "LLBuild.FailProp.C10_failure_maps_to_failed_input_nodes",
                "LLBuild.FailProp.C10_process_outcomes", "LLBuild.FailProp.C10_skip_domain",
                "LLBuild.FailProp.C10_failed_input_skips", "LLBuild.FailProp.C10_never_up_to_date",
                "LLBuild.FailProp.C10_build_fails"] + \
               ["LLBuild.Engine." + t for t in (
                   # engine level, any client with the failure facts (Props/C10Engine.lean)
                   "C10_failed_never_up_to_date", "C10_failed_up_to_date_rejected", "C10_failed_never_up_to_date_any_client",
                   "C10_failed_verdict_invalid", "C10_failed_is_rerun", "C10_no_downstream_value_step", "C10_no_downstream_value",
                   "C10_no_downstream_value_unique", "C10_downstream_done_is_bad", "C10_downstream_delivers_bad",
                   "C10_downstream_build_returns_bad", "C10_converges")] + \
               ["LLBuild.BuildSystemClient." + t for t in (
                   # the BuildSystem's rule set has the failure facts (Props/C10Client.lean)
                   "C10_client_failure", "C10_client_failed_never_up_to_date", "C10_client_failed_is_rerun",
                   "C10_client_downstream_done_is_bad", "C10_client_downstream_delivers_bad", "C10_client_converges",
                   "C10_client_tables_agree")]
    # x_bsrules / x_enginefp: the engine-level theorems (Props/C10Client.lean, Props/C10Engine.lean) quantify over the
    # generated rule tables of the C08 client model and import the engine-model fingerprint check of C01
    extractors = ["x_failtables", "x_bsrules", "x_enginefp"]
    harnesses = [("vc10", "plain")]
    assumptions = [
        "decision chains are translated from the source text by extract/x_failtables.py (fails closed on unknown shapes) and corresponded exhaustively against the real methods",
        "phony commands' virtual non-timestamp outputs are ordering-only edges (F16; documented purpose of the tool) and SwiftGetVersionCommand is never a producer",
        "engine-level clauses (closure, re-run on the next build, convergence) are theorems about traces accepted by the abstract engine monitor (Model/Engine.lean; its tie to BuildEngine.cpp is C01's correspondence) for any client with the two failure facts, instantiated for the C08 client model (Model/BuildSystemClient.lean: no discovered dependencies, a command has no failure of its own besides a missing/failed input); 'not executed' is stated on values (the skip value), the process-level statement is C10_failed_input_skips + the end-to-end oracle",
        "a CAPIExternalCommand whose client supplies its own is_result_valid is outside the table (client code)",
    ]
    trusted_base = ["extractor x_failtables", "extractors x_bsrules, x_enginefp (shared with C08 / C01) and the hand models Model/Engine.lean, Model/BuildSystemClient.lean for the engine-level theorems", "harness vc10 (real getResultForOutput / provideValue+execute / isResultValid / Produced*NodeTask::isResultValid)",
                    "python oracles: table restatement of the three clauses; end-to-end history oracle through bin/llbuild"]

    # ---------------------------------------------------------------------------------------------
    def table_ops(self, ctx, kinds, classes, preds):
        ops = []
        K = range(len(kinds))
        for c in classes:
            for k in K:
                for nc in NODE_CLASSES:
                    for miss in (0, 1):
                        ops.append("rfo %s %d %s %d" % (c, k, nc, miss))
        legal = None
        for a in (0, 1):
            ops.append("prov %d ." % a)
            for k in K:
                ops.append("prov %d %d" % (a, k))
            for k1 in K:
                for k2 in K:
                    ops.append("prov %d %d,%d" % (a, k1, k2))
        self.n_short = len(ops)
        for c in classes:
            for k in K:
                for env in itertools.product((0, 1), repeat=4):
                    ops.append("valid %s %d %d %d %d %d" % ((c, k) + env))
        for k in K:
            ops.append("pnode %d" % k)
            ops.append("pdir %d" % k)
            for p in preds:
                ops.append("pred %s %d" % (p, k))
        return ops

    def table_part(self, ctx, res):
        kinds, classes, preds = generated_names()
        ord_of = {k: i for i, k in enumerate(kinds)}
        ops = self.table_ops(ctx, kinds, classes, preds)
        mrc, mout, merr = run_model("c10table", ops)
        if mrc != 0 or len(mout) != len(ops):
            res.mismatches.append({"stream": "c10table", "input": "model driver exit %d, %d/%d lines" % (mrc, len(mout), len(ops)), "model": merr[-400:]})
            return
        # longer input sequences over the kinds the model says are legal inputs (the others are llvm_unreachable = UB)
        legal = [k for k in range(len(kinds)) if mout[ops.index("prov 0 %d" % k)] != "unreachable"]
        n3 = 3 if not ctx.thorough else 4
        extra = []
        for a in (0, 1):
            for t in itertools.product(legal, repeat=3):
                extra.append("prov %d %s" % (a, ",".join(map(str, t))))
            if ctx.thorough:
                for t in itertools.product(legal, repeat=4):
                    extra.append("prov %d %s" % (a, ",".join(map(str, t))))
        erc, eout, eerr = run_model("c10table", extra)
        ops += extra
        mout += eout
        if erc != 0 or len(mout) != len(ops):
            res.mismatches.append({"stream": "c10table", "input": "model driver exit %d on sequences" % erc, "model": eerr[-400:]})
            return
        # the implementation gets every op the model does not call unreachable
        send = [i for i, o in enumerate(ops) if not (o.startswith("prov") and mout[i] == "unreachable")]
        scratch = os.path.join(C.BUILD, "scratch")
        os.makedirs(scratch, exist_ok=True)
        hrc, hout, herr = C.run_lines([ctx.exe[("vc10", "plain")], "c10table", scratch], [ops[i] for i in send])
        if hrc != 0 or len(hout) != len(send):
            res.mismatches.append({"stream": "c10table", "input": "harness exit %d, %d/%d lines" % (hrc, len(hout), len(send)), "impl": herr[-400:]})
            return
        dist = {"ops": len(ops), "sent_to_impl": len(send), "model_unreachable_withheld": len(ops) - len(send), "not_constructible": 0,
                "guards_fall_through_to_fs": 0, "not_instantiable": 0, "compared": 0, "failure_kind_rows": 0}
        FAIL = {ord_of[k] for k in ("FailedCommand", "PropagatedFailureCommand", "CancelledCommand")}
        SUCC = {ord_of[k] for k in ("SuccessfulCommand", "SuccessfulCommandWithOutputSignature")}
        FI, MI, VI, PF = ord_of["FailedInput"], ord_of["MissingInput"], ord_of["VirtualInput"], ord_of["PropagatedFailureCommand"]
        for j, i in enumerate(send):
            op, m, h = ops[i], mout[i], hout[j]
            f = op.split()
            if h == "n/a":
                dist["not_constructible"] += 1
                continue
            if h == "unknown-class" and (f[1] in NOT_INSTANTIABLE or (f[0] == "rfo" and f[1] in NO_RFO)):
                dist["not_instantiable"] += 1
                continue
            if h == "unknown" and f[0] == "pred" and f[1].startswith("kindHas"):
                dist["not_instantiable"] += 1       # private predicate
                continue
            if m == "c":
                dist["guards_fall_through_to_fs"] += 1
            else:
                dist["compared"] += 1
                if m != h and len(res.mismatches) < 20:
                    res.mismatches.append({"stream": "c10table", "input": op, "model": m, "impl": h})
            # ---- property oracle on the implementation's own answer (independent of the Lean tables) ----
            if f[0] == "rfo" and int(f[2]) in FAIL:
                dist["failure_kind_rows"] += 1
                mm = re.fullmatch(r"virt=(\d) ts=(\d) r=(\d+)", h)
                if not mm:
                    res.oracle_failures.append({"what": "getResultForOutput gave no value: " + h, "route": "table", "call": "getResultForOutput", "input": op})
                    continue
                ordering_only = f[1] == "PhonyCommand" and mm.group(1) == "1" and mm.group(2) == "0"
                want = VI if ordering_only else FI
                if int(mm.group(3)) != want:
                    res.oracle_failures.append({
                        "what": "%s::getResultForOutput(%s node, %s) = %s, expected %s: a failed/cancelled producer must show as FailedInput"
                                % (f[1], f[3], kinds[int(f[2])], kinds[int(mm.group(3))], kinds[want]),
                        "route": "table", "call": "getResultForOutput", "command_class": f[1], "producer_kind": kinds[int(f[2])],
                        "node_class": f[3], "got": kinds[int(mm.group(3))], "input": op})
            elif f[0] == "prov":
                ks = [] if f[2] == "." else [int(x) for x in f[2].split(",")]
                blocked = any(k == FI or (k == MI and f[1] == "0") for k in ks)
                nmiss = sum(1 for k in ks if k == MI and f[1] == "0")
                want = ("skip=%d reported=%d missing=%d" % (PF, 1 if nmiss else 0, nmiss)) if blocked else "run"
                if h != want:
                    res.oracle_failures.append({
                        "what": "external command with input values %s (allow-missing-inputs=%s): %s, expected %s"
                                % ([kinds[k] for k in ks], f[1], h, want),
                        "route": "table", "call": "provideValue/execute", "got": h, "want": want, "input": op})
            elif f[0] == "valid" and int(f[2]) not in SUCC and h != "0":
                res.oracle_failures.append({
                    "what": "%s::isResultValid accepts a stored %s result as up to date" % (f[1], kinds[int(f[2])]),
                    "route": "table", "call": "isResultValid", "command_class": f[1], "stored_kind": kinds[int(f[2])], "input": op})
            elif f[0] in ("pnode", "pdir") and int(f[1]) in (FI, MI) and h != "0":
                res.oracle_failures.append({
                    "what": "%s::isResultValid accepts a stored %s" % ("ProducedNodeTask" if f[0] == "pnode" else "ProducedDirectoryNodeTask", kinds[int(f[1])]),
                    "route": "table", "call": f[0], "stored_kind": kinds[int(f[1])], "input": op})
        res.evaluations += len(send)
        res.distinct_nontrivial += dist["failure_kind_rows"]
        res.distribution["table"] = dist
        res.samples.append({"op": ops[send[0]], "impl": hout[0], "model": mout[send[0]]})

    # ---------------------------------------------------------------------------------------------
    def e2e_part(self, ctx, res):
        exe = os.path.join(C.BUILD, "plain", "bin", "llbuild")
        base = os.path.join(C.BUILD, "scratch", "c10-e2e-%d" % os.getpid())
        os.makedirs(base, exist_ok=True)
        descs = []
        if getattr(ctx, "replay_path", None):
            try:
                rp = json.load(open(ctx.replay_path))
                dj = rp.get("failure", {}).get("input", {}).get("desc")
                if dj:
                    d = Desc.__new__(Desc)
                    d.idx, d.cmds, d.fail, d.history = dj["idx"], dj["cmds"], dj["fail"], dj["history"]
                    d.byname = {c["name"]: c for c in d.cmds}
                    d.producer = {o: c["name"] for c in d.cmds for o in c["outputs"]}
                    descs.append(d)
            except Exception as e:
                C.log("replay file not usable: %s" % e)
        n = 120 if ctx.thorough else 28
        if not descs:
            # fixed seeds of the scenario space first: one command per failure mode in a two-command chain
            for i, mode in enumerate(["exit", "exit-after-write", "signal", "sigint", "missing-input"]):
                d = Desc.__new__(Desc)
                d.idx = 1000 + i
                d.cmds = [{"name": "C0", "tool": "shell", "inputs": [], "outputs": ["o/C0.a", "<C0>"], "src": "src/C0.src"},
                          {"name": "C1", "tool": "shell", "inputs": ["o/C0.a"], "outputs": ["o/C1.a"], "src": "src/C1.src"},
                          {"name": "C2", "tool": "shell", "inputs": ["<C0>"], "outputs": ["o/C2.a"], "src": "src/C2.src"},
                          {"name": "C3", "tool": "shell", "inputs": ["o/C2.a", "o/C1.a"], "outputs": ["o/C3.a", "o/C3.b"], "src": "src/C3.src"}]
                d.fail, d.history = {"C0": mode}, bool(i % 2)
                d.byname = {c["name"]: c for c in d.cmds}
                d.producer = {o: c["name"] for c in d.cmds for o in c["outputs"]}
                descs.append(d)
            descs += [Desc(ctx.rng, i) for i in range(n)]
        jobs_list = [1, 4]
        work = [(d, j, c) for d in descs for j in jobs_list for c in ("cli", "keep-going")]
        results = [None] * len(work)
        lock = threading.Lock()
        pos = [0]

        def worker():
            clients = {"cli": Cli(exe), "keep-going": InProc(ctx.exe[("vc10", "plain")])}
            while True:
                with lock:
                    i = pos[0]
                    pos[0] += 1
                if i >= len(work):
                    break
                try:
                    results[i] = run_desc(clients[work[i][2]], base, work[i][0], work[i][1])
                except Exception as e:
                    results[i] = ([{"what": "e2e case crashed: %r" % e, "route": "e2e", "client": work[i][2],
                                    "input": {"desc": work[i][0].to_json(), "jobs": work[i][1]}}], {})
                    clients["keep-going"] = InProc(ctx.exe[("vc10", "plain")])
            for c in clients.values():
                c.close()
        ts = [threading.Thread(target=worker) for _ in range(6)]
        for t in ts:
            t.start()
        for t in ts:
            t.join()
        modes = {}
        tot = {"descriptions": len(descs), "runs": len(work), "with_downstream": 0, "with_phony_group": 0, "commands": 0}
        for fails, st in results:
            res.oracle_failures += fails
            if st:
                tot["commands"] += st["cmds"]
                tot["with_downstream"] += 1 if st["downstream"] else 0
                tot["with_phony_group"] += 1 if st["phony"] else 0
                for m in st["modes"]:
                    modes[m] = modes.get(m, 0) + 1
        tot["failure_modes"] = modes
        res.evaluations += len(work)
        res.distinct_nontrivial += tot["with_downstream"]
        res.distribution["e2e"] = tot
        shutil.rmtree(base, ignore_errors=True)

    def correspond(self, ctx, res):
        self.table_part(ctx, res)
        self.e2e_part(ctx, res)
        res.exhaustive = True
        res.rule = ("tables: every command class x value kind x node class x output-missing flag (getResultForOutput), every input-kind sequence "
                    "of length <= 2 over all kinds and length 3%s over the legal input kinds x allow-missing-inputs (provideValue+execute on a real "
                    "PhonyCommand), every class x kind x guard environment (isResultValid), Produced[Directory]NodeTask::isResultValid and every public "
                    "BuildValue predicate for every kind - exhaustive, compared verbatim with the generated Lean tables; plus generated descriptions "
                    "with failing subsets (exit, exit after writing, SIGKILL, SIGINT, missing declared input), optionally after a successful build, "
                    "serial and -j4, through bin/llbuild. Non-trivial = table rows with a failure kind / descriptions where a failed command has "
                    "data-dependent consumers." % ("-4" if ctx.thorough else ""))

    def search(self, ctx, res, why):
        return   # the table comparison is exhaustive and the end-to-end oracle already ran


CHECK = Check()
