"""C13 — File change detection is sound in every file-system mode."""
import hashlib, json, os, subprocess
from .. import common as C
from ..runner import PropertyCheck

MODES = ("def", "da", "co")
MODE_NAME = {"def": "default", "da": "device-agnostic", "co": "checksum-only"}
CALL = {"f": "getFileInfo", "l": "getLinkInfo"}
S_IFMT, S_IFDIR, S_IFREG, S_IFLNK = 0o170000, 0o040000, 0o100000, 0o120000
# content lengths around the MD5 block/padding boundaries and the 16 KiB fread buffer of readAndDigest
EDGE_SIZES = [0, 1, 2, 5, 55, 56, 57, 63, 64, 65, 119, 120, 128, 1000]
BIG_SIZES = [16383, 16384, 16385, 32768, 40000]


def st(kind, content=b"", sec=0, nsec=0, t1=None):
    """state descriptor understood by harness/vc13.cpp"""
    if kind == "M":
        return "M"
    s = "%s:%s:%x:%x" % (kind, C.hexs(content), sec, nsec)
    if kind == "L" and t1 is not None:
        s += ":%s:%x:%x" % (C.hexs(t1[0]), t1[1], t1[2])
    return s


def parse_state(s):
    f = s.split(":")
    if f[0] == "M":
        return {"kind": "M"}
    d = {"kind": "F" if f[0] == "S" else f[0], "content": C.unhex(f[1]), "sec": int(f[2], 16), "nsec": int(f[3], 16), "t1": None}
    if len(f) == 7:
        d["t1"] = (C.unhex(f[4]), int(f[5], 16), int(f[6], 16))
    return d


def parse_raw(s):
    v = [int(x, 16) for x in s.split(",")]
    return {"e": v[0], "dev": v[1], "ino": v[2], "mode": v[3], "size": v[4], "sec": v[5], "nsec": v[6]}


def parse_info(s):
    f = s.split(",")
    v = [int(x, 16) for x in f[:6]]
    return {"dev": v[0], "ino": v[1], "mode": v[2], "size": v[3], "sec": v[4], "nsec": v[5], "cks": f[6], "miss": int(f[7])}


def kv(text):
    return dict(t.split("=", 1) for t in text.split(" ") if t)


class Check(PropertyCheck):
    prop = "C13"
    module = "LLBuild.Props.C13"
    theorems = ["LLBuild.FileInfo." + t for t in (
        "C13_eq_iff", "C13_isMissing_iff", "C13_detects_existence", "C13_detects", "C13_default_eq_iff",
        "C13_untouched_equal", "C13_missing_never_for_existing", "C13_missing_side_condition_needed",
        "C13_device_agnostic", "C13_device_agnostic_eq_iff", "C13_F20_before_repair",
        "C13_checksum_only", "C13_checksum_only_detects_content", "C13_checksum_only_ignores_touch",
        "C13_checksum_only_detects_link_target")]
    extractors = ["x_fileinfo"]
    harnesses = [("vc13", "plain")]
    assumptions = [
        "the content digest (MD5 on this platform) is injective and never equals the two reserved checksum values (all-zero, 01 00..00): explicit hypotheses of the checksum-only theorems, never axioms",
        "stat/lstat/readlink/fopen deliver the object's current device, inode, mode, size, mtime, target and bytes; every existing object has non-zero file-type bits in st_mode (hypothesis `ModesNonZero`)",
        "hand model of getInfoForPath / getChecksumForPath / the wrappers' data flow, tied by the extractor (compared members, isMissing leaves, sentinel guard, zeroed leaves, checksum source) and by correspondence on file-state pairs",
        "the check runs on the tree with fixes/F02-*.diff and fixes/F20-*.diff applied; without them the oracle reports the violations",
    ]
    trusted_base = ["extractor x_fileinfo (struct members, operator== / isMissing conjuncts, sentinel guard, wrapper statements, hasher selection)",
                    "correspondence harness vc13:pairs (real LocalFileSystem / DeviceAgnosticFileSystem / ChecksumOnlyFileSystem) vs Lean driver c13pairs incl. bit-exact MD5",
                    "python oracle (property clauses restated on raw stat/content of each pair; hashlib.md5)"]

    # ------------------------------------------------------------------------------------------
    def gen(self, ctx):
        rng = ctx.rng
        clock = [1000 + rng.below(1000)]
        out = []           # (line, class)

        def tick(same_sec=False):
            if not same_sec:
                clock[0] += 1 + rng.below(3)
            return clock[0], rng.below(1000000000)

        def content(n=None):
            if n is None:
                n = rng.choice(EDGE_SIZES) if rng.chance(3, 4) else rng.below(300)
            alpha = rng.choice([b"ab", b"\x00\xff\x80a", bytes(range(256))])
            return bytes(rng.choice(alpha) for _ in range(n))

        def other(c):
            """different content of the same length"""
            if not c:
                return None
            i = rng.below(len(c))
            return c[:i] + bytes([(c[i] + 1 + rng.below(255)) % 256]) + c[i + 1:]

        def add(a, b, how, cls):
            out.append(("%s %s %s" % (a, b, how), cls))

        def link_state(sec, nsec):
            k = rng.below(5)
            tgt = [b"t1", b"t2", b"nx", b"t1", b"./t1"][k]
            t1 = None
            if rng.chance(3, 4):
                s2, n2 = tick()
                t1 = (content(), s2, n2)
            return st("L", tgt, sec, nsec, t1)

        def any_state():
            k = rng.below(8)
            s, n = tick()
            if k == 0:
                return "M"
            if k <= 3:
                return st("F", content(), s, n)
            if k == 4:
                return st("D", b"", s, n)
            if k == 5:
                return st("F", b"", 0, 0)
            return link_state(s, n)

        reps = 40 if ctx.thorough else 6
        for _ in range(reps):
            for n in EDGE_SIZES + ([rng.choice(BIG_SIZES)] if (ctx.thorough or _ == 0) else []):
                c = content(n)
                s, ns = tick()
                c2 = other(c)
                if c2 is not None:
                    # only the content differs (same size, same stamped mtime, same inode): the F2 oracle
                    add(st("F", c, s, ns), st("F", c2, s, ns), "K", "content-only")
                    s2, ns2 = tick()
                    add(st("F", c, s, ns), st("F", c2, s2, ns2), rng.choice("KR"), "content+mtime")
                s2, ns2 = tick()
                add(st("F", c, s, ns), st("F", c, s2, ns2), "K", "touch")
                add(st("F", c, s, ns), st("F", c, s, (ns + 1) % 1000000000), "K", "touch-nsec")
                if _ == 0 and n == EDGE_SIZES[0]:
                    # sparse files (checksum-only mode hashes the CONTENT: holes are zeros at their offsets): same size, same
                    # allocated bytes, the payload moved across a hole; and a hole against explicitly written zeros
                    blk = 4096
                    pay = content(blk)
                    if pay.strip(b"\0") == b"":
                        pay = b"x" + pay[1:]
                    total = 64 * blk
                    sA = pay + b"\0" * (total - blk)
                    sB = b"\0" * (32 * blk) + pay + b"\0" * (total - 33 * blk)
                    add(st("S", sA, s, ns), st("S", sB, s, ns), "K", "sparse-payload-moved")
                    add(st("S", sA, s, ns), st("S", sB, s, ns), "R", "sparse-payload-moved")
                    add(st("S", sA, s, ns), st("F", sA, s, ns), "K", "sparse-vs-dense-same-content")
                # whole-second stamps (archive extraction, `touch -d @N`, 1-second file systems) against sub-second ones of the
                # SAME second, in both directions, touch-only and with a same-size rewrite
                nz = 1 + rng.below(999999999)
                add(st("F", c, s, 0), st("F", c, s, nz), "K", "touch-nsec-zero")
                add(st("F", c, s, nz), st("F", c, s, 0), "K", "touch-nsec-zero")
                if c2 is not None:
                    add(st("F", c, s, 0), st("F", c2, s, nz), "K", "content+nsec-zero")
                    add(st("F", c, s, nz), st("F", c2, s, 0), "K", "content+nsec-zero")
                add(st("F", c, s, ns), st("F", c, s, ns), "R", "inode-replaced")
                add(st("F", c, s, ns), st("F", c + content(1 + rng.below(70)), s, ns), rng.choice("KR"), "size")
                add(st("F", c, s, ns), st("F", c, s, ns), "=", "untouched")
                add(st("F", c, s, ns), "M", "R", "existence")
                add("M", st("F", c, s, ns), "R", "existence")
        for _ in range(reps * 4):
            s, ns = tick()
            # existence / type changes, the degenerate epoch-0 empty file (F20) included
            add(st("F", b"", 0, 0), "M", "R", "existence-epoch0")
            add("M", st("F", b"", 0, 0), "R", "existence-epoch0")
            add(st("D", b"", s, ns), "M", "R", "existence")
            add(st("D", b"", 0, 0), "M", "R", "existence-epoch0")
            add(link_state(s, ns), "M", "R", "existence")
            add("M", "M", "=", "untouched")
            add(st("D", b"", s, ns), st("D", b"", s, ns), "=", "untouched")
            l = link_state(s, ns)
            add(l, l, "=", "untouched")
            add(st("D", b"", s, ns), st("F", content(), s, ns), "R", "type")
            add(st("F", content(), s, ns), st("D", b"", s, ns), "R", "type")
            add(st("F", b"", s, ns), st("D", b"", s, ns), "R", "type")
            add(st("F", b"t1", s, ns), st("L", b"t1", s, ns, (b"t1", s, ns)), "R", "type")
            add(st("D", b"", s, ns), st("D", b"", *tick()), "K", "touch")
            # symbolic links: target string changes, target object changes, own mtime changes
            t1 = (content(), s, ns)
            add(st("L", b"t1", s, ns, t1), st("L", b"t2", s, ns, t1), "R", "link-target")
            add(st("L", b"t1", s, ns, t1), st("L", b"nx", s, ns, t1), "R", "link-target")
            add(st("L", b"t1", s, ns, t1), st("L", b"./t1", s, ns, t1), "R", "link-target")
            c2 = other(t1[0])
            if c2 is not None:
                add(st("L", b"t1", s, ns, t1), st("L", b"t1", s, ns, (c2, s, ns)), "R", "link-followed-content")
            add(st("L", b"t1", s, ns, t1), st("L", b"t1", *tick(), t1), "R", "link-touch")
            add(st("L", b"t1", s, ns, t1), st("L", b"t1", s, ns, None), "R", "link-dangling")
        for _ in range(3000 if ctx.thorough else 300):
            a, b = any_state(), any_state()
            how = rng.choice("KR")
            if rng.chance(1, 8):
                b, how = a, "="
            add(a, b, how, "random")
        return out

    # ------------------------------------------------------------------------------------------
    def run_model(self, heads):
        cmd = [C.model_exe(), "c13pairs"]
        # "S" (a regular file written sparsely) is a harness-only spelling: for the model it is the regular file "F"
        heads = [" ".join(("F" + w[1:]) if w.startswith("S:") else w for w in l.split(" ")) for l in heads]
        rc, out, err = C.run_lines(cmd, heads)
        private = os.path.join(C.LEAN, "DriverC13.lean")
        if rc == 2 and "unknown mode" in err and os.path.exists(private):
            # until `LLBuild.Drv.C13.modes` is listed in Driver.lean: interpret the private driver copy
            data = ("\n".join(heads) + "\n").encode()
            p = subprocess.run(["lake", "env", "lean", "--run", "DriverC13.lean", "c13pairs"], cwd=C.LEAN, input=data,
                               stdout=subprocess.PIPE, stderr=subprocess.PIPE)
            out = p.stdout.decode().split("\n")
            if out and out[-1] == "":
                out.pop()
            rc, err = p.returncode, p.stderr.decode()
        return rc, out, err

    def sanity(self, line, state, raw_ls, raw_st, fc, rl):
        """Does what the harness built match the requested state (the trusted stat-semantics link)?"""
        k = state["kind"]
        if k == "M":
            return raw_ls["e"] == 0 and raw_st["e"] == 0
        if raw_ls["e"] != 1 or (raw_ls["sec"], raw_ls["nsec"]) != (state["sec"], state["nsec"]):
            return False
        t = raw_ls["mode"] & S_IFMT
        if k == "F":
            return t == S_IFREG and raw_ls == raw_st and raw_ls["size"] == len(state["content"]) and fc == C.hexs(state["content"]) and rl == "!"
        if k == "D":
            return t == S_IFDIR and raw_ls == raw_st and rl == "!"
        if t != S_IFLNK or rl != C.hexs(state["content"]) or raw_ls["size"] != len(state["content"]):
            return False
        tgt = state["content"]
        if tgt in (b"t1", b"./t1"):
            if state["t1"] is None:
                return raw_st["e"] == 0
            return raw_st["e"] == 1 and (raw_st["mode"] & S_IFMT) == S_IFREG and fc == C.hexs(state["t1"][0]) and \
                (raw_st["sec"], raw_st["nsec"]) == state["t1"][1:]
        if tgt == b"t2":
            return raw_st["e"] == 1 and (raw_st["mode"] & S_IFMT) == S_IFDIR
        return raw_st["e"] == 0

    def oracle(self, res, line, how, h, t):
        """The property clauses, evaluated on the real code's output for one pair."""
        raw = {x: {"ls": parse_raw(h[x + ".ls"]), "st": parse_raw(h[x + ".st"]), "fc": h[x + ".fc"], "rl": h[x + ".rl"]} for x in "AB"}

        def fail(what, mode, api, kind, **extra):
            d = {"what": "%s / %s: %s" % (MODE_NAME[mode], CALL.get(api, api), what), "mode": MODE_NAME[mode],
                 "call": CALL.get(api, api), "kind": kind, "input": {"line": line}}
            d.update(extra)
            res.oracle_failures.append(d)

        for mode in MODES:
            # getFileChecksum: the same in every mode; regular file => MD5(content) followed by zeros
            for x in "AB":
                c = t["%s.%s.c" % (x, mode)]
                r = raw[x]["st"]
                if r["e"] == 0:
                    want = "00" * 32
                elif r["mode"] & S_IFDIR:
                    want = "01" + "00" * 31
                elif raw[x]["fc"] != "!":
                    want = hashlib.md5(C.unhex(raw[x]["fc"])).hexdigest() + "00" * 16
                else:
                    want = "00" * 32
                if c != want:
                    fail("getFileChecksum of state %s is %s, expected %s (digest of the content / type marker)" % (x, c, want),
                         mode, "getFileChecksum", "checksum-not-content-digest")
            for api in "fl":
                ia, ib = parse_info(t["A.%s.%s" % (mode, api)]), parse_info(t["B.%s.%s" % (mode, api)])
                eq = t["eq.%s.%s" % (mode, api)] == "1"
                ra, rb = raw["A"]["st" if api == "f" else "ls"], raw["B"]["st" if api == "f" else "ls"]
                for x, i, r in (("A", ia, ra), ("B", ib, rb)):
                    if r["e"] == 1 and i["miss"] == 1:
                        fail("the missing record was produced for the existing object of state " + x, mode, api, "missing-record-for-existing")
                    if r["e"] == 0 and i["miss"] == 0:
                        fail("a non-missing record was produced for the missing object of state " + x, mode, api, "record-for-missing")
                    if r["e"] == 1 and mode != "def" and (i["dev"], i["ino"]) != (0, 0):
                        fail("device/inode not ignored", mode, api, "device-inode-not-zeroed")
                    if r["e"] == 1 and mode == "co" and (i["sec"], i["nsec"]) != (0, 0):
                        fail("mtime not ignored", mode, api, "mtime-not-zeroed")
                if how == "=" and not eq:
                    fail("the path was not touched but the two observations compare unequal", mode, api, "untouched-unequal")
                if ra["e"] != rb["e"]:
                    if eq:
                        fail("the observations differ in existence but compare equal", mode, api, "existence-change-undetected",
                             empty_at_epoch0=(max(ra["size"], rb["size"]) == 0 and max(ra["sec"], rb["sec"], ra["nsec"], rb["nsec"]) == 0))
                    continue
                if ra["e"] == 0:
                    if not eq:
                        fail("two missing observations compare unequal", mode, api, "spurious-change")
                    continue
                if mode == "def":
                    ka = (ra["dev"], ra["ino"], ra["size"], ra["sec"], ra["nsec"])
                    kb = (rb["dev"], rb["ino"], rb["size"], rb["sec"], rb["nsec"])
                    dk = "stat-change-undetected"
                elif mode == "da":
                    ka, kb = (ra["size"], ra["sec"], ra["nsec"]), (rb["size"], rb["sec"], rb["nsec"])
                    dk = "stat-change-undetected"
                elif api == "f":
                    da_, db_ = bool(ra["mode"] & S_IFDIR), bool(rb["mode"] & S_IFDIR)
                    ka = (da_, ra["size"], None if da_ else raw["A"]["fc"])
                    kb = (db_, rb["size"], None if db_ else raw["B"]["fc"])
                    dk = "content-change-undetected" if (da_, ra["size"]) == (db_, rb["size"]) else "type-or-size-change-undetected"
                else:
                    ka, kb = (ra["size"], raw["A"]["rl"]), (rb["size"], raw["B"]["rl"])
                    dk = "link-target-change-undetected"
                if ka != kb and eq:
                    fail("the observations differ in %s but compare equal" % (
                        "content (same type and size)" if dk == "content-change-undetected" else "what this mode must detect: %r vs %r" % (ka[:2], kb[:2])),
                        mode, api, dk, same_size=ra["size"] == rb["size"])
                if ka == kb and not eq:
                    fail("the observations agree on everything this mode may depend on but compare unequal", mode, api, "spurious-change")

    def correspond(self, ctx, res):
        if getattr(ctx, "replay_path", None):
            rp = json.load(open(ctx.replay_path))
            cases = [] if rp["failure"]["input"].get("par") else [(rp["failure"]["input"]["line"], "replay")]
        else:
            cases = []
            cdir = os.path.join(C.VERIF, "corpus", "C13")
            if os.path.isdir(cdir):
                for fn in sorted(os.listdir(cdir)):
                    for l in open(os.path.join(cdir, fn)):
                        l = l.strip()
                        if l and not l.startswith("#"):
                            cases.append((l, "corpus"))
            cases += self.gen(ctx)
        lines = [c[0] for c in cases]
        scratch = os.path.join(C.BUILD, "scratch")
        os.makedirs(scratch, exist_ok=True)
        replay_par = getattr(ctx, "replay_path", None) and json.load(open(ctx.replay_path))["failure"]["input"].get("par")
        if not getattr(ctx, "replay_path", None) or replay_par:
            # "untouched paths compare equal" with several observers at once (lanes hash files concurrently): N threads, each
            # observing its own untouched file through one checksum-only file system, against the single-threaded baseline
            par = ["4 512 %d" % (12 if ctx.thorough else 4), "2 2048 %d" % (8 if ctx.thorough else 3), "8 96 %d" % (20 if ctx.thorough else 6)]
            if replay_par:
                par = [json.load(open(ctx.replay_path))["failure"]["input"]["line"]]
            prc, pout, perr = C.run_lines([ctx.exe[("vc13", "plain")], "par", scratch], par)
            if prc != 0 or len(pout) != len(par):
                res.mismatches.append({"stream": "c13par", "input": "harness exit %d, %d/%d lines" % (prc, len(pout), len(par)), "impl": perr[-300:]})
            else:
                tot = 0
                for l, o in zip(par, pout):
                    f = dict(kv.split("=") for kv in o.split(" ")[1:]) if o.startswith("par ") else None
                    if f is None:
                        res.mismatches.append({"stream": "c13par", "input": l, "impl": o[:200]})
                        continue
                    tot += int(f["files"]) * int(f["reps"])
                    res.evaluations += int(f["files"]) * int(f["reps"])
                    if int(f["unequal"]) or int(f["distinct_baselines"]) != int(f["files"]):
                        res.oracle_failures.append({"what": "checksum-only mode, %s threads each observing its own UNTOUCHED file %s times: %s observations differ from the single-threaded baseline (%s distinct baselines for %s different files)" % (
                            f["files"], f["reps"], f["unequal"], f["distinct_baselines"], f["files"]), "mode": "checksum-only", "call": "getFileInfo (concurrent)", "kind": "untouched-unequal", "concurrent": True, "input": {"line": l, "par": True}})
                res.distribution["concurrent_untouched_observations"] = tot
            if replay_par:
                return
        hrc, hout, herr = C.run_lines([ctx.exe[("vc13", "plain")], "pairs", scratch], lines)
        if hrc != 0 or len(hout) != len(lines):
            res.mismatches.append({"stream": "c13pairs", "input": "harness exit %d, %d/%d lines" % (hrc, len(hout), len(lines)), "impl": herr[-300:]})
            return
        heads, tails, ok_idx = [], [], []
        for i, o in enumerate(hout):
            if " || " not in o:
                res.mismatches.append({"stream": "c13pairs", "input": lines[i], "impl": o[:200], "model": "(state could not be built)"})
                continue
            hd, tl = o.split(" || ", 1)
            heads.append(hd); tails.append(tl.strip()); ok_idx.append(i)
        mrc, mout, merr = self.run_model(heads)
        model_ok = mrc == 0 and len(mout) == len(heads)
        if ctx.model_ok and not model_ok:
            res.mismatches.append({"stream": "c13pairs", "input": "model driver exit %d, %d/%d lines" % (mrc, len(mout), len(heads)), "model": merr[-300:]})
        dist, nontriv, insane, replaced = {}, 0, 0, 0
        for j, i in enumerate(ok_idx):
            line, cls = cases[i]
            a_s, b_s, how = line.split(" ")
            h, t = kv(heads[j]), kv(tails[j])
            dist[cls] = dist.get(cls, 0) + 1
            # the states really are what was asked for
            okA = self.sanity(line, parse_state(a_s), parse_raw(h["A.ls"]), parse_raw(h["A.st"]), h["A.fc"], h["A.rl"])
            okB = self.sanity(line, parse_state(b_s), parse_raw(h["B.ls"]), parse_raw(h["B.st"]), h["B.fc"], h["B.rl"])
            if not (okA and okB):
                insane += 1
                if len(res.mismatches) < 20:
                    res.mismatches.append({"stream": "c13pairs-setup", "input": line, "impl": heads[j][:300], "model": "state not as requested"})
                continue
            if how == "R" and a_s[0] == "F" and b_s[0] == "F" and parse_raw(h["A.ls"])["ino"] != parse_raw(h["B.ls"])["ino"]:
                replaced += 1
            if a_s != b_s:
                nontriv += 1
            if model_ok and mout[j].strip() != tails[j] and len(res.mismatches) < 20:
                mt = kv(mout[j])
                diff = [k for k in t if mt.get(k) != t[k]][:6]
                res.mismatches.append({"stream": "c13pairs", "input": line, "differs_in": diff,
                                       "model": " ".join("%s=%s" % (k, mt.get(k)) for k in diff)[:400],
                                       "impl": " ".join("%s=%s" % (k, t[k]) for k in diff)[:400]})
            self.oracle(res, line, how, h, t)
        # report the property clauses first (the digest cross-check last), a few inputs per (mode, call, kind)
        prio = ["content-change-undetected", "existence-change-undetected", "missing-record-for-existing", "untouched-unequal",
                "stat-change-undetected", "type-or-size-change-undetected", "link-target-change-undetected", "spurious-change"]
        counts, kept = {}, []
        for f in res.oracle_failures:
            k = "%s/%s/%s" % (f["mode"], f["call"], f["kind"])
            counts[k] = counts.get(k, 0) + 1
            if counts[k] <= 2:
                kept.append(f)
        kept.sort(key=lambda f: prio.index(f["kind"]) if f["kind"] in prio else len(prio))
        res.extra["oracle_failure_counts"] = counts
        res.oracle_failures = kept
        res.evaluations += len(lines)
        res.distinct_nontrivial += nontriv
        dist["file_pairs_with_replaced_inode"] = replaced
        dist["states_not_as_requested"] = insane
        res.distribution = dist
        res.rule = ("pairs of file states (missing / regular file with content around the MD5 block and 16 KiB read-buffer boundaries / directory / symbolic link "
                    "to a file, a directory or nothing), mtimes stamped from a logical clock, inode kept (rewrite in place) or replaced (rename over), observed "
                    "through the real default, device-agnostic and checksum-only file systems (getFileInfo, getLinkInfo, getFileChecksum); stratified by change class "
                    "(content only / touch / inode / size / existence / type / link target) plus seeded random pairs. Non-trivial = the two states differ.")
        res.samples.append({"pair": lines[0], "impl": tails[0][:300] if tails else ""})

    def match_known(self, failure, known):
        m = known.get("match", {})
        return all(failure.get(k) == v for k, v in m.items())


CHECK = Check()
