"""C04 (database layer) — killing the process at any instant leaves a usable, consistent database.

Proof side: LLBuild/Props/C04.lean over the model of c03 (committed / pending snapshots, `crash`).
Support for the atomicity ASSUMPTION (not a proof): fault enumeration.  A short op history runs in a child
`vc03 db` under the LD_PRELOAD shim harness/vshim.c, which _exit()s before the N-th system call touching the
database or its journal, for EVERY N; after each kill a fresh process reads the file with sqlite3 directly
and with a fresh BuildDB.  The observed snapshot must be the model's snapshot before or after the operation
that was in progress (or "no schema" while `open` recreates the file), move forward only as N grows, satisfy
the C04 invariant, and the BuildDB's view must be the python Spec's view before or after that operation."""
import os, shutil, subprocess
from concurrent.futures import ThreadPoolExecutor
from .. import common as C
from ..runner import PropertyCheck
from . import c03


def build_shim():
    out = os.path.join(C.BUILD, "plain", "vharness", "vshim.so")
    src = os.path.join(C.VERIF, "harness", "vshim.c")
    os.makedirs(os.path.dirname(out), exist_ok=True)
    if not os.path.exists(out) or os.path.getmtime(out) < os.path.getmtime(src):
        rc, o = C.run(["cc", "-shared", "-fPIC", "-O1", "-o", out + ".tmp", src, "-ldl"])
        if rc != 0:
            return None, o
        os.replace(out + ".tmp", out)
    return out, ""


def kill_history(rng, sv, nbuilds):
    """one process (or a few in sequence) building into one database; well-formed builds:
    epoch e = stored iteration + 1, every row stamped <= e, setCurrentIteration(e) before buildComplete"""
    keys = c03.key_pool(rng, False)[:5]
    lines = ["new 0 1 1", "epoch 0"]
    it = 0
    client = 1
    for b in range(nbuilds):
        if b > 0 and rng.chance(1, 3):
            # another client version takes over: open() unlinks and recreates
            client = 3 - client
            lines += ["drop 0", "new 0 %d 1" % client, "epoch 0"]
            it = 0
        elif b > 0 and rng.chance(1, 2):
            lines += ["drop 0", "new 0 %d 1" % client]      # a later process
        lines.append("start 0")
        e = it + 1
        for _ in range(1 + rng.below(3)):
            k = rng.choice(keys)
            deps = [(rng.choice(keys), rng.below(4)) for _ in range(rng.below(3))]
            built = e
            comp = e if rng.chance(1, 2) else 1 + rng.below(e)
            lines.append("set 0 %s %s %d %d %d %s" % (C.hexs(k), C.hexs(c03.rand_value(rng)), rng.below(1 << 32), built, comp, c03.fmt_deps(deps)))
        lines.append("setiter 0 %d" % e)
        lines.append("complete 0")
        it = e
    lines.append("drop 0")
    return lines


def parse_raw(raw):
    """raw dump -> dict or None (noschema)"""
    if raw == "noschema":
        return None
    parts = dict(p.split("=", 1) for p in raw.split(" "))
    v, c, i = parts["info"].split(",")
    keys = {}
    if parts["keys"] != ".":
        for e in parts["keys"].split(","):
            kid, ty, hx = e.split(":")
            keys[int(kid)] = (ty, C.unhex(hx))
    rows = {}
    if parts["rows"] != ".":
        for e in parts["rows"].split(","):
            f = e.split(":")
            rows[int(f[0])] = {"value": C.unhex(f[2]), "sig": int(f[3]), "built": int(f[4]), "computed": int(f[5]), "deps": C.unhex(f[8])}
    return {"version": int(v), "client": int(c), "iteration": int(i), "keys": keys, "rows": rows}


def invariant_failures(snap):
    """C04_committed_inv evaluated on an observed file (python restatement)"""
    bad = []
    if snap is None:
        return bad
    for kid, r in snap["rows"].items():
        if max(r["built"], r["computed"]) > snap["iteration"]:
            bad.append("row %d has epochs (%d, %d) above the stored iteration %d" % (kid, r["built"], r["computed"], snap["iteration"]))
        if kid not in snap["keys"]:
            bad.append("row %d has no key_names entry" % kid)
        if len(r["deps"]) % 8:
            bad.append("row %d: dependency blob of %d bytes" % (kid, len(r["deps"])))
        for j in range(0, len(r["deps"]) - 7, 8):
            raw = int.from_bytes(r["deps"][j:j + 8], "little")
            if (raw >> 2) not in snap["keys"]:
                bad.append("row %d depends on id %d which is not a stored key" % (kid, raw >> 2))
    return bad


def keys_view(snap):
    """what getKeysWithResult must print for this file (derived from the sqlite3-level dump)"""
    rows = []
    for kid, r in snap["rows"].items():
        deps = []
        for j in range(0, len(r["deps"]) - 7, 8):
            raw = int.from_bytes(r["deps"][j:j + 8], "little")
            deps.append((snap["keys"][raw >> 2][1], raw & 3))
        rows.append("key=%s|%s" % (C.hexs(snap["keys"][kid][1]), c03.fmt_result({"value": r["value"], "sig": r["sig"], "built": r["built"], "computed": r["computed"], "deps": deps})))
    rows.sort()
    return "n=%d/%d" % (len(rows), len(rows)) + "".join(" ; " + r for r in rows)


class Check(PropertyCheck):
    prop = "C04"
    module = "LLBuild.Props.C04All"
    theorems = ["LLBuild.BuildDB.C04_committed_inv", "LLBuild.BuildDB.C04_no_epoch_reuse", "LLBuild.BuildDB.C04_deps_closed",
                "LLBuild.BuildDB.C04_set_preserves", "LLBuild.BuildDB.C04_crash_keeps_committed",
                # follow-up: reads included, any number of connection slots interleaved
                "LLBuild.BuildDB.C04_committed_inv_all", "LLBuild.BuildDB.C04_snap_inv_unconditional", "LLBuild.BuildDB.C04_slots_inv",
                "LLBuild.BuildDB.C04_inv1_all", "LLBuild.BuildDB.C04_read_preserves_inv1", "LLBuild.BuildDB.C04_no_epoch_reuse_all",
                # engine level (abstract engine with the `crash` event; Props/C04Engine.lean)
                "LLBuild.Engine.C04_continue_clean", "LLBuild.Engine.C04_crash_rolls_back",
                "LLBuild.Engine.C04_commit_only_at_build_complete", "LLBuild.Engine.C04_no_epoch_reuse_engine",
                "LLBuild.Engine.C04_committed_rows_good", "LLBuild.Engine.step_invC"]
    extractors = ["x_sqlitedb", "x_enginefp"]
    harnesses = [("vc03", "plain"), ("vengine", "plain")]
    assumptions = [
        "SQLite's rollback journal makes BEGIN EXCLUSIVE .. END atomic and durable across process death (supported, not proved, by the kill-point enumeration: every system call on the database/journal of every transaction of short histories)",
        "WellFormedBuild (explicit hypothesis of C04_committed_inv): writes happen inside buildStarted/buildComplete, every epoch written is <= e = stored iteration + 1, and setCurrentIteration(e) precedes buildComplete (BuildEngine.cpp:1561,1605)",
        "C04_committed_inv is proved for histories of ONE connection slot at a time (processes in sequence); concurrent connections are covered by C03_writes_need_lock only",
        "engine-level clause (builds continued after a crash return clean results): proved on the abstract engine with a `crash` event at any point (C04_continue_clean; hypotheses Program.WF and pendingDropped = false, known finding F22) and exercised on the real engine by killing a forked build process before its n-th observable event; the observing database of that harness is in memory, so SQLite's journal is not part of this stream",
    ]
    trusted_base = ["extractor x_sqlitedb", "harness vc03 + LD_PRELOAD shim harness/vshim.c", "python restatement of the invariant (invariant_failures) and Spec"]

    def run_kills(self, ctx, res, lines, scratch, shim, sv, pool):
        exe = ctx.exe[("vc03", "plain")]
        dbpath = os.path.join(scratch, "c03.db")

        def clean(d):
            shutil.rmtree(d, ignore_errors=True)
            os.makedirs(d)
        # model: outcome and committed snapshot after every op
        mc = c03.model_cmd("c04db")
        m = C.run_lines(mc, lines) if mc else None
        model_ok = m is not None and m[0] == 0 and len(m[1]) == len(lines)
        if not model_ok:
            if ctx.model_ok:
                res.mismatches.append({"stream": "c04db", "input": "model driver failed", "model": m[2][-300:] if m else "no driver"})
            return 0
        mout = [l.split(" || ")[0] for l in m[1]]
        snaps = ["noschema"] + [l.split(" || ")[1] for l in m[1]]      # snaps[i] = committed before op i ; snaps[i+1] after
        # Spec views (what a fresh read-only BuildDB must see) before / after every op
        views = []
        for i in range(len(lines) + 1):
            sp = c03.Spec(sv)
            for l in lines[:i]:
                sp.expect(l)
            sp.expect("crash")
            cl = sp.file["client"] if sp.file else 1
            sp.expect("new 9 %d 0" % cl)
            views.append((sp.expect("keys 9"), sp.expect("epoch 9")))
        # counting pass (also a plain correspondence run)
        clean(scratch)
        cf = os.path.join(scratch, "count")
        env = {"LD_PRELOAD": shim, "VSHIM_PATH": dbpath, "VSHIM_KILL_AT": "0", "VSHIM_COUNT_FILE": cf}
        rc, out, err = C.run_lines([exe, "db", scratch], lines, env=env)
        if rc != 0 or out != mout:
            bad = next((i for i in range(min(len(out), len(mout))) if out[i] != mout[i]), min(len(out), len(mout)))
            res.mismatches.append({"stream": "c04db", "input": {"history": [c03.short(x) for x in lines[:bad + 1]]},
                                   "model": mout[bad] if bad < len(mout) else "", "impl": out[bad] if bad < len(out) else "exit %d" % rc})
            return 0
        total = int(open(cf).read())

        def one(n):
            d = os.path.join(scratch, "k%d" % n)
            clean(d)
            p = os.path.join(d, "c03.db")
            e = {"LD_PRELOAD": shim, "VSHIM_PATH": p, "VSHIM_KILL_AT": str(n)}
            rc, out, err = C.run_lines([exe, "db", d], lines, env=e)
            rc2, o2, e2 = C.run_lines([exe, "db", d], ["raw"])
            raw = o2[0] if o2 else "error=noout"
            snap = None
            try:
                snap = parse_raw(raw)
            except Exception:
                pass
            cl = snap["client"] if snap else 1
            rc3, o3, e3 = C.run_lines([exe, "db", d], ["new 0 %d 0" % cl, "keys 0", "epoch 0", "drop 0", "raw"])
            shutil.rmtree(d, ignore_errors=True)
            return n, rc, len(out), raw, snap, o3

        fired = 0
        last_idx = 0
        results = list(pool.map(one, range(1, total + 1)))
        for n, rc, done, raw, snap, o3 in results:
            ctxd = {"history": [c03.short(x) for x in lines], "kill_before_call": n, "ops_completed": done,
                    "op_in_progress": c03.short(lines[done]) if done < len(lines) else None}
            if rc != 99:
                res.oracle_failures.append({"what": "kill point %d did not fire (exit %d)" % (n, rc), "kind": "shim", "input": ctxd})
                continue
            fired += 1
            pre, post = snaps[done], snaps[min(done + 1, len(lines))]
            allowed = {pre: done, post: done + 1}
            recreating = post != pre and post.endswith("keys=. rows=.") and pre != "noschema"
            if recreating:
                allowed.setdefault("noschema", done)
            if raw not in allowed:
                res.oracle_failures.append({"what": "after a kill the file holds a snapshot that is neither the one before nor the one after the operation in progress: %s" % c03.short(raw)[:300],
                                            "kind": "torn-snapshot", "input": dict(ctxd, pre=c03.short(pre)[:300], post=c03.short(post)[:300])})
                continue
            idx = allowed[raw]
            if raw == post and raw == pre:
                idx = done
            if idx < last_idx:
                res.oracle_failures.append({"what": "the surviving snapshot moved backwards as the kill point advanced", "kind": "non-monotone", "input": ctxd})
            last_idx = max(last_idx, idx)
            for b in invariant_failures(snap):
                res.oracle_failures.append({"what": "surviving database violates the consistency invariant: " + b, "kind": "invariant", "input": ctxd})
            # the BuildDB's own view of the surviving file
            if len(o3) != 5:
                res.oracle_failures.append({"what": "the next process could not read the database (%r)" % (o3,), "kind": "unusable", "input": ctxd})
                continue
            got = (o3[1], o3[2])
            want = {views[done], views[min(done + 1, len(lines))]}
            if recreating or snap is None:
                want.add(("error=version", "error=version"))
            if got not in want:
                res.oracle_failures.append({"what": "after a kill a fresh BuildDB sees %s / %s, which is neither the state before nor after the operation in progress" % (c03.short(got[0])[:200], got[1]),
                                            "kind": "torn-view", "input": ctxd})
            if snap is not None and not got[0].startswith("error") and got[0] != keys_view(snap):
                res.oracle_failures.append({"what": "BuildDB and sqlite3 disagree about the surviving file", "kind": "view-vs-file", "input": ctxd})
            if o3[4] != raw:
                res.oracle_failures.append({"what": "reading the surviving database changed it", "kind": "read-mutates", "input": ctxd})
        res.evaluations += total
        return fired

    def engine_crashes(self, ctx, res):
        """real engine: histories in which build processes are killed at arbitrary events, then continue"""
        from .engine_common import EngineCheck

        class _E(EngineCheck):
            prop = "C05"          # reuse the cancellation/crash oracle kinds (stale results after an interrupted build)
            mix = [(0.7, {"crash": True}), (0.3, {"crash": True, "cancel": True})]
            budget = (150, 1500)

            def corpus_cases(self):
                return []
        e = _E()
        sub = type("X", (), {})()
        sub.__dict__.update(ctx.__dict__)
        sub.rng = C.Rng(ctx.seed, "C04/engine")
        before = len(res.oracle_failures)
        n = e.budget[1] if ctx.thorough else e.budget[0]
        e.run_cases(sub, res, e.gen_cases(sub, n))
        for f in res.oracle_failures[before:]:
            f["stream"] = "engine-crash"

    def correspond(self, ctx, res):
        self.engine_crashes(ctx, res)
        shim, out = build_shim()
        if shim is None:
            res.mismatches.append({"stream": "c04shim", "input": "cc failed", "impl": out[-500:]})
            return
        sv = c03.schema_version()
        rng = ctx.rng
        nh = 40 if ctx.thorough else 5
        base = os.path.join(C.BUILD, "scratch", "c04-%d" % os.getpid())
        fired = 0
        sizes = []
        with ThreadPoolExecutor(max_workers=12) as pool:
            for h in range(nh):
                lines = kill_history(rng, sv, 2 + rng.below(2) + (1 if ctx.thorough else 0))
                f = self.run_kills(ctx, res, lines, os.path.join(base, "h%d" % h), shim, sv, pool)
                fired += f
                sizes.append(f)
        shutil.rmtree(base, ignore_errors=True)
        # the model-vs-implementation op correspondence of C03 with crashes (soft crash = objects destroyed)
        lines = []
        for i in range(200 if ctx.thorough else 30):
            l, e = c03.gen_history(rng, sv, False, crashy=True)
            lines += l
        m, (hrc, hout, herr) = c03.run_db(ctx, lines, "c04db")
        if hrc != 0 or len(hout) != len(lines):
            res.mismatches.append({"stream": "c04db", "input": "harness exit %d" % hrc, "impl": herr[-300:]})
        elif m is not None and m[0] == 0 and len(m[1]) == len(lines):
            start = 0
            for i, l in enumerate(lines):
                if l == "reset":
                    start = i
                mo, ms = m[1][i].split(" || ")
                if mo != hout[i] and len(res.mismatches) < 10:
                    res.mismatches.append({"stream": "c04db", "input": {"history": [c03.short(x) for x in lines[start:i + 1][-40:]]}, "model": c03.short(mo), "impl": c03.short(hout[i])})
                if l == "raw" and not hout[i].startswith("error"):
                    for b in []:
                        pass
            res.evaluations += len(lines)
        res.distinct_nontrivial += fired
        res.distribution["kill_points_fired"] = fired
        res.distribution["kill_points_per_history"] = sizes
        res.distribution["kill_histories"] = nh
        res.extra["kill_points_fired"] = fired
        C.log("C04: %d kill points fired over %d histories" % (fired, nh))
        res.rule = ("kill-point enumeration: for every N from 1 to the number of system calls (open/openat/write/pwrite/fsync/fdatasync/ftruncate/"
                    "unlink/rename) that touch the database or its journal during a short multi-build history, the history is run in a child and "
                    "killed before the N-th call; the survivor is read with sqlite3 and with a fresh BuildDB.  Non-trivial = kill points that fired.  "
                    "This supports the atomicity assumption; it is not part of the proof.")
        res.exhaustive = False


CHECK = Check()
