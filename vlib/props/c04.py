"""C04 (database layer) — killing the process at any instant leaves a usable, consistent database.

Proof side: LLBuild/Props/C04.lean over the model of c03 (committed / pending snapshots, `crash`).
Support for the atomicity ASSUMPTION (not a proof): fault enumeration.  A short op history runs in a child
`vc03 db` under the LD_PRELOAD shim harness/vshim.c, which _exit()s before the N-th system call touching the
database or its journal, for EVERY N; after each kill a fresh process reads the file with sqlite3 directly
and with a fresh BuildDB.  The observed snapshot must be the model's snapshot before or after the operation
that was in progress (or "no schema" while `open` recreates the file), move forward only as N grows, satisfy
the C04 invariant, and the BuildDB's view must be the python Spec's view before or after that operation.

Histories: short multi-build ones (kill_history) and SIZED ones (sized_history): one build of the history stores
n results with n drawn from every half-decade between 3 and 3162 (thorough: to 10000, plus one build whose
transaction is larger than SQLite's page cache, so that pages are spilled to the file before the commit).  After
every kill a fresh process additionally CONTINUES: it opens the survivor, runs one more well-formed build (epoch =
stored epoch + 1) and the result must again satisfy the invariant and differ from the survivor by exactly the rows
that build stored."""
import copy, json, os, shutil, subprocess
from concurrent.futures import ThreadPoolExecutor
from .. import common as C
from ..runner import PropertyCheck
from . import c03


def build_shim():
    out = os.path.join(C.BUILD, "plain", "vharness", "vshim.so")
    src = os.path.join(C.VERIF, "harness", "vshim.c")
    os.makedirs(os.path.dirname(out), exist_ok=True)
    if not os.path.exists(out) or os.path.getmtime(out) < os.path.getmtime(src):
        rc, o = C.run(["cc", "-shared", "-fPIC", "-O1", "-o", out + ".tmp", src, "-ldl"])
        if rc != 0:
            return None, o
        os.replace(out + ".tmp", out)
    return out, ""


def kill_history(rng, sv, nbuilds):
    """one process (or a few in sequence) building into one database; well-formed builds:
    epoch e = stored iteration + 1, every row stamped <= e, setCurrentIteration(e) before buildComplete"""
    keys = c03.key_pool(rng, False)[:5]
    lines = ["new 0 1 1", "epoch 0"]
    it = 0
    client = 1
    for b in range(nbuilds):
        if b > 0 and rng.chance(1, 3):
            # another client version takes over: open() unlinks and recreates
            client = 3 - client
            lines += ["drop 0", "new 0 %d 1" % client, "epoch 0"]
            it = 0
        elif b > 0 and rng.chance(1, 2):
            lines += ["drop 0", "new 0 %d 1" % client]      # a later process
        lines.append("start 0")
        e = it + 1
        for _ in range(1 + rng.below(3)):
            k = rng.choice(keys)
            deps = [(rng.choice(keys), rng.below(4)) for _ in range(rng.below(3))]
            built = e
            comp = e if rng.chance(1, 2) else 1 + rng.below(e)
            lines.append("set 0 %s %s %d %d %d %s" % (C.hexs(k), C.hexs(c03.rand_value(rng)), rng.below(1 << 32), built, comp, c03.fmt_deps(deps)))
        lines.append("setiter 0 %d" % e)
        lines.append("complete 0")
        it = e
    lines.append("drop 0")
    return lines


HALF_DECADES = [3, 10, 32, 100, 316, 1000, 3162, 10000]


def sized_history(rng, sv, size, value_len=12):
    """like kill_history, but ONE build of the history stores `size` results (setRuleResult calls; mostly distinct
    keys, some stored twice, dependencies on earlier and on not-yet-stored keys); the other builds are small.
    returns (lines, meta)"""
    pool = [b"k%d" % i for i in range(size + 4)]
    odd = c03.key_pool(rng, False)[:3]
    lines = ["new 0 1 1", "epoch 0"]
    nb = 2 + rng.below(2)
    big = rng.below(nb)
    it = 0
    span = None
    filler = bytes(rng.below(256) for _ in range(64))
    for b in range(nb):
        if b > 0 and rng.chance(1, 2):
            lines += ["drop 0", "new 0 1 1"]      # a later process
        first = len(lines)
        lines.append("start 0")
        e = it + 1
        n = size if b == big else 1 + rng.below(3)
        for j in range(n):
            if b == big:
                k = pool[j] if rng.chance(7, 8) else pool[rng.below(j + 1)]
                near = pool[max(0, j - 6):j + 3]
            else:
                k = rng.choice(odd) if rng.chance(1, 3) else pool[rng.below(size + 4)]
                near = pool[:8] + odd
            deps = [(rng.choice(near), rng.below(4)) for _ in range(rng.below(3))]
            comp = e if rng.chance(1, 2) else 1 + rng.below(e)
            if value_len > 64:
                v = (bytes([rng.below(256), j & 255]) + filler * (value_len // 64 + 1))[:value_len - rng.below(32)]
            else:
                v = c03.rand_value(rng)
            lines.append("set 0 %s %s %d %d %d %s" % (C.hexs(k), C.hexs(v), rng.below(1 << 32), e, comp, c03.fmt_deps(deps)))
        lines.append("setiter 0 %d" % e)
        lines.append("complete 0")
        if b == big:
            span = (first, len(lines) - 1)
        it = e
    lines.append("drop 0")
    return lines, {"size": size, "value_len": value_len, "builds": nb, "large_build_index": big, "large_build_ops": span}


def continued_build(snap, rng_word):
    """op lines of one more well-formed build on a surviving file (fresh BuildDB, the survivor's client version):
    epoch = stored epoch + 1, one result for a key the history may have stored and one for a new key"""
    cl = snap["client"] if snap else 1
    e = (snap["iteration"] if snap else 0) + 1
    k1, k2 = b"k1", b"continued"
    sets = [(k1, b"\x01" + bytes([rng_word & 255]), 7, e, e, [(k2, 0)]), (k2, b"", 9, e, 1, [])]
    lines = ["new 1 %d 1" % cl, "epoch 1", "start 1"]
    for k, v, sig, bu, co, deps in sets:
        lines.append("set 1 %s %s %d %d %d %s" % (C.hexs(k), C.hexs(v), sig, bu, co, c03.fmt_deps(deps)))
    lines += ["setiter 1 %d" % e, "complete 1", "drop 1", "raw", "new 2 %d 0" % cl, "keys 2", "epoch 2", "drop 2"]
    rows = {C.hexs(k): "key=%s|%s" % (C.hexs(k), c03.fmt_result({"value": v, "sig": sig, "built": bu, "computed": co, "deps": deps})) for k, v, sig, bu, co, deps in sets}
    return lines, e, rows


def view_rows(keys_line):
    """'n=2/2 ; key=..|.. ; key=..|..' -> {key hex: row text}"""
    out = {}
    for r in keys_line.split(" ; ")[1:]:
        out[r[4:].split("|", 1)[0]] = r
    return out


def parse_raw(raw):
    """raw dump -> dict or None (noschema)"""
    if raw == "noschema":
        return None
    parts = dict(p.split("=", 1) for p in raw.split(" "))
    v, c, i = parts["info"].split(",")
    keys = {}
    if parts["keys"] != ".":
        for e in parts["keys"].split(","):
            kid, ty, hx = e.split(":")
            keys[int(kid)] = (ty, C.unhex(hx))
    rows = {}
    if parts["rows"] != ".":
        for e in parts["rows"].split(","):
            f = e.split(":")
            rows[int(f[0])] = {"value": C.unhex(f[2]), "sig": int(f[3]), "built": int(f[4]), "computed": int(f[5]), "deps": C.unhex(f[8])}
    return {"version": int(v), "client": int(c), "iteration": int(i), "keys": keys, "rows": rows}


def invariant_failures(snap):
    """C04_committed_inv evaluated on an observed file (python restatement)"""
    bad = []
    if snap is None:
        return bad
    for kid, r in snap["rows"].items():
        if max(r["built"], r["computed"]) > snap["iteration"]:
            bad.append("row %d has epochs (%d, %d) above the stored iteration %d" % (kid, r["built"], r["computed"], snap["iteration"]))
        if kid not in snap["keys"]:
            bad.append("row %d has no key_names entry" % kid)
        if len(r["deps"]) % 8:
            bad.append("row %d: dependency blob of %d bytes" % (kid, len(r["deps"])))
        for j in range(0, len(r["deps"]) - 7, 8):
            raw = int.from_bytes(r["deps"][j:j + 8], "little")
            if (raw >> 2) not in snap["keys"]:
                bad.append("row %d depends on id %d which is not a stored key" % (kid, raw >> 2))
    return bad


def keys_view(snap):
    """what getKeysWithResult must print for this file (derived from the sqlite3-level dump)"""
    rows = []
    for kid, r in snap["rows"].items():
        deps = []
        for j in range(0, len(r["deps"]) - 7, 8):
            raw = int.from_bytes(r["deps"][j:j + 8], "little")
            deps.append((snap["keys"][raw >> 2][1], raw & 3))
        rows.append("key=%s|%s" % (C.hexs(snap["keys"][kid][1]), c03.fmt_result({"value": r["value"], "sig": r["sig"], "built": r["built"], "computed": r["computed"], "deps": deps})))
    rows.sort()
    return "n=%d/%d" % (len(rows), len(rows)) + "".join(" ; " + r for r in rows)


class Check(PropertyCheck):
    prop = "C04"
    module = "LLBuild.Props.C04All"
    theorems = ["LLBuild.BuildDB.C04_committed_inv", "LLBuild.BuildDB.C04_no_epoch_reuse", "LLBuild.BuildDB.C04_deps_closed",
                "LLBuild.BuildDB.C04_set_preserves", "LLBuild.BuildDB.C04_crash_keeps_committed",
                # follow-up: reads included, any number of connection slots interleaved
                "LLBuild.BuildDB.C04_committed_inv_all", "LLBuild.BuildDB.C04_snap_inv_unconditional", "LLBuild.BuildDB.C04_slots_inv",
                "LLBuild.BuildDB.C04_inv1_all", "LLBuild.BuildDB.C04_read_preserves_inv1", "LLBuild.BuildDB.C04_no_epoch_reuse_all",
                # the transaction shape of the whole source file is the one the model assumes (extracted on every run), and in
                # the model nothing a build does between buildStarted and buildComplete changes the committed snapshot
                "LLBuild.BuildDB.C04_one_transaction_per_build",
                # engine level (abstract engine with the `crash` event; Props/C04Engine.lean)
                "LLBuild.Engine.C04_continue_clean", "LLBuild.Engine.C04_crash_rolls_back",
                "LLBuild.Engine.C04_commit_only_at_build_complete", "LLBuild.Engine.C04_no_epoch_reuse_engine",
                "LLBuild.Engine.C04_committed_rows_good", "LLBuild.Engine.step_invC",
                # the concrete engine model killed at ANY point of a build, any asynchronous schedule (Lemmas/Refine/Crash*,
                # Final4; Props/EngineImplCrash.lean): accepted by the monitor with `crash`, hence the statements above hold of it
                "LLBuild.Refine.refinement_final_crash", "LLBuild.Refine.crashedBuild_refines", "LLBuild.Refine.buildC_refines",
                "LLBuild.Refine.EngineImpl_sound_crash", "LLBuild.Refine.EngineImpl_sound_C04_continue_clean",
                "LLBuild.Refine.EngineImpl_sound_C04_state", "LLBuild.Refine.EngineImpl_sound_C04_rows",
                "LLBuild.Refine.EngineImpl_crash_store", "LLBuild.Refine.EngineImpl_crash_none",
                "LLBuild.Refine.trun_prefix", "LLBuild.Refine.toEvents_evOfToks", "LLBuild.Refine.EngineImpl_killedTrace",
                # kills combined with description edits and injected database write failures (Props/EngineImplAll.lean)
                "LLBuild.Refine.EngineImpl_sound_all", "LLBuild.Refine.EngineImpl_sound_fail", "LLBuild.Refine.EngineImpl_sound_fail_quiescent",
                "LLBuild.Refine.EngineImpl_sound_all_of_fail", "LLBuild.Refine.EngineImpl_sound_crash_of_all", "LLBuild.Refine.crashedBuildF_refines", "LLBuild.Refine.refinement_opF"]
    extractors = ["x_sqlitedb", "x_enginefp"]
    harnesses = [("vc03", "plain"), ("vengine", "plain")]
    assumptions = [
        "SQLite's rollback journal makes BEGIN EXCLUSIVE .. END atomic and durable across process death (supported, not proved, by the kill-point enumeration: every system call on the database/journal of every transaction of short histories and of histories in which one build stores 3 .. 3162 results and one 4200 .. 4800 (thorough: .. 10000, and one transaction larger than SQLite's page cache), each survivor also continued by one more build)",
        "one transaction per build is read off the source text: C04_one_transaction_per_build compares the extractor's list of transaction-control / PRAGMA statements per function, of SQL arguments that are not literals, and of sqlite3 API functions used, with the shape the model assumes; SQL text assembled at run time would be visible only as a new non-literal argument or API function",
        "WellFormedBuild (explicit hypothesis of C04_committed_inv): writes happen inside buildStarted/buildComplete, every epoch written is <= e = stored iteration + 1, and setCurrentIteration(e) precedes buildComplete (BuildEngine.cpp:1561,1605)",
        "C04_committed_inv is proved for histories of ONE connection slot at a time (processes in sequence); concurrent connections are covered by C03_writes_need_lock only",
        "engine-level clause (builds continued after a crash return clean results): proved on the abstract engine with a `crash` event at any point (C04_continue_clean; hypotheses Program.WF and pendingDropped = false, known finding F22) and exercised on the real engine by killing a forked build process before its n-th observable event; the observing database of that harness is in memory, so SQLite's journal is not part of this stream",
    ]
    trusted_base = ["extractor x_sqlitedb", "harness vc03 + LD_PRELOAD shim harness/vshim.c", "python restatement of the invariant (invariant_failures) and Spec"]

    def run_kills(self, ctx, res, lines, scratch, shim, sv, pool, meta=None, only=None):
        """enumerate the kill points of one history (all of them, or the list `only` when replaying);
        returns the number that fired"""
        exe = ctx.exe[("vc03", "plain")]
        dbpath = os.path.join(scratch, "c03.db")
        meta = dict(meta or {})
        span = meta.get("large_build_ops")

        def clean(d):
            shutil.rmtree(d, ignore_errors=True)
            os.makedirs(d)
        # model: outcome and committed snapshot after every op
        mc = c03.model_cmd("c04db")
        m = C.run_lines(mc, lines) if mc else None
        model_ok = m is not None and m[0] == 0 and len(m[1]) == len(lines)
        if not model_ok:
            if ctx.model_ok:
                res.mismatches.append({"stream": "c04db", "input": "model driver failed", "model": m[2][-300:] if m else "no driver"})
            return 0
        mout = [l.split(" || ")[0] for l in m[1]]
        snaps = ["noschema"] + [l.split(" || ")[1] for l in m[1]]      # snaps[i] = committed before op i ; snaps[i+1] after
        hshort = [c03.short(x) for x in lines]
        exact = hshort == lines
        # counting pass (also a plain correspondence run)
        clean(scratch)
        cf = os.path.join(scratch, "count")
        env = {"LD_PRELOAD": shim, "VSHIM_PATH": dbpath, "VSHIM_KILL_AT": "0", "VSHIM_COUNT_FILE": cf}
        rc, out, err = C.run_lines([exe, "db", scratch], lines, env=env)
        if rc != 0 or out != mout:
            bad = next((i for i in range(min(len(out), len(mout))) if out[i] != mout[i]), min(len(out), len(mout)))
            res.mismatches.append({"stream": "c04db", "input": {"history": hshort[max(0, bad - 40):bad + 1], "sized": meta or None},
                                   "model": mout[bad] if bad < len(mout) else "", "impl": out[bad] if bad < len(out) else "exit %d" % rc})
            return 0
        total = int(open(cf).read())

        def one(n):
            d = os.path.join(scratch, "k%d" % n)
            clean(d)
            p = os.path.join(d, "c03.db")
            e = {"LD_PRELOAD": shim, "VSHIM_PATH": p, "VSHIM_KILL_AT": str(n)}
            rc, out, err = C.run_lines([exe, "db", d], lines, env=e)
            # the survivor is examined twice, each time as the FIRST access after the kill: once by plain sqlite3 (`raw`: what
            # SQLite's own recovery makes of the file and its hot journal), once - on an untouched copy - by a new BuildDB
            d2 = d + ".next"
            shutil.rmtree(d2, ignore_errors=True)
            big = sum(os.path.getsize(os.path.join(d, f)) for f in os.listdir(d)) > (1 << 20)
            if big:
                d2 = d          # (large survivors are not copied: plain sqlite3 looks first, as for every survivor before)
            else:
                shutil.copytree(d, d2)
            rc2, o2, e2 = C.run_lines([exe, "db", d], ["raw"])
            raw = o2[0] if o2 else "error=noout"
            snap = None
            try:
                snap = parse_raw(raw)
            except Exception:
                pass
            cl = snap["client"] if snap else 1
            # the next process: reads everything (must not change the file), then CONTINUES with one more build
            cont, ce, crows = continued_build(snap, n)
            rc3, o3, e3 = C.run_lines([exe, "db", d2], ["new 0 %d 0" % cl, "keys 0", "epoch 0", "drop 0", "raw"] + cont)
            shutil.rmtree(d, ignore_errors=True)
            shutil.rmtree(d2, ignore_errors=True)
            return n, rc, len(out), raw, snap, o3[:5], (cont, ce, crows, o3[5:])

        fired = 0
        last_idx = 0
        in_large = in_set = 0
        reported = {}

        def fail(kind, what, ctxd, **extra):
            # one history produces the same failure at many neighbouring kill points: keep the first few of each kind
            reported[kind] = reported.get(kind, 0) + 1
            if reported[kind] <= 3:
                res.oracle_failures.append(dict({"what": what, "kind": kind, "input": dict(ctxd, **extra)}, **({"sized": True} if meta else {})))

        results = list(pool.map(one, only if only is not None else range(1, total + 1)))
        # Spec views (what a fresh read-only BuildDB must see) before / after every op that was in progress at a kill
        need = sorted({min(i, len(lines)) for r in results for i in (r[2], r[2] + 1)})
        views = {}
        sp, at = c03.Spec(sv), 0
        for i in need:
            while at < i:
                sp.expect(lines[at])
                at += 1
            s2 = copy.deepcopy(sp)
            s2.expect("crash")
            cl = s2.file["client"] if s2.file else 1
            s2.expect("new 9 %d 0" % cl)
            views[i] = (s2.expect("keys 9"), s2.expect("epoch 9"))
        for n, rc, done, raw, snap, o3, cont in results:
            ctxd = {"history": hshort, "history_exact": exact, "kill_before_call": n, "ops_completed": done,
                    "op_in_progress": hshort[done] if done < len(lines) else None}
            if meta:
                ctxd["sized"] = meta
            if rc != 99:
                fail("shim", "kill point %d did not fire (exit %d)" % (n, rc), ctxd)
                continue
            fired += 1
            if span and span[0] <= done <= span[1]:
                in_large += 1
                if done < len(lines) and lines[done].startswith("set "):
                    in_set += 1
            # the python restatement of C04_committed_inv on whatever survived
            bad = invariant_failures(snap)
            if bad:
                fail("invariant", "surviving database violates the consistency invariant: " + "; ".join(bad[:3]) + (" (and %d more rows)" % (len(bad) - 3) if len(bad) > 3 else ""), ctxd)
            pre, post = snaps[done], snaps[min(done + 1, len(lines))]
            allowed = {pre: done, post: done + 1}
            recreating = post != pre and post.endswith("keys=. rows=.") and pre != "noschema"
            if recreating:
                allowed.setdefault("noschema", done)
            if raw not in allowed:
                fail("torn-snapshot", "after a kill the file holds a snapshot that is neither the one before nor the one after the operation in progress: %s" % c03.short(raw)[:300],
                     ctxd, pre=c03.short(pre)[:300], post=c03.short(post)[:300])
                continue
            idx = allowed[raw]
            if raw == post and raw == pre:
                idx = done
            if idx < last_idx:
                fail("non-monotone", "the surviving snapshot moved backwards as the kill point advanced", ctxd)
            last_idx = max(last_idx, idx)
            # the BuildDB's own view of the surviving file
            if len(o3) != 5:
                fail("unusable", "the next process could not read the database (%r)" % (o3,), ctxd)
                continue
            got = (o3[1], o3[2])
            want = {views[done], views[min(done + 1, len(lines))]}
            if recreating or snap is None:
                want.add(("error=version", "error=version"))
            if got not in want:
                fail("torn-view", "after a kill a fresh BuildDB sees %s / %s, which is neither the state before nor after the operation in progress" % (c03.short(got[0])[:200], got[1]), ctxd)
            if snap is not None and not got[0].startswith("error") and got[0] != keys_view(snap):
                fail("view-vs-file", "BuildDB and sqlite3 disagree about the surviving file", ctxd)
            if o3[4] != raw:
                fail("read-mutates", "reading the surviving database changed it", ctxd)
            # the continued build: usable for writing, consistent again, and nothing but its own rows changed
            clines, ce, crows, co = cont
            ctxc = dict(ctxd, continued_build=clines)
            want_out = ["ok", "epoch=%d" % (ce - 1), "ok", "ok", "ok", "ok", "ok", "ok"]
            if len(co) != len(clines) or co[:8] != want_out or co[9] != "ok":
                fail("continued-build", "a build continued from the surviving database failed: %r" % ([c03.short(x)[:80] for x in co],), ctxc)
                continue
            try:
                snap2 = parse_raw(co[8])
            except Exception:
                snap2 = None
            if snap2 is None:
                fail("continued-build", "after the continued build the file is unreadable: %s" % co[8][:200], ctxc)
                continue
            bad = invariant_failures(snap2)
            if bad:
                fail("continued-build", "after the continued build the database violates the consistency invariant: " + "; ".join(bad[:3]), ctxc)
            before = {} if got[0].startswith("error") else view_rows(got[0])
            expect_rows = dict(before)
            expect_rows.update(crows)
            after = view_rows(co[10])
            if snap2["iteration"] != ce or co[11] != "epoch=%d" % ce or after != expect_rows or co[10] != keys_view(snap2):
                diff = sorted(k for k in set(after) | set(expect_rows) if after.get(k) != expect_rows.get(k))
                fail("continued-build", "the continued build did not leave exactly the survivor's results plus its own (%s, differing keys %s)" % (co[11], diff[:6]), ctxc)
        res.evaluations += len(results)
        d = res.distribution
        d["kill_points_inside_the_large_build"] = d.get("kill_points_inside_the_large_build", 0) + in_large
        d["kill_points_inside_a_setRuleResult_of_the_large_build"] = d.get("kill_points_inside_a_setRuleResult_of_the_large_build", 0) + in_set
        d["repeated_failures_not_listed"] = d.get("repeated_failures_not_listed", 0) + sum(max(0, v - 3) for v in reported.values())
        d["continued_builds_checked"] = d.get("continued_builds_checked", 0) + fired
        return fired

    def engine_crashes(self, ctx, res):
        """real engine: histories in which build processes are killed at arbitrary events, then continue"""
        from .engine_common import EngineCheck

        class _E(EngineCheck):
            prop = "C05"          # reuse the cancellation/crash oracle kinds (stale results after an interrupted build)
            mix = [(0.6, {"crash": True}), (0.25, {"crash": True, "cancel": True}), (0.15, {"crash": True, "dbfail": True})]
            budget = (150, 1500)

            def corpus_cases(self):
                return []
        e = _E()
        sub = type("X", (), {})()
        sub.__dict__.update(ctx.__dict__)
        sub.rng = C.Rng(ctx.seed, "C04/engine")
        before = len(res.oracle_failures)
        n = e.budget[1] if ctx.thorough else e.budget[0]
        e.run_cases(sub, res, e.gen_cases(sub, n))
        for f in res.oracle_failures[before:]:
            f["stream"] = "engine-crash"

    def engine_sqlite_kills(self, ctx, res, shim):
        """real engine ON THE REAL SQLite DATABASE: a history is run in one process up to its last build, which is killed
        before the n-th system call that touches the database file; a NEW process then opens the surviving file, the
        external state changes once more, and the continued build must return what a brand-new engine computes."""
        import subprocess
        from .. import engine as E
        exe = ctx.exe.get(("vengine", "plain"))
        if not exe:
            return
        rng = C.Rng(ctx.seed, "C04/engine-sqlite")
        base = os.path.join(C.BUILD, "scratch", "c04e-%d" % os.getpid())
        shutil.rmtree(base, ignore_errors=True)
        os.makedirs(base)
        nh = 8 if ctx.thorough else 4
        per = 30 if ctx.thorough else 10
        st = {"histories": 0, "kill_points_fired": 0, "continued_builds_compared": 0, "continued_builds_failed_or_cyclic": 0}

        def run(lines, env=None, timeout=120):
            e = dict(os.environ)
            e.update(env or {})
            p = subprocess.run([exe, "trace"], input=("\n".join(lines) + "\n").encode(), stdout=subprocess.PIPE, stderr=subprocess.PIPE,
                               env=e, timeout=timeout)
            return p.returncode, p.stdout.decode().split("\n")
        for hi in range(nh):
            rules = E.gen_program(rng, 5 + rng.below(8))
            ops = E.gen_history(rng, rules, 3 + rng.below(4), allow_restart=True)
            builds = [i for i, o in enumerate(ops) if o["op"] == "B"]
            if len(builds) < 2:
                continue
            last = builds[-1]
            prog = ["P %d" % len(rules)] + [rules[k].line() for k in sorted(rules)]
            head = [E.op_line(o) for o in ops[:last]]
            envs = {}
            for o in ops[:last]:
                if o["op"] == "M":
                    envs[o["slot"]] = o["val"]
            dbp = os.path.join(base, "h%d.db" % hi)
            cf = os.path.join(base, "h%d.count" % hi)

            def p1(with_last):
                return ["q " + dbp, "W"] + prog + head + ([E.op_line(ops[last])] if with_last else [])
            counts = []
            for wl in (False, True):
                for suffix in ("", "-journal"):
                    if os.path.exists(dbp + suffix):
                        os.unlink(dbp + suffix)
                run(p1(wl), {"LD_PRELOAD": shim, "VSHIM_PATH": dbp, "VSHIM_KILL_AT": "0", "VSHIM_COUNT_FILE": cf})
                counts.append(int(open(cf).read().strip() or 0) if os.path.exists(cf) else 0)
            lo, hi_n = counts
            if hi_n <= lo:
                continue
            st["histories"] += 1
            pts = list(range(lo + 1, hi_n + 1))
            if len(pts) > per:
                pts = sorted(set([pts[0], pts[-1]] + [rng.choice(pts) for _ in range(per)]))
            key = ops[last]["key"]
            inputs = sorted(k for k in rules if rules[k].kind == 0)
            for n in pts:
                for suffix in ("", "-journal"):
                    if os.path.exists(dbp + suffix):
                        os.unlink(dbp + suffix)
                rc, _ = run(p1(True), {"LD_PRELOAD": shim, "VSHIM_PATH": dbp, "VSHIM_KILL_AT": str(n)})
                if rc != 99:
                    continue
                st["kill_points_fired"] += 1
                # a new process: same program, the external state as it was plus one more edit, the same target
                e2 = dict(envs)
                edit = rng.choice(inputs)
                e2[edit] = 5000 + n
                lines2 = ["q " + dbp] + prog + ["M %d %d" % (k, v) for k, v in sorted(e2.items())] + ["B %d 0 0 0" % key, "O %d" % key]
                rc2, out2 = run(lines2)
                tr = next((l for l in out2 if l.startswith("B ")), "")
                clean = out2[out2.index(tr) + 1].strip() if tr and out2.index(tr) + 1 < len(out2) else ""
                ev = E.parse_trace(tr)
                ret = next((e[1] for e in ev if e and e[0] == "R"), None)
                if rc2 != 0 or ret is None:
                    res.oracle_failures.append({"what": "after a kill before database call %d the next process could not continue the build (exit %s): %s" % (n, rc2, " | ".join(out2)[-300:]),
                                                "kind": "continue-failed", "stream": "engine-sqlite-kill",
                                                "input": {"process1": p1(True), "kill_before_call": n, "process2": lines2}})
                    continue
                if any(e and e[0] in ("CY", "ER", "X") for e in ev):
                    st["continued_builds_failed_or_cyclic"] += 1
                    continue
                st["continued_builds_compared"] += 1
                if ret != clean:
                    res.oracle_failures.append({
                        "what": "a build killed before its database call %d left a database from which the next process returns %s for key %d, a brand-new engine returns %s" % (n, ret, key, clean),
                        "kind": "stale-after-kill", "stream": "engine-sqlite-kill",
                        "input": {"process1": p1(True), "kill_before_call": n, "process2": lines2}})
        res.evaluations += st["continued_builds_compared"]
        res.distribution["engine_sqlite_kills"] = st
        shutil.rmtree(base, ignore_errors=True)

    def replay(self, ctx, res, shim, sv, base):
        """./check C04 --replay <file>: re-run the recorded kill point of the recorded history"""
        f = json.load(open(ctx.replay_path)).get("failure", {})
        inp = f.get("input", {})
        if not isinstance(inp, dict) or not inp.get("history_exact") or "kill_before_call" not in inp:
            C.log("C04: this replay file holds no exact database-layer history (engine-crash stream, or abbreviated keys)")
            return
        with ThreadPoolExecutor(max_workers=2) as pool:
            n = self.run_kills(ctx, res, inp["history"], os.path.join(base, "replay"), shim, sv, pool, meta=inp.get("sized"), only=[inp["kill_before_call"]])
        shutil.rmtree(base, ignore_errors=True)
        C.log("C04 replay: kill before call %d fired=%d, oracle failures %d" % (inp["kill_before_call"], n, len(res.oracle_failures)))

    def correspond(self, ctx, res):
        if getattr(ctx, "replay_path", None):
            shim, out = build_shim()
            if shim is not None:
                self.replay(ctx, res, shim, c03.schema_version(), os.path.join(C.BUILD, "scratch", "c04-%d" % os.getpid()))
                return
        self.engine_crashes(ctx, res)
        shim, out = build_shim()
        if shim is None:
            res.mismatches.append({"stream": "c04shim", "input": "cc failed", "impl": out[-500:]})
            return
        self.engine_sqlite_kills(ctx, res, shim)
        sv = c03.schema_version()
        rng = ctx.rng
        base = os.path.join(C.BUILD, "scratch", "c04-%d" % os.getpid())
        nh = 40 if ctx.thorough else 5
        fired = 0
        sizes = []
        sized = []
        with ThreadPoolExecutor(max_workers=12) as pool:
            for h in range(nh):
                lines = kill_history(rng, sv, 2 + rng.below(2) + (1 if ctx.thorough else 0))
                f = self.run_kills(ctx, res, lines, os.path.join(base, "h%d" % h), shim, sv, pool)
                fired += f
                sizes.append(f)
            # sized histories: the number of results one build stores, one draw from every half-decade
            srng = C.Rng(ctx.seed, "C04/sized")
            bounds = HALF_DECADES if ctx.thorough else HALF_DECADES[:7]
            plan = [(lo + srng.below(hi - lo), 12) for _ in range(2 if ctx.thorough else 1) for lo, hi in zip(bounds, bounds[1:])]
            if not ctx.thorough:
                # one build beyond 4096 results also in the quick tier: thresholds at powers of two (a checkpoint "every 4096
                # results", seeded C04-5) are invisible below them
                plan.append((4200 + srng.below(600), 12))
            if ctx.thorough:
                # a transaction larger than SQLite's default page cache (2000 KiB): dirty pages are spilled to the
                # database file (after a journal sync) long before END
                plan.append((1100 + srng.below(300), 2048 + srng.below(1024)))
            for h, (size, vlen) in enumerate(plan):
                lines, meta = sized_history(srng, sv, size, vlen)
                f = self.run_kills(ctx, res, lines, os.path.join(base, "s%d" % h), shim, sv, pool, meta=meta)
                fired += f
                sized.append({"results_stored_by_the_large_build": size, "value_bytes": vlen, "builds": meta["builds"], "kill_points_fired": f})
        shutil.rmtree(base, ignore_errors=True)
        # the model-vs-implementation op correspondence of C03 with crashes (soft crash = objects destroyed)
        lines = []
        for i in range(200 if ctx.thorough else 30):
            l, e = c03.gen_history(rng, sv, False, crashy=True)
            lines += l
        m, (hrc, hout, herr) = c03.run_db(ctx, lines, "c04db")
        if hrc != 0 or len(hout) != len(lines):
            res.mismatches.append({"stream": "c04db", "input": "harness exit %d" % hrc, "impl": herr[-300:]})
        elif m is not None and m[0] == 0 and len(m[1]) == len(lines):
            start = 0
            for i, l in enumerate(lines):
                if l == "reset":
                    start = i
                mo, ms = m[1][i].split(" || ")
                if mo != hout[i] and len(res.mismatches) < 10:
                    res.mismatches.append({"stream": "c04db", "input": {"history": [c03.short(x) for x in lines[start:i + 1][-40:]]}, "model": c03.short(mo), "impl": c03.short(hout[i])})
                if l == "raw" and not hout[i].startswith("error"):
                    for b in []:
                        pass
            res.evaluations += len(lines)
        res.distinct_nontrivial += fired
        res.distribution["kill_points_fired"] = fired
        res.distribution["kill_points_per_history"] = sizes
        res.distribution["kill_histories"] = nh
        res.distribution["sized_histories"] = sized
        res.extra["kill_points_fired"] = fired
        C.log("C04: %d kill points fired over %d short histories and %d sized ones (largest build: %d results)" % (
            fired, nh, len(sized), max(x["results_stored_by_the_large_build"] for x in sized)))
        res.rule = ("kill-point enumeration: for every N from 1 to the number of system calls (open/openat/write/pwrite/fsync/fdatasync/ftruncate/"
                    "unlink/rename) that touch the database or its journal during a multi-build history (short ones, and sized ones in which one build "
                    "stores n results, n drawn from every half-decade from 3 to 3162 plus one build of 4200 .. 4800 results (thorough: to 10000), plus in the thorough tier a transaction larger than the "
                    "page cache), the history is run in a child and killed before the N-th call; the survivor is read with sqlite3 and with a fresh "
                    "BuildDB, which then continues with one more build.  Non-trivial = kill points that fired.  "
                    "This supports the atomicity assumption; it is not part of the proof.")
        res.exhaustive = False


CHECK = Check()
