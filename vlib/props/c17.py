"""C17 — Ninja manifests mean what Ninja says they mean (both halves).

  lexical half   vlib/props/c17lex.py   (keywords as whole words, high bytes ordinary, $-escapes / continuations at
                                         token level, /bin/sh round trip of shell-quoted paths)
  semantic half  vlib/props/c17load.py  (scoping, lazily evaluated rule variables, quoted $in/$out, include /
                                         subninja, evalString)  judged against the installed ninja

This module owns nothing but the combination: the theorem list is the union of the C17 theorems of both Lean
modules (joined by LLBuild/Props/C17.lean), and correspond() runs the two halves' correspondence + oracle
passes unchanged, each into its own Result, and adds them up (`absorb`).  The C19 theorems that live in the same
Lean modules are audited by vlib/props/c19.py."""
import json
from .. import common as C
from ..runner import PropertyCheck, Result
from . import c17lex, c17load


def uniq(xs):
    out = []
    for x in xs:
        if x not in out:
            out.append(x)
    return out


def absorb(res, sub, tag, keep=None):
    """Add the outcome of one delegated correspondence pass (`sub`, a fresh Result the delegate filled in) to `res`.
    Counters accumulate; samples, mismatches and oracle failures are kept and labelled with `tag`; distribution,
    rule and extra (which the delegates assign wholesale) are stored per tag.  `keep(failure) -> bool` selects the
    oracle failures that concern the calling property; the others are counted in extra['not_this_property']."""
    res.evaluations += sub.evaluations
    res.distinct_nontrivial += sub.distinct_nontrivial
    for s in sub.samples:
        res.samples.append(dict(s, part=tag) if isinstance(s, dict) else {"part": tag, "sample": s})
    for m in sub.mismatches:
        res.mismatches.append(dict(m, part=tag))
    dropped = {}
    for f in sub.oracle_failures:
        if keep is None or keep(f):
            res.oracle_failures.append(dict(f, part=tag))
        else:
            k = str(f.get("oracle") or f.get("kind") or "?")
            dropped[k] = dropped.get(k, 0) + 1
    if dropped:
        res.extra.setdefault("not_this_property", {})[tag] = dropped
        C.log("%s: %d oracle failure(s) of this pass concern another property and are not counted here: %s" % (
            tag, sum(dropped.values()), dropped))
    if sub.distribution:
        res.distribution[tag] = sub.distribution
    if sub.rule:
        res.rule = (res.rule + "  " if res.rule else "") + "[%s] %s" % (tag, sub.rule)
    for k, v in sub.extra.items():
        res.extra.setdefault(k, {})[tag] = v


def interleave_samples(res, tags):
    """the evidence keeps the first 8 samples: make every part visible there"""
    by = {t: [s for s in res.samples if s.get("part") == t] for t in tags}
    out = []
    while any(by.values()):
        for t in tags:
            if by[t]:
                out.append(by[t].pop(0))
    res.samples[:] = out + [s for s in res.samples if s.get("part") not in tags]


LEX, LOAD = c17lex.CHECK, c17load.CHECK


class Check(PropertyCheck):
    prop = "C17"
    module = "LLBuild.Props.C17"
    theorems = [t for t in LEX.theorems if ".C17_" in t] + \
               [t for t in LOAD.theorems if ".C19_" not in t and t != "LLBuild.NinjaLoader.F14_witness"] + \
               c17load.PARSER_C17_THEOREMS
    extractors = uniq(LEX.extractors + LOAD.extractors)
    impl_cfgs = uniq(LEX.impl_cfgs + LOAD.impl_cfgs)
    harnesses = uniq(LEX.harnesses + LOAD.harnesses)
    assumptions = ["[lexical half] " + a for a in LEX.assumptions] + ["[semantic half] " + a for a in LOAD.assumptions] + [
        "the two halves meet at the parser: lib/Ninja/Parser.cpp has a Lean model (Model/NinjaParser.lean, a state machine over "
        "lexer cursor, lexer mode and look-ahead token that drives the lexer model) tied to the real Parser by verbatim comparison of "
        "the complete callback trace (every action, token payload and error message) on generated, malformed and byte-mutated manifests "
        "(stream `parser` of the semantic half); the pure-Lean pipeline bytes -> lexer -> parser -> loader is compared with the real "
        "ManifestLoader on the semantic half's manifests; the shape theorems are stated relative to the token sequence the lexer model "
        "delivers in the modes the parser asks for (hypothesis `Follows`), which the lexical theorems characterise"]
    trusted_base = uniq(LEX.trusted_base + LOAD.trusted_base)

    def correspond(self, ctx, res):
        rp = getattr(ctx, "replay_path", None)
        if rp:
            inp = (json.load(open(rp)).get("failure") or {}).get("input")
            lexical = isinstance(inp, dict) and ("line" in inp or "path_hex" in inp)
            half, tag = (LEX, "lexical") if lexical else (LOAD, "semantic")
            sub = Result()
            half.correspond(ctx, sub)
            absorb(res, sub, tag)
            return
        for half, tag in ((LEX, "lexical"), (LOAD, "semantic")):
            sub = Result()
            half.correspond(ctx, sub)
            absorb(res, sub, tag)
        interleave_samples(res, ["lexical", "semantic"])
        res.exhaustive = False

    def match_known(self, failure, known):
        m = known.get("match", {})
        return all(failure.get(k) == v for k, v in m.items())

    def search(self, ctx, res, why):
        # both halves run their deterministic witness generators inside correspond()
        return


CHECK = Check()
