"""C05 — cancellation never hangs, leaks work, or poisons later builds."""
from .engine_common import EngineCheck

E = "LLBuild.Engine."


class Check(EngineCheck):
    prop = "C05"
    module = "LLBuild.Props.C05All"
    theorems = [E + "C05_later_builds_clean", E + "C05_cancelled_build_fails", E + "C05_interrupted_reset",
                E + "C05_persisted_only_completed", E + "C05_quiescent", E + "step_inv",
                E + "engine_fingerprint_matches_model",
                # for every run of the concrete engine model (refinement, Lemmas/Refine): nothing is left behind, later builds are clean
                "LLBuild.Refine.refinement_final", "LLBuild.Refine.EngineImpl_sound_C05_quiescent", "LLBuild.Refine.EngineImpl_sound_C01",
                # no hang: every build of the transliterated engine returns (potential-function termination proof), any schedule, any cancellation point
                "LLBuild.Refine.build_terminates", "LLBuild.Refine.EngineImpl_terminates", "LLBuild.Refine.refinement_final_sized",
                "LLBuild.Refine.EngineImpl_sound_C05_quiescent_sized", "LLBuild.Refine.EngineImpl_sound_C01_sized",
                # cancellation arriving from any thread at any item boundary
                "LLBuild.Refine.build_terminates_async", "LLBuild.Refine.EngineImpl_terminates_async",
                "LLBuild.Refine.EngineImpl_sound_C05_quiescent_async", "LLBuild.Refine.EngineImpl_sound_C01_async",
                # on the concrete model's PRINTED traces (Props/EngineImplSched3.lean), all histories with kills, all schedules:
                # work after the cancellation => the build fails; a returned value is clean even in the late-cancel race; only
                # completed tasks are persisted (store level); later builds clean (same engine / after restart); nothing after return
                "LLBuild.Refine.EngineImpl_sound_C05_cancel_fails", "LLBuild.Refine.EngineImpl_sound_C05_returned_value_is_clean",
                "LLBuild.Refine.EngineImpl_sound_C05_failure_returns_zero", "LLBuild.Refine.EngineImpl_sound_C05_persisted_only_completed",
                "LLBuild.Refine.EngineImpl_sound_C05_later_builds_clean", "LLBuild.Refine.EngineImpl_sound_C05_later_builds_clean_after_restart",
                "LLBuild.Refine.EngineImpl_sound_C05_no_callback_after_return", "LLBuild.Refine.C05_no_token_characterisation",
                "LLBuild.Refine.runBuildA_cancel_then_work_dec",
                # every op kind in one history theorem, injected database write failures included (Props/EngineImplAll.lean)
                "LLBuild.Refine.EngineImpl_sound_all", "LLBuild.Refine.EngineImpl_sound_fail", "LLBuild.Refine.EngineImpl_sound_fail_quiescent",
                "LLBuild.Refine.EngineImpl_sound_all_of_fail", "LLBuild.Refine.EngineImpl_sound_crash_of_all", "LLBuild.Refine.crashedBuildF_refines", "LLBuild.Refine.refinement_opF"]
    mix = [(0.5, {"cancel": True}), (0.15, {"cancel": True, "threads": True}), (0.15, {"cancel": True, "cyclic": True}), (0.1, {"foreign_cancel": True}),
           # injected database write failures: the engine reports the error, cancels and fails the build (with and without a
           # cancellation of our own on top); later builds must be clean
           (0.1, {"dbfail": True, "cancel": True}),
           # directed: cancelled with several deferred tasks outstanding, two or more reported complete back-to-back
           (0.1, {"drain": True}),
           # directed: a scanning build cancelled from inside a callback, then an edit and a build on the same engine
           (0.1, {"cancelscan": True})]
    budget = (350, 3500)
    assumptions = EngineCheck.assumptions + [
        "termination after cancellation ('never hangs'): a theorem for the transliterated engine (EngineImpl_terminates_async, under the size condition); on the real engine it is additionally watched by the harness watchdog with cancellation delivered at hook points, inside callbacks and from a foreign thread",
        "'cancelling makes the build call return failure' has no exact token-level characterisation (C05_no_token_characterisation: the work loop tests buildCancelled only at the top of an iteration and its last, idle iteration prints nothing; two runs with the same 37 tokens end R 0 and R v; the late edge replayed on the real engine) - proved instead: any work after X => failure (EngineImpl_sound_C05_cancel_fails), and a non-empty returned value is always the clean value (EngineImpl_sound_C05_returned_value_is_clean)",
        "cancelBuild() is never called from inside createExecutionQueue (the engine holds a non-recursive mutex there)"]


CHECK = Check()
