"""C05 — cancellation never hangs, leaks work, or poisons later builds."""
from .engine_common import EngineCheck

E = "LLBuild.Engine."


class Check(EngineCheck):
    prop = "C05"
    module = "LLBuild.Props.C05All"
    theorems = [E + "C05_later_builds_clean", E + "C05_cancelled_build_fails", E + "C05_interrupted_reset",
                E + "C05_persisted_only_completed", E + "C05_quiescent", E + "step_inv",
                E + "engine_fingerprint_matches_model",
                # for every run of the concrete engine model (refinement, Lemmas/Refine): nothing is left behind, later builds are clean
                "LLBuild.Refine.refinement_final", "LLBuild.Refine.EngineImpl_sound_C05_quiescent", "LLBuild.Refine.EngineImpl_sound_C01",
                # no hang: every build of the transliterated engine returns (potential-function termination proof), any schedule, any cancellation point
                "LLBuild.Refine.build_terminates", "LLBuild.Refine.EngineImpl_terminates", "LLBuild.Refine.refinement_final_sized",
                "LLBuild.Refine.EngineImpl_sound_C05_quiescent_sized", "LLBuild.Refine.EngineImpl_sound_C01_sized",
                # cancellation arriving from any thread at any item boundary
                "LLBuild.Refine.build_terminates_async", "LLBuild.Refine.EngineImpl_terminates_async",
                "LLBuild.Refine.EngineImpl_sound_C05_quiescent_async", "LLBuild.Refine.EngineImpl_sound_C01_async"]
    mix = [(0.6, {"cancel": True}), (0.15, {"cancel": True, "threads": True}), (0.15, {"cancel": True, "cyclic": True}), (0.1, {"foreign_cancel": True})]
    budget = (350, 3500)
    assumptions = EngineCheck.assumptions + [
        "termination after cancellation ('never hangs') is checked by the harness watchdog with cancellation delivered at hook points and inside callbacks; it is not a theorem",
        "cancelBuild() is never called from inside createExecutionQueue (the engine holds a non-recursive mutex there)"]


CHECK = Check()
