"""C15 — keys and values encode canonically and decode losslessly.

correspondence : the same op lines go to harness/vc15 (real BuildValue / BuildKey / StringList / FileInfo /
                 BinaryCoding classes) and to the Lean model driver (modes c15value, c15vdec, c15key, c15kdec, c15prim);
                 output lines are compared verbatim.
oracle         : evaluated on the real code's output only, independently of the Lean model:
                 round trip (accessors of fromData(toData(v)) show v), injectivity (two different generated
                 values/keys never share bytes), determinism (the same value always gives the same bytes),
                 kind tags (first byte identifies the kind, distinct per kind), and an independent python decoder of the
                 wire format applied to the real bytes.
"""
import os, struct
from .. import common as C
from ..runner import PropertyCheck

# kind tables used by the *generators* (which fields a kind carries, which make* exists).  They are only used to
# produce mostly-valid inputs; the check does not rely on them being right: the harness dispatches on the real
# enumerators, the model on the extracted tables, and the oracle compares what went in with what came out.
VK = ["Invalid", "VirtualInput", "ExistingInput", "MissingInput", "DirectoryContents", "DirectoryTreeSignature",
      "DirectoryTreeStructureSignature", "StaleFileRemoval", "MissingOutput", "FailedInput", "SuccessfulCommand",
      "FailedCommand", "PropagatedFailureCommand", "CancelledCommand", "SkippedCommand", "Target",
      "FilteredDirectoryContents", "SuccessfulCommandWithOutputSignature"]
V_SIG = {5, 6, 17}
V_INFOS_ONE = {2, 4}          # makeExistingInput / makeDirectoryContents take exactly one FileInfo
V_INFOS_MANY = {10, 17}
V_STRS = {4, 7, 16}
KK = ["Command", "CustomTask", "DirectoryContents", "FilteredDirectoryContents", "DirectoryTreeSignature",
      "DirectoryTreeStructureSignature", "Node", "Stat", "Target", "Unknown"]
K_SIMPLE = {0, 2, 6, 7, 8}
K_RAW = {1}
K_STRS = {3, 4, 5}
K_CODE = {0: 0x43, 1: 0x58, 2: 0x44, 3: 0x64, 4: 0x53, 5: 0x73, 6: 0x4e, 7: 0x49, 8: 0x54}

U64_EDGE = [0, 1, 0xff, 0x100, 0xffff, 0x10000, 0xffffffff, 0x100000000, 0x7fffffffffffffff, 0x8000000000000000,
            0xffffffffffffffff, 0x0102030405060708, 0xfffefdfcfbfaf9f8, 0x00ff00ff00ff00ff]


def hexlist(l):
    return ",".join(C.hexs(x) for x in l) if l else "."


def u64(rng):
    k = rng.below(4)
    if k == 0:
        return rng.choice(U64_EDGE)
    if k == 1:
        return rng.next()
    if k == 2:
        return rng.below(1 << (8 * (1 + rng.below(8))))
    return 1 << rng.below(64)


def gen_info(rng):
    k = rng.below(4)
    if k == 0:
        cs = bytes(32)
    elif k == 1:
        cs = bytes([rng.below(256)]) * 32
    else:
        cs = bytes(rng.below(256) for _ in range(32))
    return (u64(rng), u64(rng), u64(rng), u64(rng), u64(rng), u64(rng), cs)


def info_s(fi):
    return ":".join("%x" % x for x in fi[:6]) + ":" + fi[6].hex()


def gen_str(rng, nul=False):
    k = rng.below(6)
    if k == 0:
        return b""
    alpha = [0x61, 0x62, 0x2f, 0x2e, 0x20, 0x01, 0xff, 0x80, 0x2c, 0x2d] + ([0x00] if nul else [])
    return rng.bytes_from(alpha, 1 + rng.below(6) if k < 5 else 40)


def gen_strs(rng, nul=False):
    n = rng.choice([0, 0, 1, 1, 2, 3, 5])
    return [gen_str(rng, nul) for _ in range(n)]


def value_line(v):
    k, sig, infos, strs = v
    return "%d %x %s %s" % (k, sig, ",".join(info_s(i) for i in infos) if infos else ".", hexlist(strs))


def value_show(v):
    """the canonical accessor line for a value (what `showValue` must print after a lossless round trip)"""
    k, sig, infos, strs = v
    return "k=%d sig=%x infos=%s strs=%s" % (k, sig, ",".join(info_s(i) for i in infos) if infos else ".", hexlist(strs))


def gen_value(rng, k, nul=False):
    sig = u64(rng) if k in V_SIG else 0
    if k in V_INFOS_ONE:
        infos = [gen_info(rng)]
    elif k in V_INFOS_MANY:
        infos = [gen_info(rng) for _ in range(rng.choice([0, 1, 1, 2, 2, 3, 4, 7]))]
    else:
        infos = []
    strs = gen_strs(rng, nul) if k in V_STRS else []
    return (k, sig, tuple(infos), tuple(strs))


def mutate_value(rng, v):
    """a value differing from v in exactly one field (for the pairwise-injectivity stream)"""
    k, sig, infos, strs = v
    infos, strs = list(infos), list(strs)
    choices = ["kind"]
    if k in V_SIG:
        choices.append("sig")
    if infos:
        choices += ["info-field", "info-field", "info-drop"]
    if k in V_INFOS_MANY:
        choices.append("info-add")
    if k in V_STRS:
        choices += ["str-add", "str-split"]
        if strs:
            choices += ["str-byte", "str-drop"]
    c = rng.choice(choices)
    if c == "kind":
        same = [j for j in range(len(VK)) if j != k and (j in V_SIG) == (k in V_SIG) and (j in V_STRS) == (k in V_STRS) and
                ((j in V_INFOS_ONE and len(infos) == 1) or (j in V_INFOS_MANY and k in (V_INFOS_ONE | V_INFOS_MANY)) or
                 (j not in V_INFOS_ONE | V_INFOS_MANY and k not in V_INFOS_ONE | V_INFOS_MANY))]
        if not same:
            return None
        k = rng.choice(same)
    elif c == "sig":
        sig ^= 1 << rng.below(64)
    elif c == "info-field":
        i = rng.below(len(infos))
        fi = list(infos[i])
        f = rng.below(7)
        if f < 6:
            fi[f] ^= 1 << rng.below(64)
        else:
            b = bytearray(fi[6]); b[rng.below(32)] ^= 1 << rng.below(8); fi[6] = bytes(b)
        infos[i] = tuple(fi)
    elif c == "info-drop":
        if k in V_INFOS_ONE:
            return None
        infos.pop(rng.below(len(infos)))
    elif c == "info-add":
        infos.insert(rng.below(len(infos) + 1), gen_info(rng))
    elif c == "str-add":
        strs.insert(rng.below(len(strs) + 1), gen_str(rng))
    elif c == "str-drop":
        strs.pop(rng.below(len(strs)))
    elif c == "str-split":
        # ["ab"] vs ["a","b"]: same characters, different list structure
        cand = [i for i, s in enumerate(strs) if len(s) >= 2]
        if not cand:
            return None
        i = rng.choice(cand); s = strs[i]; j = 1 + rng.below(len(s) - 1)
        strs[i:i + 1] = [s[:j], s[j:]]
    elif c == "str-byte":
        i = rng.below(len(strs))
        if not strs[i]:
            return None
        b = bytearray(strs[i]); j = rng.below(len(b)); b[j] = (b[j] % 255) + 1 if b[j] != 255 else 1; strs[i] = bytes(b)
    w = (k, sig, tuple(infos), tuple(strs))
    return w if w != v else None


# --- independent python reader of the BuildValue wire format (used to filter malformed inputs to the in-bounds
#     ones the real decoder may be run on, and as a third opinion on the real encoder's bytes) -----------------------
class OOB(Exception):
    pass


def py_decode_value(b):
    if len(b) == 0:
        return (0, 0, (), ())
    pos = 0

    def take(n):
        nonlocal pos
        if pos + n > len(b):
            raise OOB()
        r = b[pos:pos + n]; pos += n
        return r
    k = take(1)[0]
    sig, infos, strs = 0, [], []
    if k in V_SIG:
        sig = struct.unpack("<Q", take(8))[0]
    if k in V_INFOS_ONE | V_INFOS_MANY:
        n = struct.unpack("<I", take(4))[0]
        if n * 80 > len(b):
            raise OOB()
        for _ in range(n):
            f = struct.unpack("<6Q", take(48))
            infos.append(tuple(f) + (take(32),))
    if k in V_STRS:
        n = struct.unpack("<Q", take(8))[0]
        p = take(n) if n <= len(b) else (_ for _ in ()).throw(OOB())
        if p:
            if p[-1] != 0:
                raise OOB()
            strs = p[:-1].split(b"\0")
    return (k, sig, tuple(infos), tuple(strs))


def py_decode_key(b):
    if len(b) == 0:
        return (9, None, None)
    inv = {c: k for k, c in K_CODE.items()}
    k = inv.get(b[0], 9)
    if k == 9:
        return (9, None, None)
    if k in K_SIMPLE:
        return (k, b[1:], "N")
    if len(b) < 5:
        raise OOB()
    n = struct.unpack("<I", b[1:5])[0]
    if 5 + n > len(b):
        raise OOB()
    name, data = b[5:5 + n], b[5 + n:]
    if k in K_RAW:
        return (k, name, "R:" + C.hexs(data))
    if len(data) < 8:
        raise OOB()
    m = struct.unpack("<Q", data[:8])[0]
    if 8 + m > len(data):
        raise OOB()
    p = data[8:8 + m]
    strs = []
    if p:
        if p[-1] != 0:
            raise OOB()
        strs = p[:-1].split(b"\0")
    return (k, name, "S:" + hexlist(strs))


def key_show(k):
    kind, name, payload = k
    return "k=%d name=%s payload=%s" % (kind, C.hexs(name), payload)


def gen_key(rng, kind, nul_in_filters=False):
    alpha = [0x61, 0x62, 0x2f, 0x00, 0x00, 0xff, 0x20, 0x43, 0x58, 0x01]
    name = rng.bytes_from(alpha, rng.choice([0, 1, 2, 5, 9, 300]))
    if kind in K_SIMPLE:
        return (kind, name, "N")
    if kind in K_RAW:
        return (kind, name, "R:" + C.hexs(rng.bytes_from(alpha, rng.choice([0, 1, 4, 8, 20]))))
    return (kind, name, "S:" + hexlist(gen_strs(rng, nul_in_filters)))


def mutate_key(rng, k):
    kind, name, payload = k
    c = rng.below(5)
    if c == 0:
        same = [j for j in range(9) if j != kind and ((j in K_SIMPLE) == (kind in K_SIMPLE)) and ((j in K_RAW) == (kind in K_RAW))]
        if not same:
            return None
        kind = rng.choice(same)
    elif c == 1:
        name = name + bytes([rng.choice([0, 0x61, 0xff])])
    elif c == 2:
        if not name:
            return None
        b = bytearray(name); j = rng.below(len(b)); b[j] ^= 1 << rng.below(8); name = bytes(b)
    elif c == 3:
        # move the boundary between name and payload: ("ab","c") vs ("a","bc")
        if kind not in K_RAW or not name:
            return None
        data = C.unhex(payload[2:])
        payload = "R:" + C.hexs(name[-1:] + data); name = name[:-1]
    else:
        if kind in K_SIMPLE:
            return None
        if kind in K_RAW:
            payload = "R:" + C.hexs(C.unhex(payload[2:]) + b"\0")
        else:
            l = payload[2:]
            payload = "S:" + ("-" if l == "." else l + ",-")
    w = (kind, name, payload)
    return w if w != k else None


def model_cmd():
    """the shared model driver; VERIF_C15_MODEL overrides it with a private build (used before the C15 modes are
    listed in lean/Driver.lean)"""
    p = os.environ.get("VERIF_C15_MODEL")
    return [p] if p else [C.model_exe()]


def run_both(mode, harness_exe, lines):
    import threading
    r = {}
    t1 = threading.Thread(target=lambda: r.__setitem__("m", C.run_lines(model_cmd() + [mode], lines)))
    t2 = threading.Thread(target=lambda: r.__setitem__("h", C.run_lines([harness_exe, mode], lines)))
    t1.start(); t2.start(); t1.join(); t2.join()
    return r["m"], r["h"]


class Check(PropertyCheck):
    prop = "C15"
    module = "LLBuild.Props.C15"
    theorems = ["LLBuild.Codec." + t for t in (
        "C15_value_roundtrip", "C15_value_injective", "C15_kind_tags_distinct", "C15_constructors_match_codec", "C15_value_first_byte_is_tag",
        "C15_unchanged_is_byte_equal", "C15_fileinfo_roundtrip", "C15_stringlist_roundtrip",
        "C15_fileinfo_eq_coarser_than_bytes", "C15_nul_in_string_list_not_carried",
        "C15_key_codes_bijective", "C15_key_roundtrip", "C15_key_injective")]
    extractors = ["x_codec"]
    harnesses = [("vc15", "plain")]
    assumptions = [
        "well-formedness = what the C++ constructors guarantee or assert: default fields where the kind carries none, 1 <= #outputs < 2^32 where it does, "
        "32-byte checksums, NUL-free strings in string lists, sizes fitting their length fields (names and key payloads < 2^32 bytes, packed lists < 2^64)",
        "little-endian target (BuildKey copies nameSize with memcpy: native-endian); the harness runs on the build host",
        "hand model of the interpreter (write/read of each step, StringList packing, key constructors/accessors) tied by differential correspondence; "
        "tables, orders, widths, guards and byte shifts are extracted from the source on every run",
        "decoding of malformed buffers that would make the real decoder read out of bounds is compared against an independent python reader only (never executed on the real code)",
    ]
    trusted_base = ["extractor x_codec (BinaryCoding shifts, FileInfo/StringList/CommandSignature layouts, BuildValue kinds/predicates/steps, BuildKey tables/layouts)",
                    "correspondence harness vc15 (modes c15value, c15vdec, c15key, c15kdec, c15prim) and its generators",
                    "python oracle (round trip, pairwise injectivity, determinism, kind-tag map) and independent python decoder of the wire format"]

    # ------------------------------------------------------------------------------------------
    def both(self, ctx, res, mode, lines):
        (mrc, mout, merr), (hrc, hout, herr) = run_both(mode, ctx.exe[("vc15", "plain")], lines)
        if hrc != 0 or len(hout) != len(lines):
            res.mismatches.append({"stream": mode, "input": "harness exit %d, %d/%d lines" % (hrc, len(hout), len(lines)), "impl": herr[-300:]})
            if len(hout) < len(lines):
                # answers are flushed one by one: the op after the last answer is the one the real code died on
                res.oracle_failures.append({"what": "the real code crashed or aborted (exit %d) while encoding/decoding this input" % hrc,
                                            "call": mode, "clause": "crash", "input": {"op": lines[len(hout)], "mode": mode}})
            return None, None
        model_ok = mrc == 0 and len(mout) == len(lines)
        if ctx.model_ok and not model_ok:
            res.mismatches.append({"stream": mode, "input": "model driver exit %d, %d/%d lines" % (mrc, len(mout), len(lines)), "model": merr[-300:]})
        if model_ok:
            for i, l in enumerate(lines):
                if mout[i] != hout[i] and len(res.mismatches) < 20:
                    res.mismatches.append({"stream": mode, "input": l, "model": mout[i][:400], "impl": hout[i][:400]})
        res.evaluations += len(lines)
        return hout, (mout if model_ok else None)

    def model_only(self, ctx, res, mode, lines):
        rc, out, err = C.run_lines(model_cmd() + [mode], lines)
        if rc != 0 or len(out) != len(lines):
            if ctx.model_ok:
                res.mismatches.append({"stream": mode, "input": "model driver exit %d" % rc, "model": err[-300:]})
            return None
        return out

    # ------------------------------------------------------------------------------------------
    def values(self, ctx):
        rng = ctx.rng
        per_kind = 1500 if ctx.thorough else 150
        vals = []
        for k in range(len(VK)):
            vals.append(gen_value(C.Rng(0, "fixed%d" % k), k))       # a seed-independent representative of every kind
            for _ in range(per_kind if (k in V_SIG or k in V_STRS or k in V_INFOS_ONE or k in V_INFOS_MANY) else 1):
                vals.append(gen_value(rng, k))
        # extreme file infos in every position
        for e in U64_EDGE:
            for f in range(6):
                fi = [0] * 6; fi[f] = e
                vals.append((10, 0, (tuple(fi) + (bytes(32),),), ()))
        for n in range(0, 9):
            vals.append((10, 0, tuple(gen_info(rng) for _ in range(n)), ()))
            vals.append((17, u64(rng), tuple(gen_info(rng) for _ in range(n)), ()))
        # string lists with empty strings
        for strs in ([], [b""], [b"", b""], [b"a", b""], [b"", b"a"], [b"", b"", b"a", b""], [b"ab"], [b"a", b"b"], [b"a" * 300]):
            for k in sorted(V_STRS):
                vals.append((k, 0, (gen_info(rng),) if k in V_INFOS_ONE else (), tuple(strs)))
        # neighbours differing in one field, and exact duplicates (determinism)
        base = list(vals)
        muts = {}
        for v in base:
            for _ in range(3 if ctx.thorough else 2):
                w = mutate_value(rng, v)
                if w is not None:
                    vals.append(w)
                    muts[w] = muts.get(w, 0) + 1
        for _ in range(len(base) // 10):
            vals.append(rng.choice(base))
        return vals, len(muts)

    def run_values(self, ctx, res):
        vals, nmut = self.values(ctx)
        lines = [value_line(v) for v in vals]
        hout, mout = self.both(ctx, res, "c15value", lines)
        if hout is None:
            return
        by_bytes, by_value, tags = {}, {}, {}
        dist = {"values": len(vals), "distinct_values": len(set(vals)), "one_field_neighbours": nmut,
                "per_kind": {VK[k]: 0 for k in range(len(VK))}, "outputs_histogram": {}, "strings_histogram": {}, "empty_strings": 0,
                "max_encoded_len": 0}
        for v, line, out in zip(vals, lines, hout):
            dist["per_kind"][VK[v[0]]] += 1
            dist["outputs_histogram"][str(len(v[2]))] = dist["outputs_histogram"].get(str(len(v[2])), 0) + 1
            dist["strings_histogram"][str(len(v[3]))] = dist["strings_histogram"].get(str(len(v[3])), 0) + 1
            dist["empty_strings"] += sum(1 for s in v[3] if not s)
            enc, _, shown = out.partition(" ")
            fail = None
            if out in ("bad-op", "copy-encodes-differently", "reencode-differs") or not shown:
                fail = ("encode", "harness answered %r" % out)
            else:
                b = C.unhex(enc)
                dist["max_encoded_len"] = max(dist["max_encoded_len"], len(b))
                if shown != value_show(v):
                    fail = ("roundtrip", "fromData(toData(v)) shows %s, expected %s" % (shown[:300], value_show(v)[:300]))
                else:
                    try:
                        if py_decode_value(b) != v:
                            fail = ("wire-format", "independent reader decodes the real bytes to a different value")
                    except OOB:
                        fail = ("wire-format", "independent reader runs out of bytes on the real encoding")
                if fail is None:
                    if b in by_bytes and by_bytes[b] != v:
                        fail = ("injective", "two different values share the encoding %s: %s" % (enc[:120], value_line(by_bytes[b])[:300]))
                    by_bytes.setdefault(b, v)
                    if v in by_value and by_value[v] != b:
                        fail = ("canonical", "the same value encoded to different bytes")
                    by_value.setdefault(v, b)
                    if len(b) == 0 or b[0] != v[0]:
                        fail = ("kind-tag", "first byte %s is not the kind ordinal %d" % (enc[:2], v[0]))
                    tags.setdefault(b[0] if b else None, set()).add(v[0])
            if fail:
                res.oracle_failures.append({"what": "BuildValue %s: %s" % (VK[v[0]], fail[1]), "call": "BuildValue::toData/fromData",
                                            "clause": fail[0], "kind": VK[v[0]], "input": {"op": line, "mode": "c15value"}})
        for t, ks in tags.items():
            if len(ks) > 1:
                res.oracle_failures.append({"what": "kind tag %r is shared by kinds %s" % (t, sorted(ks)), "call": "BuildValue::toData",
                                            "clause": "kind-tag", "input": {"tag": t, "kinds": sorted(ks)}})
        res.distinct_nontrivial += len(by_bytes)
        res.distribution["values"] = dist
        res.samples.append({"value_op": lines[5], "impl": hout[5][:200]})

    def run_nul_limit(self, ctx, res):
        """the documented limit: a string containing NUL is split (constructors assert NUL-freedom).  Compared with the model;
        reported in the distribution, not as a violation."""
        rng = ctx.rng
        vals = [(7, 0, (), (b"a\0b",)), (16, 0, (), (b"\0",)), (4, 0, (gen_info(rng),), (b"x", b"\0y"))]
        for _ in range(2000 if ctx.thorough else 200):
            v = gen_value(rng, rng.choice(sorted(V_STRS)), nul=True)
            if any(0 in s for s in v[3]):
                vals.append(v)
        lines = [value_line(v) for v in vals]
        hout, _ = self.both(ctx, res, "c15value", lines)
        if hout is None:
            return
        split = sum(1 for v, o in zip(vals, hout) if o.partition(" ")[2] != value_show(v))
        res.distribution["nul_limit"] = {"values_with_nul_in_a_string": len(vals), "not_round_tripped": split}

    def run_vdec(self, ctx, res):
        rng = ctx.rng
        n = 40000 if ctx.thorough else 3000
        cands = [b"", b"\0"] + [bytes([t]) for t in range(18, 256, 7)] + [bytes([t, 1, 2, 3]) for t in (18, 19, 100, 255)]
        seeds = [gen_value(rng, k) for k in range(len(VK)) for _ in range(4)]
        encs = self.model_only(ctx, res, "c15value", [value_line(v) for v in seeds])
        base = [C.unhex(l.split(" ")[0]) for l in encs] if encs else []
        for _ in range(n):
            if not base:
                break
            b = bytearray(rng.choice(base))
            c = rng.below(6)
            if c == 0:
                b += bytes(rng.below(256) for _ in range(1 + rng.below(4)))      # trailing bytes
            elif c == 1 and b:
                b = b[:rng.below(len(b))]                                         # truncation
            elif c == 2 and b:
                b[0] = rng.below(24)                                              # another (or unknown) kind, same payload
            elif c == 3 and b:
                b[rng.below(len(b))] ^= 1 << rng.below(8)
            elif c == 4 and len(b) > 1:
                j = 1 + rng.below(min(len(b) - 1, 12)); b[j] = rng.choice([0, 1, 2, 255])   # counts / sizes
            cands.append(bytes(b))
        lines = [C.hexs(b) for b in cands]
        mout = self.model_only(ctx, res, "c15vdec", lines)
        safe, oob = [], 0
        for i, b in enumerate(cands):
            try:
                v = py_decode_value(b)
                exp = value_show(v) if v[0] < len(VK) else "k=%d sig=0 infos=. strs=." % v[0]
                safe.append(i)
            except OOB:
                exp = "oob"; oob += 1
            if mout is not None and mout[i] != exp and len(res.mismatches) < 20:
                res.mismatches.append({"stream": "c15vdec/python-reader", "input": lines[i][:300], "model": mout[i][:300], "impl": "python reader: " + exp[:300]})
        hout, _ = self.both(ctx, res, "c15vdec", [lines[i] for i in safe])
        res.distribution["malformed_value_buffers"] = {"total": len(cands), "in_bounds_run_on_real_decoder": len(safe), "out_of_bounds_model_vs_python_only": oob}

    # ------------------------------------------------------------------------------------------
    def keys(self, ctx):
        rng = ctx.rng
        per_kind = 1500 if ctx.thorough else 120
        keys = []
        for kind in range(9):
            keys.append(gen_key(C.Rng(0, "fixedk%d" % kind), kind))
            for _ in range(per_kind):
                keys.append(gen_key(rng, kind))
            for name in (b"", b"\0", b"\0\0", b"a\0", b"\0a", bytes(range(256)), b"C", b"X\1\0\0\0a"):
                if kind in K_SIMPLE:
                    keys.append((kind, name, "N"))
                elif kind in K_RAW:
                    for d in (b"", b"\0", name):
                        keys.append((kind, name, "R:" + C.hexs(d)))
                else:
                    for l in ([], [b""], [b"", b""], [b"*.o", b""]):
                        keys.append((kind, name, "S:" + hexlist(l)))
        base = list(keys)
        nm = 0
        for k in base:
            for _ in range(2):
                w = mutate_key(rng, k)
                if w is not None:
                    keys.append(w); nm += 1
        for _ in range(len(base) // 10):
            keys.append(rng.choice(base))
        return keys, nm

    def run_keys(self, ctx, res):
        keys, nm = self.keys(ctx)
        lines = ["%d %s %s" % (k[0], C.hexs(k[1]), k[2]) for k in keys]
        hout, _ = self.both(ctx, res, "c15key", lines)
        if hout is None:
            return
        by_bytes, by_key = {}, {}
        dist = {"keys": len(keys), "distinct_keys": len(set(keys)), "one_part_neighbours": nm, "per_kind": {KK[k]: 0 for k in range(9)},
                "names_with_nul": 0, "empty_names": 0}
        for k, line, out in zip(keys, lines, hout):
            dist["per_kind"][KK[k[0]]] += 1
            dist["names_with_nul"] += 1 if 0 in k[1] else 0
            dist["empty_names"] += 1 if not k[1] else 0
            enc, _, shown = out.partition(" ")
            fail = None
            if out == "bad-op" or not shown:
                fail = ("encode", "harness answered %r" % out)
            else:
                b = C.unhex(enc)
                if shown != key_show(k):
                    fail = ("roundtrip", "accessors of fromData(toData(k)) show %s, expected %s" % (shown[:300], key_show(k)[:300]))
                else:
                    try:
                        if py_decode_key(b) != k:
                            fail = ("wire-format", "independent reader decodes the real key bytes to different parts")
                    except OOB:
                        fail = ("wire-format", "independent reader runs out of bytes on the real key")
                if fail is None:
                    if b in by_bytes and by_bytes[b] != k:
                        fail = ("injective", "two different keys share the bytes %s: %s" % (enc[:120], str(by_bytes[b])[:200]))
                    by_bytes.setdefault(b, k)
                    if k in by_key and by_key[k] != b:
                        fail = ("canonical", "the same key encoded to different bytes")
                    by_key.setdefault(k, b)
                    if not b or b[0] != K_CODE[k[0]]:
                        fail = ("kind-code", "first byte %s is not the identifier of %s" % (enc[:2], KK[k[0]]))
            if fail:
                res.oracle_failures.append({"what": "BuildKey %s: %s" % (KK[k[0]], fail[1]), "call": "BuildKey::make*/accessors",
                                            "clause": fail[0], "kind": KK[k[0]], "input": {"op": line, "mode": "c15key"}})
        res.distinct_nontrivial += len(by_bytes)
        res.distribution["keys"] = dist
        res.samples.append({"key_op": lines[3], "impl": hout[3][:200]})

    def run_kdec(self, ctx, res):
        rng = ctx.rng
        cands = [b""] + [bytes([c]) for c in range(256)] + [bytes([c, 0x61, 0, 0x62]) for c in range(256)]
        for _ in range(30000 if ctx.thorough else 2000):
            c = rng.choice(list(K_CODE.values()) + [0x20, 0x00, 0x63])
            body = bytes(rng.choice([0, 0, 1, 2, 0x61, 0xff, 8]) for _ in range(rng.below(24)))
            cands.append(bytes([c]) + body)
        lines = [C.hexs(b) for b in cands]
        mout = self.model_only(ctx, res, "c15kdec", lines)
        safe, oob = [], 0
        for i, b in enumerate(cands):
            try:
                k = py_decode_key(b)
                exp = "k=9" if k[0] == 9 else key_show(k)
                safe.append(i)
            except OOB:
                exp = "oob"; oob += 1
            if mout is not None and mout[i] != exp and len(res.mismatches) < 20:
                res.mismatches.append({"stream": "c15kdec/python-reader", "input": lines[i][:300], "model": mout[i][:300], "impl": "python reader: " + exp[:300]})
        hout, _ = self.both(ctx, res, "c15kdec", [lines[i] for i in safe])
        # oracle: the two switch tables are mutually inverse on the real code: every one-byte key c with a known kind k
        # must be the key makeX("") produces for that kind (checked through c15key above: first byte == identifier)
        res.distribution["raw_key_buffers"] = {"total": len(cands), "in_bounds_run_on_real_accessors": len(safe), "out_of_bounds_model_vs_python_only": oob,
                                               "all_256_identifier_bytes": True}

    def run_prim(self, ctx, res):
        rng = ctx.rng
        lines = []
        for w in (1, 2, 4, 8):
            for e in U64_EDGE:
                lines.append("%d %x" % (w, e))
            for _ in range(20000 if ctx.thorough else 1000):
                lines.append("%d %x" % (w, u64(rng)))
        hout, _ = self.both(ctx, res, "c15prim", lines)
        if hout is None:
            return
        for l, o in zip(lines, hout):
            w, v = l.split(" ")
            w, v = int(w), int(v, 16)
            want = (v % (1 << (8 * w))).to_bytes(w, "little").hex() + " %x" % (v % (1 << (8 * w)))
            if o != want:
                res.oracle_failures.append({"what": "BinaryEncoder::write(uint%d_t %x) / read gave %s, little-endian round trip is %s" % (8 * w, v, o, want),
                                            "call": "BinaryEncoder::write/BinaryDecoder::read", "clause": "primitive", "width": w,
                                            "input": {"op": l, "mode": "c15prim"}})
        res.distribution["primitive_ops"] = len(lines)

    def correspond(self, ctx, res):
        if ctx.replay_path:
            return self.replay(ctx, res)
        self.run_prim(ctx, res)
        self.run_values(ctx, res)
        self.run_nul_limit(ctx, res)
        self.run_vdec(ctx, res)
        self.run_keys(ctx, res)
        self.run_kdec(ctx, res)
        res.rule = ("values: every kind x (0..8 outputs where the constructor takes a list, exactly one where it takes one) x file infos with edge/random uint64 "
                    "fields and checksums x string lists incl. empty strings, plus one-field neighbours of every generated value and exact duplicates; "
                    "keys: every kind x names incl. NUL/0xff/empty/300 bytes x raw data / filter lists, plus one-part neighbours (kind, name byte, name/payload boundary, payload); "
                    "malformed buffers: trailing bytes, truncations, foreign kind bytes, bit flips, count/size edits (in-bounds ones run on the real decoder); "
                    "primitives: all widths x edge/random values. Non-trivial = distinct encodings produced by the real code.")
        res.exhaustive = False

    def replay(self, ctx, res):
        import json
        obj = json.load(open(ctx.replay_path))
        inp = obj.get("failure", {}).get("input", {})
        if "op" in inp and "mode" in inp:
            hout, mout = self.both(ctx, res, inp["mode"], [inp["op"]])
            print("replay %s: %s\n impl : %s\n model: %s" % (inp["mode"], inp["op"], hout and hout[0], mout and mout[0]))
            # re-evaluate the oracle on this single op
            if inp["mode"] == "c15value" and hout:
                f = inp["op"].split(" ")
                shown = hout[0].partition(" ")[2]
                want = "k=%s sig=%s infos=%s strs=%s" % (f[0], f[1], f[2], f[3])
                if shown != want:
                    res.oracle_failures.append({"what": "replayed value does not round-trip: %s" % shown[:200], "input": inp, "clause": "roundtrip"})
            if inp["mode"] == "c15key" and hout:
                f = inp["op"].split(" ")
                want = "k=%s name=%s payload=%s" % (f[0], f[1], f[2])
                if hout[0].partition(" ")[2] != want:
                    res.oracle_failures.append({"what": "replayed key does not round-trip: %s" % hout[0][:200], "input": inp, "clause": "roundtrip"})


CHECK = Check()
