"""C17LOAD — Ninja manifests mean what Ninja says they mean (semantic half of C17) + loader part of C19.

Routes on every run:
  extractor      x_ninjaloader  -> Generated/NinjaLoaderTables.lean (theorems quantify over it)
  theorems       LLBuild.Props.C17Load (loader model = reference semantics; termination; witnesses)
  correspondence real Parser -> declaration stream -> Lean loader model  ==  real ManifestLoader   (verbatim)
  oracle         real ManifestLoader  vs  the installed `ninja` (-t commands -s / -t query / -n), directly,
                 and vs the Lean reference semantics (which is itself validated against `ninja`:
                 "spec validation"; a spec/ninja disagreement is never a violation, it is counted)
  parser stream  (`correspond_parser`) real Parser with a tracing ParseActions (harness mode c17parse: every callback,
                 every token payload, every error message)  ==  Lean parser model driving the Lean lexer model
                 (driver mode c17parse), verbatim, on generated valid manifests, the malformed stream and a byte-level
                 mutation stream; python oracle on the real trace (begin/end discipline, tokens inside the buffer);
                 and the pure-Lean pipeline bytes -> lexer -> parser -> loader (driver mode c17full) == real ManifestLoader
"""
import json, os, re, shlex, shutil, subprocess, threading
from .. import common as C
from ..runner import PropertyCheck

WD = b"/w"


def hx(b):
    return C.hexs(b)


# ------------------------------------------------------------------------------------------------
# manifest generator (grammar-directed; respects the carve-outs listed in notes/C17LOAD.md)
# ------------------------------------------------------------------------------------------------
SPECIAL_PATHS = [b"a b.c", b"q'uote.c", b'd"q.c', b"do$lar.c", b"co:lon.c", b"dir/sub file.c", b"at@x.c", b"pl+us=,.c",
                 b"semi;x.c", b"amp&x.c", b"star*.c", b"tilde~x.c", b"par(en).c", b"bang!.c", b"%pc.c"]
PLAIN = [b"a.c", b"b.c", b"lib/c.c", b"lib/d.c", b"e.h", b"f.h", b"gen/g.inc", b"h.txt"]
RULE_PARAMS = [b"command", b"description", b"deps", b"depfile", b"generator", b"pool", b"restat", b"rspfile", b"rspfile_content"]


def esc_path(p):
    """a path as it must be written in a build line"""
    return p.replace(b"$", b"$$").replace(b" ", b"$ ").replace(b":", b"$:")


def esc_value(v):
    return v.replace(b"$", b"$$")


class Gen:
    def __init__(self, rng, idx):
        self.rng = rng
        self.idx = idx
        self.files = {}              # name -> bytes
        self.nfile = 0
        self.outputs = []            # all outputs so far (written spelling)
        self.used = set()
        self.sources = []
        self.pools = []
        self.nrule = 0
        self.nvar = 0
        self.nout = 0
        self.feat = set()
        self.edges = []              # (first output path bytes) in manifest order

    def fresh_out(self):
        self.nout += 1
        r = self.rng
        k = r.below(8)
        base = b"o%d" % self.nout
        if k == 0:
            p = b"out dir/" + base + b".o"
        elif k == 1:
            p = base + b"'q.o"
        elif k == 2:
            p = base + b"$x.o"
        elif k == 3:
            p = b"obj/" + base + b":c.o"
        elif k == 4:
            p = base + b'"d.o'
        else:
            p = b"obj/" + base + b".o"
        if k < 5:
            self.feat.add("special-path")
        return p

    def some_input(self):
        r = self.rng
        if self.outputs and r.chance(1, 3):
            return r.choice(self.outputs)
        if r.chance(1, 3):
            self.feat.add("special-path")
            p = r.choice(SPECIAL_PATHS)
        else:
            p = r.choice(PLAIN)
        if p not in self.sources:
            self.sources.append(p)
        return p

    def value(self, vars_visible, allow_refs=True, extra_refs=()):
        """right-hand side text: words, escapes, $var / ${var} references"""
        r = self.rng
        parts = []
        for _ in range(1 + r.below(4)):
            k = r.below(10)
            if k < 4 or not allow_refs:
                parts.append(r.choice([b"-O2", b"-g", b"-Wall", b"cc", b"ld", b"x=y", b"a.b", b"-I.", b"'q'", b'"dq"']))
            elif k < 6 and (vars_visible or extra_refs):
                v = r.choice(list(vars_visible) + list(extra_refs))
                if r.chance(1, 2) or b"." in v:
                    parts.append(b"${" + v + b"}")
                    self.feat.add("braced-ref")
                else:
                    parts.append(b"$" + v)
                    self.feat.add("simple-ref")
            elif k == 6:
                parts.append(b"$$HOME")
                self.feat.add("dollar-escape")
            elif k == 7:
                parts.append(b"a$:b")
                self.feat.add("colon-escape")
            elif k == 8:
                parts.append(b"x$ y")
                self.feat.add("space-escape")
            else:
                parts.append(b"$undefined_var")
                self.feat.add("unbound-ref")
        s = b" ".join(parts)
        if r.chance(1, 10):
            s = s.replace(b" ", b" $\n      ", 1)
            self.feat.add("continuation")
        return s

    def gen_file(self, depth, scope_vars, scope_rules, built_in=False, own=None):
        """returns the text of one file; scope_vars/scope_rules: names visible (lists, mutated for include)"""
        r = self.rng
        out = []
        built = built_in                   # a build statement was already emitted in this scope (or below)
        nstmt = 2 + r.below(6)
        local_rules = []
        own = [] if own is None else own   # rules declared in this very scope (shared with included files)
        # leading bindings (before any build: re-binding allowed here)
        for _ in range(0 if built else r.below(4)):
            self.nvar += 1
            name = r.choice([b"cflags", b"ldflags", b"builddir", b"v%d" % self.nvar, b"dotted.v%d" % self.nvar] + [v for v in scope_vars[:3] if v != b"builddir_obj"])
            if name in scope_vars and r.chance(1, 4):
                # an EMPTY re-binding shadows whatever the name was bound to before (in a subninja scope: the enclosing one)
                out.append(name + b" =\n")
                self.feat.add("empty-rebinding" + ("-in-subninja-scope" if depth > 0 else ""))
            else:
                out.append(name + b" = " + self.value(scope_vars) + b"\n")
            if name not in scope_vars:
                scope_vars.append(name)
            else:
                self.feat.add("rebind-before-build")
            self.feat.add("top-binding")
        for _ in range(nstmt):
            k = r.below(12)
            if k < 3 or not (scope_rules or local_rules):
                # rule
                self.nrule += 1
                name = b"r%d" % self.nrule
                if scope_rules and depth > 0 and r.chance(1, 6):
                    name = r.choice(scope_rules)          # shadow an inherited rule in a subninja scope
                    if name in local_rules or name in own or (name == b"phony" and depth == 0):
                        name = b"r%d" % self.nrule
                    else:
                        self.feat.add("rule-shadowing")
                params = [b"command"] + [p for p in RULE_PARAMS[1:] if r.chance(1, 4)]
                if b"deps" in params:
                    params = [p for p in params if p != b"deps"] + [b"deps"]
                    if b"depfile" not in params:
                        params.append(b"depfile")
                if b"rspfile_content" in params and b"rspfile" not in params:
                    params.append(b"rspfile")
                if b"rspfile" in params and b"rspfile_content" not in params:
                    params.append(b"rspfile_content")     # ninja: "rspfile and rspfile_content need to be both specified"
                if b"pool" in params and not self.pools:
                    params.remove(b"pool")
                lines = [b"rule " + name + b"\n"]
                defined = []
                for p in params:
                    if p == b"command":
                        v = self.value(scope_vars, extra_refs=[b"in", b"out", b"extra", b"flags"]) + b" $in -o $out"
                        # $in / $out reached THROUGH another rule variable: the quoting mode is that of the parameter being
                        # computed (command: quoted), not of the variable passed through (depfile / rspfile: unquoted)
                        if b"depfile" in params and r.chance(1, 2):
                            v += b" -MF $depfile"
                            self.feat.add("command-refers-to-depfile")
                        if b"rspfile" in params and r.chance(1, 2):
                            v += b" @${rspfile}"
                            self.feat.add("command-refers-to-rspfile")
                    elif p == b"deps":
                        v = b"gcc"
                    elif p == b"depfile":
                        v = b"$out.d" if r.chance(2, 3) else b"dep dir/$out.d"
                    elif p == b"pool":
                        v = r.choice(self.pools)
                    elif p in (b"generator", b"restat"):
                        v = b"1"
                    elif p == b"rspfile":
                        v = b"$out.rsp"
                    elif p == b"rspfile_content":
                        v = r.choice([b"$in", b"$in_newline", b"@args $in $flags"])
                    else:
                        v = self.value(scope_vars, extra_refs=[b"in", b"out", b"extra"] + defined)
                        if defined:
                            self.feat.add("rule-var-chain")
                    lines.append(b"  " + p + b" = " + v + b"\n")
                    defined.append(p)
                if r.chance(1, 5):
                    # rule variables referring to each other, acyclically, declared in either order
                    lines.insert(1, b"  description = D ${command} $out\n") if b"description" not in params else None
                    self.feat.add("rule-var-chain")
                out.append(b"".join(lines))
                local_rules.append(name)
                own.append(name)
                self.feat.add("rule")
            elif k == 3 and depth == 0 or (k == 3 and r.chance(1, 2)):
                pname = b"pool%d" % (len(self.pools) + 1)
                out.append(b"pool " + pname + b"\n  depth = %d\n" % (1 + r.below(9)))
                self.pools.append(pname)
                self.feat.add("pool")
            elif k < 9:
                # build
                rules = local_rules + [x for x in scope_rules if x not in local_rules]
                rule = r.choice(rules) if not r.chance(1, 8) else b"phony"
                if rule not in rules:
                    rule = r.choice(rules)
                if rule in scope_rules and rule not in local_rules and depth > 0:
                    self.feat.add("inherited-rule")
                nouts = 1 + (1 if r.chance(1, 5) else 0)
                outs = [self.fresh_out() for _ in range(nouts)]
                exp = [self.some_input() for _ in range(r.below(4))]
                imp = [self.some_input() for _ in range(r.below(2))]
                oo = [self.some_input() for _ in range(r.below(2))]
                seen = set()
                exp = [p for p in exp if not (p in seen or seen.add(p))]
                imp = [p for p in imp if not (p in seen or seen.add(p))]
                oo = [p for p in oo if not (p in seen or seen.add(p))]

                def w(p):
                    # sometimes spell a prefix through a file-level variable
                    if p.startswith(b"obj/") and b"builddir_obj" in scope_vars and r.chance(1, 2):
                        self.feat.add("var-in-path")
                        return b"$builddir_obj/" + esc_path(p[4:])
                    return esc_path(p)
                line = b"build " + b" ".join(w(p) for p in outs) + b": " + rule
                if exp:
                    line += b" " + b" ".join(w(p) for p in exp)
                if imp:
                    line += b" | " + b" ".join(w(p) for p in imp)
                    self.feat.add("implicit-input")
                if oo:
                    line += b" || " + b" ".join(w(p) for p in oo)
                    self.feat.add("order-only-input")
                line += b"\n"
                for _ in range(r.below(3)):
                    bn = r.choice([b"extra", b"flags", b"description", b"cflags"])
                    if bn == b"cflags":
                        self.feat.add("build-shadows-file-var")
                    line += b"  " + bn + b" = " + self.value(scope_vars) + b"\n"
                    self.feat.add("build-binding")
                out.append(line)
                self.outputs.extend(outs)
                self.edges.append(outs[0])
                built = True
                self.feat.add("build")
            elif k == 9 and not built and b"builddir_obj" not in scope_vars:
                out.append(b"builddir_obj = obj\n")
                scope_vars.append(b"builddir_obj")
            elif k == 9:
                # a binding after a build statement: only a name no rule ever reads (carve-out)
                self.nvar += 1
                name = b"late%d" % self.nvar
                out.append(name + b" = " + self.value(scope_vars) + b"\n")
                self.feat.add("late-binding")
            elif k == 10 and depth < 2 and self.nfile < 4:
                self.nfile += 1
                inc = r.chance(1, 2)
                fname = (b"inc%d.ninja" if inc else b"sub dir/sub%d.ninja") % self.nfile
                if inc:
                    for n in local_rules:
                        if n not in scope_rules:
                            scope_rules.append(n)
                    text, b2 = self.gen_file(depth, scope_vars, scope_rules, built, own)
                    # an included file shares the scope: rules and variables it declares stay visible
                    self.feat.add("include")
                    out.append(b"include " + esc_path(fname) + b"\n")
                else:
                    text, b2 = self.gen_file(depth + 1, list(scope_vars), list(local_rules + [x for x in scope_rules if x not in local_rules]), False)
                    self.feat.add("subninja")
                    out.append(b"subninja " + esc_path(fname) + b"\n")
                self.files[fname] = text
                built = built or b2
            elif self.outputs and r.chance(1, 2):
                out.append(b"default " + b" ".join(esc_path(p) for p in [r.choice(self.outputs)]) + b"\n")
                self.feat.add("default")
        # rules declared by an included file stay visible to the includer
        for n in local_rules:
            if n not in scope_rules:
                scope_rules.append(n)
        return b"".join(out), built


def gen_valid(rng, idx):
    g = Gen(rng, idx)
    text, _ = g.gen_file(0, [], [b"phony"])
    if not g.edges:
        text += b"rule rz\n  command = z $in\nbuild zz.o: rz a.c\n"
        g.edges.append(b"zz.o")
        g.outputs.append(b"zz.o")
        g.sources.append(b"a.c")
    files = [(b"build.ninja", text)] + sorted(g.files.items())
    return {"files": files, "edges": g.edges, "sources": list(g.sources), "feat": sorted(g.feat), "kind": "valid"}


DIRECTED_VALID = [
    # F15: a subninja file uses a rule of the enclosing file, and phony
    ("f15", [(b"build.ninja", b"rule cc\n  command = cc $in -o $out\nv = 1\nsubninja sub.ninja\n"),
             (b"sub.ninja", b"build s.o: cc s.c\nbuild all: phony s.o\nrule cc\n  command = local $in\nbuild t.o: cc t.c\n")],
     [b"s.o", b"all", b"t.o"], [b"s.c", b"t.c"]),
    # F21: $in/$out are shell-quoted in description and rspfile_content, not in depfile/rspfile
    ("f21", [(b"build.ninja", b"rule cc\n  command = cc @$out.rsp\n  description = CC $in $out\n  depfile = $out.d\n"
                              b"  rspfile = $out.rsp\n  rspfile_content = $in\nbuild a$ b.o: cc x$ y.c z.c\n")],
     [b"a b.o"], [b"x y.c", b"z.c"]),
    # the quoting mode belongs to the parameter being computed and is inherited by nested rule variables
    ("nested-quoting", [(b"build.ninja", b"rule cc\n  command = cc -MF $depfile @$rspfile -o $out $in\n  description = CC $depfile\n  depfile = $out.d\n"
                                         b"  rspfile = $out.rsp\n  rspfile_content = $in $rspfile\nbuild obj/my$ file.o: cc a$ b.c\n")],
     [b"obj/my file.o"], [b"a b.c"]),
    # an empty re-binding in a subninja scope shadows the parent's non-empty value
    ("empty-shadow", [(b"build.ninja", b"flags = -O2 -DPARENT\ntag = parent\nrule cc\n  command = cc $flags -c $in -o $out\n  description = CC[$tag]\n"
                                       b"build top.o: cc top.c\nsubninja child.ninja\n"),
                      (b"child.ninja", b"flags =\ntag =\nbuild child.o: cc child.c\n")],
     [b"top.o", b"child.o"], [b"top.c", b"child.c"]),
    # F22: default targets are path strings
    ("f22", [(b"build.ninja", b"rule cc\n  command = cc $in -o $out\nd = obj\nbuild $d/a$ b.o: cc x.c\ndefault $d/a$ b.o\n")],
     [b"obj/a b.o"], [b"x.c"]),
    # scoping: build over rule over file; lazy rule variables; include shares, subninja nests
    ("scope", [(b"build.ninja", b"rule cc\n  command = cc $cflags $extra $in -o $out\n  description = rule-level $x\n"
                                b"cflags = -O1\nx = file\ninclude i.ninja\nbuild a.o: cc a.c\n  extra = $cflags-build\n"
                                b"build b.o: cc b.c\n  description = build-level $x\n  cflags = -O3\nsubninja s.ninja\nbuild c.o: cc2 c.c\n"),
               (b"i.ninja", b"y = from-include\nrule cc2\n  command = cc2 $y $in\n"),
               (b"s.ninja", b"cflags = -Os\nx = sub\nbuild d.o: cc d.c\nbuild e.o: cc2 e.c\n")],
     [b"a.o", b"b.o", b"d.o", b"e.o", b"c.o"], [b"a.c", b"b.c", b"c.c", b"d.c", b"e.c"]),
]

MALFORMED = [
    b"rule r\n  command = $command\nbuild o: r i\n",                                   # F14
    b"rule r\n  command = a $description\n  description = b $command\nbuild o: r i\n",  # F14, two-step cycle
    b"rule r\n  command = c\n  depfile = $depfile.d\nbuild o: r i\n",
    b"build o: nosuchrule i\n",
    b"rule r\n  description = no command\nbuild o: r i\n",
    b"rule r\n  command = c\nrule r\n  command = d\nbuild o: r i\n",
    b"rule r\n  command = c\n  bogus = 1\nbuild o: r i\n",
    b"rule r\n  command = c ${unterminated\nbuild o: r i\n",
    b"rule r\n  command = c $? x\nbuild o: r i\n",
    b"x = a$\n",
    b"x = ${bad name}\ny = $x\n",
    b"rule r\n  command = c\n  pool = nopool\nbuild o: r i\n",
    b"pool p\n  depth = 0\npool q\n  depth = x\npool q\n  depth = 2\n  width = 3\npool big\n  depth = 4294967297\npool e\n",
    b"rule r\n  command = c\n  deps = weird\nbuild o: r i\n",
    b"rule r\n  command = c\n  deps = msvc\n  depfile = d\nbuild o: r i\n",
    b"rule r\n  command = c\n  deps = gcc\nbuild o: r i\n",
    b"include missing.ninja\nsubninja missing2.ninja\n",
    b"default nothing\n",
    b"e =\nrule r\n  command = c\nbuild $e: r $e\n",
    b"rule r\n  command = c $in\nbuild o: r ./i sub/../i i\nbuild p: r i\n",                # several spellings of one file
    b"rule r\n  command = c\nbuild o r\nbuild: r\nfoo\n= 3\nbuild p: r i\n  =\n",           # parser errors
    b"rule phony\n  command = x\nbuild o: phony i\n",
    b"rule r\n  command = c $in\n  rspfile = /abs/../r.rsp\n  rspfile_content = $in_newline\nbuild o: r a b\n",
    # rule-variable cycles that do NOT pass through the parameter the expansion starts from (seeded change C19-8)
    b"rule cc\n  command = cc @$rspfile\n  rspfile = $rspfile_content.rsp\n  rspfile_content = $rspfile\nbuild o: cc i\n",
    b"rule r\n  command = c\n  depfile = x$description\n  description = y$depfile\nbuild o: r i\n",
    b"rule r\n  command = a $description\n  description = b $rspfile\n  rspfile = c$rspfile_content\n  rspfile_content = d $description\nbuild o: r i\n",
]


def gen_malformed(rng, idx):
    if idx < len(MALFORMED):
        return {"files": [(b"build.ninja", MALFORMED[idx])], "kind": "malformed", "feat": ["fixed-%d" % idx]}
    # mutate a valid manifest: drop / duplicate / corrupt lines
    v = gen_valid(rng, idx)
    files = []
    for name, text in v["files"]:
        lines = text.split(b"\n")
        for _ in range(1 + rng.below(3)):
            if not lines:
                break
            i = rng.below(len(lines))
            k = rng.below(6)
            if k == 0:
                del lines[i]
            elif k == 1:
                lines.insert(i, lines[i])
            elif k == 2:
                lines[i] = lines[i].replace(b"$", b"$?", 1)
            elif k == 3:
                lines[i] = lines[i].replace(b"command", b"description", 1)
            elif k == 4:
                lines[i] = lines[i].replace(b"}", b"", 1)
            else:
                lines[i] = lines[i] + b" $"
        files.append((name, b"\n".join(lines)))
    return {"files": files, "kind": "malformed", "feat": ["mutated"]}


# ------------------------------------------------------------------------------------------------
def case_line(case):
    return "wd:%s " % hx(WD) + " ".join("file:%s:%s" % (hx(WD + b"/" + n), hx(t)) for n, t in case["files"])


def parse_manifest_line(line):
    """canonical manifest line -> dict (python side of the oracle)"""
    if not line.startswith("errs="):
        return None
    parts = line.split(" | ")
    head = dict(kv.split("=", 1) for kv in parts[0].split(" "))
    cmds = []
    for p in parts[1:]:
        d = dict(kv.split("=", 1) for kv in p.split(" "))
        cmds.append(d)
    return {"errs": [] if head["errs"] == "." else head["errs"].split(","), "pools": head["pools"],
            "defaults": head["defaults"], "cmds": cmds}


def unhexlist(s):
    return [] if s in (".", "") else [C.unhex(x) for x in s.split(",")]


def shwords(s):
    try:
        return shlex.split(s.decode("latin1"), posix=True)
    except ValueError:
        return None


# ------------------------------------------------------------------------------------------------
# parser stream: byte-level mutations of valid manifests, trace oracle
# ------------------------------------------------------------------------------------------------
INSERTS = [b"build ", b"rule ", b"pool ", b"default ", b"include ", b"subninja ", b"build", b"rule", b"|", b"||", b" | ", b" || ", b":", b": ",
           b"=", b" = ", b"\n", b"\r\n", b"\r", b"\n\n", b"  ", b" ", b"\t", b"\n  ", b"$\n", b"$\r\n", b" $\n  ", b"$", b"$ ", b"$:", b"#", b" # c",
           b"\x00", b"\xff", b"\x80", b"\x0b", b"\x0c"]


def mutate_bytes(rng, data):
    """1-3 byte-level edits: truncate, flip, delete a range, insert keywords / punctuation / newlines / indentation / $-newline"""
    kinds = []
    for _ in range(1 + rng.below(3)):
        k = rng.below(10)
        n = len(data)
        if k == 0:
            data = data[:rng.below(n + 1)]
            kinds.append("truncate")
        elif k == 1 and n:
            i = rng.below(n)
            data = data[:i] + bytes([rng.choice([0, 9, 10, 13, 32, 35, 36, 58, 61, 124, 255, rng.below(256)])]) + data[i + 1:]
            kinds.append("flip")
        elif k == 2 and n:
            i = rng.below(n)
            data = data[:i] + data[i + 1 + rng.below(6):]
            kinds.append("delete")
        elif k == 3 and n:
            # join two lines / split one: replace a newline by a blank or a blank by a newline
            idx = [j for j, c in enumerate(data) if c in (10, 32)]
            if idx:
                i = rng.choice(idx)
                data = data[:i] + (b" " if data[i] == 10 else b"\n") + data[i + 1:]
            kinds.append("newline-swap")
        else:
            i = rng.below(n + 1)
            # prefer structurally interesting places: line starts and token boundaries
            if n and rng.chance(1, 2):
                idx = [j + 1 for j, c in enumerate(data) if c in (10, 32, 58)]
                if idx:
                    i = rng.choice(idx)
            data = data[:i] + rng.choice(INSERTS) + data[i:]
            kinds.append("insert")
    return data, kinds


ITEM_NAMES = {"bm": "actOnBeginManifest", "em": "actOnEndManifest", "x": "error", "b": "actOnBindingDecl", "d": "actOnDefaultDecl",
              "i": "actOnIncludeDecl(include)", "s": "actOnIncludeDecl(subninja)", "B": "actOnBeginBuildDecl", "P": "actOnBeginPoolDecl",
              "R": "actOnBeginRuleDecl", "pb": "actOnBuildBindingDecl", "pp": "actOnPoolBindingDecl", "pr": "actOnRuleBindingDecl",
              "eb": "actOnEndBuildDecl", "ep": "actOnEndPoolDecl", "er": "actOnEndRuleDecl"}


def trace_tokens(fields):
    for f in fields:
        if f in (".", "") or "/" not in f:
            continue
        for t in f.split(","):
            yield t.split("/")


def check_trace(line, size):
    """The property itself on the REAL parser's callback trace (independent of the Lean model): returns (problem or None,
    item tags, error messages).  Exactly one BeginManifest, first; one EndManifest, last; every Begin*Decl closed by the End of
    the same kind before anything but its bindings / errors; every token inside the buffer; split indices within the inputs."""
    if not line.startswith("ok"):
        return "no trace: " + line[:200], [], []
    items = line.split(" ")[1:]
    tags, msgs = [], []
    open_kind = None
    for n, it in enumerate(items):
        f = it.split(":")
        tag = f[0]
        tags.append(tag)
        if tag not in ITEM_NAMES:
            return "unknown item " + it[:60], tags, msgs
        if (tag == "bm") != (n == 0):
            return "actOnBeginManifest is not exactly the first callback", tags, msgs
        if (tag == "em") != (n == len(items) - 1):
            return "actOnEndManifest is not exactly the last callback", tags, msgs
        for t in trace_tokens(f[1:] if tag != "x" else f[2:]):
            if len(t) != 5 or int(t[1]) < 0 or int(t[1]) + int(t[2]) > size:
                return "token outside the buffer: " + "/".join(t), tags, msgs
        if tag == "x":
            msgs.append(C.unhex(f[1]).decode("latin1"))
        elif tag in ("B", "P", "R"):
            if open_kind is not None:
                return "Begin inside an open declaration", tags, msgs
            open_kind = {"B": "b", "P": "p", "R": "r"}[tag]
            if tag == "B":
                nins = 0 if f[5] == "." else len(f[5].split(","))
                if int(f[2]) + int(f[3]) > nins or f[4] == ".":
                    return "build declaration with split indices beyond its inputs or without outputs", tags, msgs
        elif tag in ("pb", "pp", "pr"):
            if open_kind != tag[1]:
                return "binding callback outside its declaration", tags, msgs
        elif tag in ("eb", "ep", "er"):
            if open_kind != tag[1]:
                return "End without matching Begin", tags, msgs
            open_kind = None
        elif tag in ("b", "d", "i", "s", "em") and open_kind is not None:
            return "top-level callback inside an open declaration", tags, msgs
    if not items or open_kind is not None:
        return "unterminated declaration / empty trace", tags, msgs
    return None, tags, msgs


# ------------------------------------------------------------------------------------------------
# printer tie: declaration lists -> Lean printer (NinjaPrint.render) -> REAL parser -> the same declaration list
# ------------------------------------------------------------------------------------------------
def trace_to_items(trace_line, data):
    """the callback trace of harness mode c17parse, as declaration-stream items in the format of mode c17decls
    (token texts = the substrings of `data` the tokens cover)"""
    def T(t):
        k, st, ln, _, _ = t.split("/")
        return hx(data[int(st):int(st) + int(ln)])

    def TL(l):
        return "." if l == "." else ",".join(T(t) for t in l.split(","))
    items = []
    for it in trace_line.split(" ")[1:]:
        f = it.split(":")
        tag = f[0]
        if tag in ("bm", "em"):
            continue
        if tag == "x":
            items.append("x")
        elif tag == "b":
            items.append("b:%s:%s" % (T(f[1]), T(f[2])))
        elif tag == "d":
            items.append("d:" + TL(f[1]))
        elif tag in ("i", "s"):
            items.append(tag + ":" + T(f[1]))
        elif tag == "B":
            items.append("B:%s:%s:%s:%s:%s" % (T(f[1]), f[2], f[3], TL(f[4]), TL(f[5])))
        elif tag in ("pb", "pp", "pr"):
            items.append("p:%s:%s" % (T(f[1]), T(f[2])))
        elif tag in ("eb", "ep", "er"):
            items.append("e")
        elif tag == "P":
            items.append("P:" + T(f[1]))
        elif tag == "R":
            items.append("r:" + T(f[1]))
        else:
            items.append("?" + it)
    return items


def split_decl_line(line):
    """'wd:.. file:<hex> items.. file:<hex> items..' -> [(path-hex, [items])]"""
    out = []
    for tok in line.split(" "):
        if tok.startswith("file:"):
            out.append((tok[5:], []))
        elif tok and not tok.startswith("wd:") and out:
            out[-1][1].append(tok)
    return out


PATH_BITS = [b"a", b"b.c", b"o", b"/", b"dir/", b"$ ", b"$:", b"$$", b"#", b"=", b"\xff", b"\x00", b"\x80x", b"${v}", b"$v", b"build", b"rule", b"-", b"'", b'"', b"\\",
             b"$x", b"@", b"~", b";", b"&", b"(", b"*"]
VALUE_BITS = [b"cc", b" ", b" ", b"$in", b"-o", b"$out", b"#c", b"$ ", b"\xfe", b"=", b":", b"|", b"||", b"'q'", b"$$", b"${x.y}", b"\t", b"\x00", b"rule", b"$:"]
NAME_BITS = [b"x", b"cflags", b"a.b-c_1", b"build", b"rule", b"pool", b"default", b"include", b"subninja", b"command", b"depth", b"X9", b"_", b"-", b"."]


def gen_decl_items(rng):
    """a random declaration list in the item format of harness mode c17decls; mostly printable, sometimes deliberately not
    (raw blank / `|` / newline in a path, leading blank or `$` at the end of a value, keyword as top-level name, empty lists)"""
    def path():
        p = b"".join(rng.choice(PATH_BITS) for _ in range(1 + rng.below(4)))
        if rng.chance(1, 25):
            p += rng.choice([b" ", b"|", b":", b"\n", b"$", b"\t", b""])
        return p

    def value():
        v = b"".join(rng.choice(VALUE_BITS) for _ in range(1 + rng.below(6)))
        if rng.chance(9, 10):
            v = v.lstrip(b" \t") or b"v"
        if rng.chance(1, 25):
            v += rng.choice([b"$", b"\r", b"$\n x"])
        return v

    def name(top):
        n = rng.choice(NAME_BITS)
        if top and n in (b"build", b"rule", b"pool", b"default", b"include", b"subninja") and rng.chance(9, 10):
            n += b"2"
        return n

    def hl(l):
        return "." if not l else ",".join(hx(x) for x in l)
    items = []
    for _ in range(1 + rng.below(6)):
        k = rng.below(8)
        binds = ["p:%s:%s" % (hx(name(False)), hx(value())) for _ in range(rng.below(3))]
        if k == 0:
            items.append("b:%s:%s" % (hx(name(True)), hx(value())))
        elif k == 1:
            items += ["r:" + hx(name(False))] + binds + ["e"]
        elif k == 2:
            items += ["P:" + hx(name(False))] + binds + ["e"]
        elif k in (3, 4, 5):
            outs = [path() for _ in range(1 + rng.below(2))] if rng.chance(19, 20) else []
            ins = [path() for _ in range(rng.below(5))]
            a = rng.below(len(ins) + 1)
            c = rng.below(len(ins) - a + 1)
            if rng.chance(1, 30):
                c = len(ins) + 1
            items += ["B:%s:%d:%d:%s:%s" % (hx(name(False)), a, c, hl(outs), hl(ins))] + binds + ["e"]
        elif k == 6:
            items.append("d:" + hl([path() for _ in range(rng.below(3) if rng.chance(1, 10) else 1 + rng.below(3))]))
        else:
            items.append(rng.choice(["i:", "s:"]) + hx(path()))
    return items


# theorems of lean/LLBuild/Props/C17Parse.lean (the parser between the two halves); audited by c17.py / c19.py
PARSER_C17_THEOREMS = ["LLBuild.NinjaParser." + t for t in [
    "C17_parser_build_shape", "C17_parser_rule_shape", "C17_parser_pool_shape", "C17_parser_binding_shape",
    "C17_parser_binding_shape_empty", "C17_parser_include_shape", "C17_parser_default_shape", "C17_keywords_only_at_statement_start", "C17_pipeline_agrees"]] + \
    ["LLBuild.NinjaPrint." + t for t in [
        "C17_lex_printed_token", "C17_lex_printed_line", "C17_escPath_roundtrip", "C17_print_parse_statement", "C17_print_parse_roundtrip",
        "C17_manifest_text_means_spec"]]
PARSER_C19_THEOREMS = ["LLBuild.NinjaParser." + t for t in [
    "C19_ninja_parser_total", "C19_ninja_parser_no_oob", "C19_ninja_parser_terminates", "C19_ninja_parser_reports_via_callbacks"]]


class Check(PropertyCheck):
    prop = "C17LOAD"
    module = "LLBuild.Props.C17Load"
    theorems = ["LLBuild.NinjaLoader." + t for t in [
        "C17_eval_agrees", "C17_eval_agrees_on_fragment", "C17_evalString_agrees", "C17_escape_char", "C17_escape_newline",
        "C17_literal", "C17_braced_ref", "C17_simple_ref_eq_braced", "C17_in_is_explicit_inputs", "C17_out_is_outputs",
        "C17_quoting_policy", "C17_build_over_rule", "C17_rule_over_file_lazy", "C17_rule_text_stored_raw",
        "C17_file_level_last", "C17_include_shares_scope", "C17_subninja_restores_scope", "C17_subninja_child_sees_parent",
        "F15_asFound_rules_not_inherited", "F15_witness", "F15_witness_in_fragment", "C17_eval_agrees_asFound_false",
        "C19_loader_total", "F14_witness", "C19_loader_total_asFound_false"]]
    extractors = ["x_ninjaloader"]
    harnesses = [("vc17load", "plain")]
    assumptions = [
        "hand model of ManifestLoaderImpl (parser actions, evalString, scopes, lookupBuildParameterImpl, node table, normalize_path, shellEscaped) tied by differential correspondence on the real Parser's declaration stream; the lexer and parser are outside this check (C17LEX)",
        "the reference semantics (Model/NinjaSpec.lean) is validated against the installed ninja 1.11 on every run for command (-t commands -s), description (-n), inputs/outputs (-t query); depfile and rspfile are evaluated by the same rule and are not observed on ninja",
        "carve-outs of the generator: no file-level variable is (re)bound after a build statement that can read it through a rule variable (the property's own); a build line does not reference a variable bound in its own block (Ninja evaluates those paths in the block's scope, the manual is silent); one spelling per file (Ninja canonicalises ./ and .., llbuild keeps the first spelling); no include cycles (both llbuild and ninja overflow their stacks)",
        "working directory is absolute (normalize_path cannot fail)",
    ]
    trusted_base = ["extractor x_ninjaloader (parameter-name list, identifier classes, $-escape set, built-in names, quoting policy, lookup order, shell whitelist)",
                    "harness vc17load (printing ParseActions; ManifestLoader in a forked child)", "installed ninja binary as reference implementation",
                    "python comparison code in vlib/props/c17load.py"]

    # ---------------------------------------------------------------------------------------
    def model_cmd(self, mode):
        exe = C.model_exe()
        if os.path.exists(exe):
            p = subprocess.run([exe, mode], input=b"", stdout=subprocess.PIPE, stderr=subprocess.PIPE)
            if p.returncode == 0:
                return [exe, mode]
        priv = os.path.join(C.LEAN, "DriverC17LOAD.lean")
        if os.path.exists(priv):
            return ["lake", "env", "lean", "--run", priv, mode]
        return None

    def run_model(self, mode, lines):
        cmd = self.model_cmd(mode)
        if cmd is None:
            return 2, [], "model driver lacks mode %s (add the two lines of notes/C17LOAD.md §6 to lean/Driver.lean)" % mode
        data = ("\n".join(lines) + "\n").encode()
        p = subprocess.run(cmd, input=data, stdout=subprocess.PIPE, stderr=subprocess.PIPE, cwd=C.LEAN)
        out = p.stdout.decode().split("\n")
        if out and out[-1] == "":
            out.pop()
        return p.returncode, out, p.stderr.decode()[-500:]

    # ---------------------------------------------------------------------------------------
    def ninja_observe(self, case, scratch):
        """what the installed ninja says about each build statement: command, description, inputs/outputs"""
        d = os.path.join(scratch, "nj")
        shutil.rmtree(d, ignore_errors=True)
        os.makedirs(d)
        try:
            for name, text in case["files"]:
                p = os.path.join(d.encode(), name)
                os.makedirs(os.path.dirname(p), exist_ok=True)
                with open(p, "wb") as f:
                    f.write(text)
            for s in case["sources"]:
                p = os.path.join(d.encode(), s)
                os.makedirs(os.path.dirname(p), exist_ok=True)
                open(p, "wb").close()
            res = []
            env = dict(os.environ, NINJA_STATUS="[%s/%t] ", TERM="dumb")
            for out in case["edges"]:
                r = {}
                p = subprocess.run([b"ninja", b"-t", b"commands", b"-s", out], cwd=d, stdout=subprocess.PIPE, stderr=subprocess.PIPE, env=env)
                if p.returncode != 0:
                    return {"error": p.stdout.decode("latin1")[-300:] + p.stderr.decode("latin1")[-300:]}
                r["cmd"] = p.stdout[:-1] if p.stdout.endswith(b"\n") else p.stdout
                p = subprocess.run([b"ninja", b"-t", b"query", out], cwd=d, stdout=subprocess.PIPE, stderr=subprocess.PIPE, env=env)
                if p.returncode != 0:
                    return {"error": "query: " + p.stderr.decode("latin1")[-300:]}
                ins, mode = {"exp": [], "imp": [], "oo": []}, None
                rule = None
                for ln in p.stdout.split(b"\n"):
                    if ln.startswith(b"  input: "):
                        rule, mode = ln[9:], "in"
                    elif ln.startswith(b"  outputs:"):
                        mode = "out"
                    elif mode == "in" and ln.startswith(b"    "):
                        t = ln[4:]
                        if t.startswith(b"|| "):
                            ins["oo"].append(t[3:])
                        elif t.startswith(b"| "):
                            ins["imp"].append(t[2:])
                        else:
                            ins["exp"].append(t)
                r["rule"], r["ins"] = rule, ins
                p = subprocess.run([b"ninja", b"-n", out], cwd=d, stdout=subprocess.PIPE, stderr=subprocess.PIPE, env=env)
                m = re.findall(rb"^\[\d+/\d+\] (.*)$", p.stdout, re.M)
                r["desc"] = m[-1] if (p.returncode == 0 and m) else None
                res.append(r)
            return {"edges": res}
        finally:
            shutil.rmtree(d, ignore_errors=True)

    # ---------------------------------------------------------------------------------------
    def correspond_parser(self, ctx, res, cases, lines, real, exe, decls=None):
        """stream `parser`: real Parser callbacks == Lean parser model (over the Lean lexer model), and the pure-Lean pipeline
        (mode c17full) == real ManifestLoader.  Draws from its own generator stream, so the other streams are unchanged."""
        from . import c11
        rng = C.Rng(ctx.seed, "C17/parser")
        replay = bool(getattr(ctx, "replay_path", None))
        inputs = []                                   # (bytes, stream)
        seen = set()

        def add(data, stream):
            if (data, stream) not in seen:
                seen.add((data, stream))
                inputs.append((data, stream))
        valid_texts = []
        for c in cases:
            for _, t in c["files"]:
                add(t, "valid" if c["kind"] == "valid" else "malformed")
                if c["kind"] == "valid":
                    valid_texts.append(t)
        if not replay:
            for t in [b"", b"\n", b" ", b"build", b"build ", b"build a", b"build a:", b"build a: r", b"build a: r |", b"build a: r ||\n", b"build a: r | b || c | d\n",
                      b"rule", b"rule r", b"rule r x\n  command = c\nbuild a: r\n", b"pool\n", b"pool p p\n", b"default\n", b"default a b\n", b"default a |\n",
                      b"include\n", b"include a b\n", b"subninja a\nsubninja", b"a\n", b"a =", b"a = b", b"a =\n", b"a = \n", b"a b = c\n", b"=\n", b":\n", b"|\n",
                      b"rule r\n  command = c\n\n  description = d\n \n\t\nbuild a: r\n  x\n  y = \n  = z\n  build = 1\n  rule\n", b"build a: build\n", b"build rule: rule rule\n",
                      b"rule build\n  pool = default\n", b"pool rule\n  depth = 1\n", b"default build rule\n", b"include subninja\n", b"build a$\n b: r$\n c\n", b"a = b $\n  c\n",
                      b"# c\nrule r # x\n  command = c # y\n# z\nbuild a: r # q\n", b"rule r\r\n  command = c\r\nbuild a: r\r\n", b"rule r\r  command = c\rbuild a: r\r",
                      b"  indented = 1\nx = 2\n", b"build a: r\n  x = 1\ny = 2\n  z = 3\n", b"build : r\n  x = 1\n  y = 2\nz = 3\n", b"build a r\n  x = 1\n\n  y = 2\n",
                      b"\xff\xfe = \x80\n", b"build \xff: r\xff \x80\n", b"rule r\x00\n", b"x = $", b"build a: r $", b"$\nbuild a: r\n", b"x $\n = 1\n"]:
                add(t, "directed")
            nmut = 30000 if ctx.thorough else 2500
            for i in range(nmut):
                base = rng.choice(valid_texts) if valid_texts else b"rule r\n  command = c\nbuild a: r b\n"
                m, kinds = mutate_bytes(rng, base)
                add(m, "mutated")
            for i in range(3000 if ctx.thorough else 300):
                # token soup: statement fragments in random order
                parts = [rng.choice([b"build", b"rule", b"pool", b"default", b"include", b"subninja", b"a", b"b.c", b"$x", b"${y}", b":", b"|", b"||", b"=", b"\n", b"\n", b"\n  ",
                                     b" ", b" ", b"  ", b"$\n", b"#", b"$ ", b"$:", b"\r\n", b"\xc3\xa9"]) for _ in range(1 + rng.below(24))]
                add((b" " if rng.chance(1, 2) else b"").join(parts), "soup")
        plines = [hx(d) for d, _ in inputs]
        hout, restarts = c11.run_attributed([exe, "c17parse"], plines, watchdog=600)
        mrc, mout, merr = self.run_model("c17parse", plines)
        model_ok = mrc == 0 and len(mout) == len(plines)
        if ctx.model_ok and not model_ok:
            res.mismatches.append({"stream": "parser", "input": "model driver (mode c17parse) exit %d, %d of %d lines" % (mrc, len(mout), len(plines)), "model": merr[-400:]})
        by_stream, item_counts, msg_manifests, msg_counts = {}, {}, {}, {}
        n_err_manifests = 0
        compared_items = 0
        nontrivial = set()
        for i, ((data, stream), h) in enumerate(zip(inputs, hout)):
            by_stream[stream] = by_stream.get(stream, 0) + 1
            finp = {"files": [["build.ninja", data.decode("latin1")]], "files_hex": [[b"build.ninja".hex(), data.hex()]], "kind": "malformed",
                    "edges_hex": [], "sources_hex": [], "hex": hx(data)}
            if h.startswith(("ABORT", "HANG")):
                res.oracle_failures.append({"what": "the real Ninja Parser did not return on a %d-byte manifest (%s): parsing must terminate, stay inside the buffer and report "
                                                    "problems through the error callback" % (len(data), h[:300]),
                                            "kind": "crash", "oracle": "parser-crash", "signal": h[:120], "recursive_rule_variable": False, "input": finp})
                continue
            prob, tags, msgs = check_trace(h, len(data))
            if prob is not None:
                res.oracle_failures.append({"what": "the real Ninja Parser's callback sequence breaks its protocol: " + prob, "kind": "parser-protocol",
                                            "oracle": "parser-protocol", "input": finp, "impl": h[:600]})
            for t in tags:
                item_counts[ITEM_NAMES.get(t, t)] = item_counts.get(ITEM_NAMES.get(t, t), 0) + 1
            compared_items += len(tags)
            for m in msgs:
                msg_counts[m] = msg_counts.get(m, 0) + 1
            for m in set(msgs):
                msg_manifests[m] = msg_manifests.get(m, 0) + 1
            if msgs:
                n_err_manifests += 1
            nontrivial.add((tuple(sorted(set(tags))), tuple(sorted(set(msgs)))))
            if model_ok and mout[i] != h and len([m for m in res.mismatches if m.get("stream") == "parser"]) < 10:
                a, b = mout[i].split(" "), h.split(" ")
                k = next((j for j, (x, y) in enumerate(zip(a, b)) if x != y), min(len(a), len(b)))
                res.mismatches.append({"stream": "parser", "input": finp, "model": "item %d: %s" % (k, " ".join(a[k:k + 3])[:300]),
                                       "impl": "item %d: %s" % (k, " ".join(b[k:k + 3])[:300])})
                if os.environ.get("C17LOAD_DEBUG"):
                    C.log("PARSER MISMATCH", repr(data), "\nMODEL", mout[i], "\nREAL ", h)
        # pure-Lean pipeline (bytes -> lexer -> parser -> loader) against the real loader, on the case stream
        frc, full, ferr = self.run_model("c17full", lines)
        full_ok = frc == 0 and len(full) == len(lines)
        if ctx.model_ok and not full_ok:
            res.mismatches.append({"stream": "parser-pipeline", "input": "model driver (mode c17full) exit %d, %d of %d lines" % (frc, len(full), len(lines)), "model": ferr[-400:]})
        npipe = 0
        if full_ok:
            for c, r, m in zip(cases, real, full):
                if r.startswith("CRASH") or r == "no-manifest":
                    continue
                npipe += 1
                if m != r and len([x for x in res.mismatches if x.get("stream") == "parser-pipeline"]) < 10:
                    mf, rf = m.split(" "), r.split(" ")
                    diff = [(a, b) for a, b in zip(mf, rf) if a != b][:4]
                    res.mismatches.append({"stream": "parser-pipeline", "input": {"files": [[n.decode("latin1"), t.decode("latin1")] for n, t in c["files"]],
                                                                                  "files_hex": [[n.hex(), t.hex()] for n, t in c["files"]], "kind": c["kind"]},
                                           "model": repr(diff)[:300] if diff else m[-200:], "impl": r[:100] if not diff else ""})
        # printer tie: every declaration list (those the REAL parser printed for the generated manifests, plus random ones) goes through the
        # Lean printer (driver mode c17render = NinjaPrint.render, or U when not Printable); the printed bytes go to the REAL parser; its
        # callbacks, read as a declaration stream, must be the list that was printed, with no error callback
        render = {"lists": 0, "printable": 0, "unprintable": 0, "statements_compared": 0, "printed_bytes": 0, "disagreements": 0, "by_source": {}}
        dlines = []
        for c, dl in zip(cases, decls or []):
            if dl.startswith("wd:"):
                dlines.append((dl, "generated-" + c["kind"]))
        if not replay:
            for i in range(6000 if ctx.thorough else 600):
                dlines.append(("wd:%s file:%s %s" % (hx(WD), hx(WD + b"/r.ninja"), " ".join(gen_decl_items(rng))), "random-lists"))
        rrc, rout, rerr = self.run_model("c17render", [d for d, _ in dlines])
        if ctx.model_ok and not (rrc == 0 and len(rout) == len(dlines)):
            res.mismatches.append({"stream": "render", "input": "model driver (mode c17render) exit %d, %d of %d lines" % (rrc, len(rout), len(dlines)), "model": rerr[-400:]})
        elif rrc == 0:
            todo = []                                 # (rendered bytes, expected items, source)
            for (dl, src), ro in zip(dlines, rout):
                files = split_decl_line(dl)
                outs = [f.split(":") for f in ro.split(" ")[1:]] if ro.startswith("ok") else []
                if len(outs) != len(files):
                    res.mismatches.append({"stream": "render", "input": dl[:400], "model": ro[:200]})
                    continue
                for (ph, items), f in zip(files, outs):
                    render["lists"] += 1
                    if f[2] == "U":
                        render["unprintable"] += 1
                        continue
                    render["printable"] += 1
                    render["by_source"][src] = render["by_source"].get(src, 0) + 1
                    todo.append((C.unhex(f[2]), items, src))
            tout, trestarts = c11.run_attributed([exe, "c17parse"], [hx(d) for d, _, _ in todo], watchdog=600)
            for (data, items, src), h in zip(todo, tout):
                render["printed_bytes"] += len(data)
                got = trace_to_items(h, data) if h.startswith("ok") else ["<%s>" % h[:80]]
                render["statements_compared"] += len(items)
                if got != items:
                    render["disagreements"] += 1
                    if len([m for m in res.mismatches if m.get("stream") == "render"]) < 10:
                        k = next((j for j, (x, y) in enumerate(zip(got, items)) if x != y), min(len(got), len(items)))
                        res.mismatches.append({"stream": "render", "input": {"files": [["build.ninja", data.decode("latin1")]], "files_hex": [[b"build.ninja".hex(), data.hex()]],
                                                                             "kind": "malformed", "printed_from": " ".join(items)[:600]},
                                               "model": "printed list, item %d: %s" % (k, " ".join(items[k:k + 2])[:300]),
                                               "impl": "real parser on the printed bytes, item %d: %s" % (k, " ".join(got[k:k + 2])[:300])})
        res.evaluations += len(inputs) + npipe + render["printable"]
        res.distinct_nontrivial += len(nontrivial)
        return {"render": render, "manifests": len(inputs), "by_stream": by_stream, "callbacks_compared": compared_items,
                "callbacks_by_kind": dict(sorted(item_counts.items())), "manifests_with_parse_errors": n_err_manifests,
                "error_callbacks_by_message": dict(sorted(msg_counts.items())), "manifests_by_error_message": dict(sorted(msg_manifests.items())),
                "distinct_callback_and_error_sets": len(nontrivial), "harness_restarts": restarts,
                "pipeline_manifests_compared_with_real_loader": npipe}

    # ---------------------------------------------------------------------------------------
    def correspond(self, ctx, res):
        rng = ctx.rng
        exe = ctx.exe[("vc17load", "plain")]
        scratch = os.path.join(C.BUILD, "scratch", "c17load-%d" % os.getpid())
        os.makedirs(scratch, exist_ok=True)
        cases = []
        if getattr(ctx, "replay_path", None):
            rp = json.load(open(ctx.replay_path))
            inp = rp.get("failure", {}).get("input", {})
            files = [(bytes.fromhex(n), bytes.fromhex(t)) for n, t in inp.get("files_hex", [])]
            cases.append({"files": files, "kind": inp.get("kind", "malformed"), "feat": ["replay"],
                          "edges": [bytes.fromhex(x) for x in inp.get("edges_hex", [])],
                          "sources": [bytes.fromhex(x) for x in inp.get("sources_hex", [])]})
        else:
            for tag, files, edges, sources in DIRECTED_VALID:
                cases.append({"files": files, "edges": edges, "sources": sources, "feat": ["directed-" + tag], "kind": "valid"})
            nvalid = 3000 if ctx.thorough else 400
            nmal = 600 if ctx.thorough else 120
            for i in range(nvalid):
                cases.append(gen_valid(rng, i))
            for i in range(nmal):
                cases.append(gen_malformed(rng, i))
        lines = [case_line(c) for c in cases]
        # real parser -> declaration stream ; real loader -> manifest
        rc1, decls, err1 = C.run_lines([exe, "c17decls"], lines)
        rc2, real, err2 = C.run_lines([exe, "c17load"], lines)
        if rc1 != 0 or rc2 != 0 or len(decls) != len(lines) or len(real) != len(lines):
            res.mismatches.append({"stream": "c17load", "input": "harness exit %d/%d, %d/%d of %d lines" % (rc1, rc2, len(decls), len(real), len(lines)),
                                   "impl": (err1 + err2)[-300:]})
            return
        out = {}

        def runm(mode):
            out[mode] = self.run_model(mode, decls)
        ts = [threading.Thread(target=runm, args=(m,)) for m in ("c17load", "c17spec", "c17spec_ninja")]
        [t.start() for t in ts]
        [t.join() for t in ts]
        mrc, model, merr = out["c17load"]
        src, spec, serr = out["c17spec"]
        nrc, specn, nerr = out["c17spec_ninja"]
        model_ok = mrc == 0 and len(model) == len(lines)
        spec_ok = src == 0 and len(spec) == len(lines) and nrc == 0 and len(specn) == len(lines)
        if ctx.model_ok and not (model_ok and spec_ok):
            res.mismatches.append({"stream": "c17load", "input": "model driver exit %d/%d/%d" % (mrc, src, nrc), "model": (merr + serr + nerr)[-400:]})
        feat = {}
        errkinds = {}
        nninja = 0
        ninja_budget = 1200 if ctx.thorough else 160
        spec_disagreements = 0
        spec_valid = 0
        spec_checked_edges = 0
        crashes = 0

        def inp(c):
            return {"files": [[n.decode("latin1"), t.decode("latin1")] for n, t in c["files"]], "kind": c["kind"],
                    "files_hex": [[n.hex(), t.hex()] for n, t in c["files"]],
                    "edges_hex": [e.hex() for e in c.get("edges", [])], "sources_hex": [s.hex() for s in c.get("sources", [])]}
        for i, c in enumerate(cases):
            for f in c["feat"]:
                feat[f] = feat.get(f, 0) + 1
            r = real[i]
            # (1) correspondence: loader model == real loader, verbatim
            if model_ok and model[i] != r and len(res.mismatches) < 20:
                mf, rf = model[i].split(" "), r.split(" ")
                diff = [(a, b) for a, b in zip(mf, rf) if a != b][:4]
                res.mismatches.append({"stream": "c17load", "input": {"files": inp(c)["files"]}, "model": repr(diff)[:300] if diff else model[i][-200:], "impl": r[:100] if not diff else ""})
                if os.environ.get("C17LOAD_DEBUG"):
                    C.log("MISMATCH", c["files"], "\nMODEL", model[i], "\nREAL ", r)
            # (2) C19: the loader must come back
            if r.startswith("CRASH") or r == "no-manifest":
                crashes += 1
                res.oracle_failures.append({"what": "the real ManifestLoader did not return on this manifest (%s): loading must terminate and report problems through its error callback" % r,
                                            "kind": "crash", "signal": r, "recursive_rule_variable": b"$command" in c["files"][0][1] or b"$description" in c["files"][0][1] or b"$depfile" in c["files"][0][1],
                                            "input": inp(c)})
                continue
            pm = parse_manifest_line(r)
            if pm is None:
                res.mismatches.append({"stream": "c17load", "input": inp(c), "impl": r[:300]})
                continue
            for e in pm["errs"]:
                errkinds[e] = errkinds.get(e, 0) + 1
            if c["kind"] != "valid":
                continue
            # (3) property oracle A: real loader == reference semantics (Lean Spec), when the manifest is in the fragment
            if spec_ok and spec[i] != "invalid":
                spec_valid += 1
            # (4) the installed ninja: spec validation + direct differential
            nj = None
            if nninja < ninja_budget and not getattr(ctx, "skip_ninja", False):
                nninja += 1
                nj = self.ninja_observe(c, scratch)
            spec_bad = False
            if nj is not None and "error" in nj:
                # ninja rejects the manifest: the generator left the language (generator bug, not a verdict)
                spec_disagreements += 1
                spec_bad = True
                if len(res.samples) < 6:
                    res.samples.append({"ninja_rejects": nj["error"], "input": inp(c)})
            elif nj is not None and spec_ok:
                sp = parse_manifest_line(specn[i]) if specn[i] != "invalid" else None
                if sp is None or len(sp["cmds"]) != len(nj["edges"]):
                    spec_disagreements += 1
                    spec_bad = True
                else:
                    for e, sc in zip(nj["edges"], sp["cmds"]):
                        spec_checked_edges += 1
                        sdesc = C.unhex(sc["desc"]) or C.unhex(sc["cmd"])
                        ok = (e["cmd"] == C.unhex(sc["cmd"]) or (sc["rule"] == hx(b"phony") and e["cmd"] == b"")) and \
                             e["ins"]["exp"] == unhexlist(sc["exp"]) and e["ins"]["imp"] == unhexlist(sc["imp"]) and e["ins"]["oo"] == unhexlist(sc["oo"]) and \
                             (e["desc"] is None or sc["rule"] == hx(b"phony") or e["desc"] == sdesc.replace(b"\n", b" ") or e["desc"] == sdesc)
                        if not ok:
                            spec_bad = True
                    if spec_bad:
                        spec_disagreements += 1
                        if len(res.samples) < 6:
                            res.samples.append({"spec_vs_ninja": True, "input": inp(c), "spec": specn[i][:800], "ninja": repr(nj)[:800]})
            if spec_bad:
                continue        # ambiguous oracle: never a violation
            if spec_ok and spec[i] != "invalid" and spec[i] != r:
                sm = parse_manifest_line(spec[i])
                field = "shape"
                if sm and len(sm["cmds"]) == len(pm["cmds"]):
                    field = next((k for a, b in zip(sm["cmds"], pm["cmds"]) for k in a if a[k] != b.get(k)), None) or \
                        ("errs" if pm["errs"] else "defaults" if sm["defaults"] != pm["defaults"] else "pools")
                res.oracle_failures.append({
                    "what": "the loaded manifest differs from Ninja's evaluation rules (reference semantics, validated against the installed ninja) in field '%s'; loader errors: %s" % (field, ",".join(pm["errs"]) or "none"),
                    "kind": "differs-from-spec", "field": field, "loader_errors": sorted(set(pm["errs"])),
                    "uses_subninja": any(b"subninja" in t for _, t in c["files"]), "input": inp(c), "impl": r[:1200], "spec": spec[i][:1200]})
                continue
            if nj is not None and "edges" in nj and len(nj["edges"]) == len(pm["cmds"]):
                for e, rc_ in zip(nj["edges"], pm["cmds"]):
                    lc = C.unhex(rc_["cmd"])
                    same_cmd = e["cmd"] == lc or (shwords(e["cmd"]) is not None and shwords(e["cmd"]) == shwords(lc))
                    same_in = e["ins"]["exp"] == unhexlist(rc_["exp"]) and e["ins"]["imp"] == unhexlist(rc_["imp"]) and e["ins"]["oo"] == unhexlist(rc_["oo"])
                    if pm["errs"] or not same_cmd or not same_in:
                        res.oracle_failures.append({
                            "what": "llbuild and the installed ninja disagree on a build statement: %s" % ("loader reported " + ",".join(pm["errs"]) if pm["errs"] else "command" if not same_cmd else "inputs"),
                            "kind": "differs-from-ninja", "field": "errs" if pm["errs"] else "cmd" if not same_cmd else "inputs",
                            "loader_errors": sorted(set(pm["errs"])), "uses_subninja": any(b"subninja" in t for _, t in c["files"]),
                            "input": inp(c), "llbuild": lc.decode("latin1"), "ninja": e["cmd"].decode("latin1")})
                        break
        shutil.rmtree(scratch, ignore_errors=True)
        # one representative of every distinct failure class first (the runner prints the first five)
        seen_cls, first, rest = set(), [], []
        for f in res.oracle_failures:
            cls = (f.get("kind"), f.get("field"), tuple(f.get("loader_errors", [])))
            (rest if cls in seen_cls else first).append(f)
            seen_cls.add(cls)
        first.sort(key=lambda f: 0 if f.get("kind") == "crash" else 1)
        res.oracle_failures[:] = first + rest
        res.evaluations += len(cases)
        res.distinct_nontrivial += spec_valid
        parser_dist = self.correspond_parser(ctx, res, cases, lines, real, exe, decls)
        res.distribution = {"parser": parser_dist, "cases": len(cases), "valid_stream": sum(1 for c in cases if c["kind"] == "valid"),
                            "malformed_stream": sum(1 for c in cases if c["kind"] != "valid"),
                            "in_spec_fragment": spec_valid, "features": feat, "loader_error_kinds": errkinds,
                            "ninja_compared_manifests": nninja, "ninja_compared_edges": spec_checked_edges, "crashes": crashes}
        res.extra["spec_disagreements"] = spec_disagreements
        res.extra["spec_validation"] = {"manifests": nninja, "edges": spec_checked_edges, "disagreements": spec_disagreements,
                                        "observed": "command (-t commands -s), description (-n), explicit/implicit/order-only inputs (-t query)"}
        res.rule = ("grammar-generated manifests (rules with every rule variable, pools, builds with all input classes, top-level / build-level "
                    "bindings, nested and braced references, $-escapes, continuations, include/subninja trees with rules at different levels and "
                    "shadowing, paths with spaces, quotes, '$', ':') inside the carve-outs, 4 directed manifests (F15, F21, F22, scoping), and a "
                    "malformed stream (fixed list incl. recursive rule variables + line mutations). Non-trivial = the reference semantics gives the "
                    "manifest a meaning (in the fragment of C17_eval_agrees).  Stream `parser`: every file of those manifests, hand-written statement "
                    "fragments, byte-level mutations of the valid files (truncate, flip, delete, newline<->blank, insert keywords / | / || / : / = / "
                    "newlines / indentation / $-newline / # / NUL / high bytes, preferably at line starts and token boundaries) and token soup, each through "
                    "the real Parser with a tracing ParseActions on an exact-size heap buffer and through the Lean parser model (all callbacks, token "
                    "payloads and error messages compared verbatim); non-trivial there = distinct (set of callback kinds, set of error messages).")
        if cases:
            k = min(len(cases) - 1, 7)
            res.samples.append({"manifest": cases[k]["files"][0][1].decode("latin1")[:600], "real": real[k][:400]})

    def search(self, ctx, res, why):
        return


CHECK = Check()
