"""C20 — The C API is a faithful binding of the engine.

Proof: the forwarding table generated from Core-C-API.cpp equals the table documented in core.h (Props/C20.lean).
Tie/oracle 1 (scenarios): a client written only against the public C API (harness/vc20.cpp) runs one scenario per
documented parameter effect; python checks each effect on the callback trace (the expectations are the sentences of core.h).
Tie/oracle 2 (event-by-event differential, `corr_events`): harness/vengine_capi.cpp interprets the engine DSL of
vlib/engine.py with ONE client logic bound either to the public C API (`capi`) or to the C++ interface (`cxx`); the same
programs, histories and completion schedules go to both; every op's output line (the event trace of each build on the
alphabet core.h lets a client observe, the build result, and a canonical dump of the SQLite database after every build)
must be byte-identical.  Any difference is the property's own oracle failing (kind "capi-diverges")."""
import json, os, re, shutil, subprocess, threading
from .. import common as C
from .. import engine as E
from ..runner import PropertyCheck


def hx(b):
    return C.hexs(b)


def hl(l):
    return ",".join(hx(x) for x in l) if l else "."


def rule(key, ins=(), follow=(), disc=(), value=None, invalid=False, force=False):
    return "rule %s in=%s follow=%s disc=%s value=%s invalid=%d force=%d" % (
        hx(key), hl(ins), hl(follow), hl(disc), "*" if value is None else hx(value), invalid, force)


class Trace:
    def __init__(self, line):
        m = re.fullmatch(r"result=(\S+) events=(\S+)( errors=\d+)?", line)
        self.ok = bool(m)
        self.line = line
        self.result, self.events, self.errors = b"", [], 0
        if m:
            self.result = C.unhex(m.group(1))
            self.errors = int(m.group(3).split("=")[1]) if m.group(3) else 0
            for e in ([] if m.group(2) == "." else m.group(2).split(";")):
                p = e.split(":")
                if p[0] in ("start", "run"):
                    self.events.append((p[0], C.unhex(p[1])))
                elif p[0] == "val":
                    self.events.append(("val", C.unhex(p[1]), int(p[2]), C.unhex(p[3])))
                else:
                    self.events.append(tuple(p))

    def ran(self, key):
        return sum(1 for e in self.events if e[0] == "run" and e[1] == key)

    def index(self, kind, key):
        for i, e in enumerate(self.events):
            if e[0] == kind and e[1] == key:
                return i
        return -1


# ----------------------------------------------------------------------------------------------
# event-by-event differential stream (harness/vengine_capi.cpp)
# ----------------------------------------------------------------------------------------------
SCHEMAS = [9, 10, 0, 1, 77, 4294967295]


class EvCase:
    """op lines for vengine_capi + the number of output lines + output line -> input line index"""

    def __init__(self, prefix, rules, ops):
        self.prefix, self.rules, self.ops = prefix, rules, ops
        self.lines, self.out_to_in = ["W", "KB " + hx(prefix), "P %d" % len(rules)], [0, 1, 2]
        self.lines += [rules[k].line() for k in sorted(rules)]
        for o in ops:
            self.out_to_in.append(len(self.lines))
            if o["op"] == "SV":
                self.lines.append("SV %d" % o["val"])
            else:
                self.lines.append(E.op_line(o))
            if o["op"] == "B":
                self.out_to_in.append(len(self.lines))
                self.lines.append("D")
        self.nout = len(self.out_to_in)

    @staticmethod
    def raw(lines):
        """a case from bare op lines (replay files, corpus)"""
        c = EvCase.__new__(EvCase)
        c.prefix, c.rules, c.ops = b"", {}, []
        c.lines, c.out_to_in = list(lines), []
        skip = 0
        for i, l in enumerate(lines):
            if skip:
                skip -= 1
                continue
            c.out_to_in.append(i)
            t = l.split()
            if t and t[0] == "P":
                skip = int(t[1])
        c.nout = len(c.out_to_in)
        return c


def restrict_to_core_h(rules):
    """what core.h can express: no rule signatures, no single-use requests"""
    def fix(q):
        return (q[0], q[1], 0 if q[2] == 1 else q[2])
    for r in rules.values():
        r.sigBase = 0
        r.statics = [fix(q) for q in r.statics]
        r.whens = [(c, [fix(q) for q in reqs]) for c, reqs in r.whens]
    return rules


def gen_prefix(rng):
    c = rng.below(10)
    if c == 0:
        return b""
    if c == 1:
        return b"\x00"
    if c == 2:
        return b"\xff"
    if c == 3:
        return b"a\x00b"
    if c == 4:
        return b"\x00\xffN"
    if c == 5:
        return b"k1"            # a prefix that looks like a key
    return rng.bytes_from([0, 0, 0xff, 0x41, 0x6b, 0x31, 0x20, 0x0a, 0x80], 6, 1)


def gen_ev_case(rng, thorough):
    nk = 4 + rng.below(9 if not thorough else 14)
    shape = rng.below(6)
    rules = E.gen_program(rng, nk, cyclic=shape == 0, malformed=shape in (0, 1), mustfollow=rng.chance(1, 2))
    restrict_to_core_h(rules)
    nops = 2 + rng.below(8 if not thorough else 16)
    ops = []
    schema = 9
    for o in E.gen_history(rng, rules, nops, cancel=False, threads=False, allow_restart=True, allow_revert=True, crash=False):
        if o["op"] == "M" and E.SIG_OFFSET <= o["slot"] < E.FLAG_OFFSET:
            continue            # signatures do not exist in llb_rule_t
        if o["op"] == "E" and rng.chance(1, 5):
            schema = rng.choice([v for v in SCHEMAS if v != schema])
            ops.append({"op": "SV", "val": schema})
        ops.append(o)
    return EvCase(gen_prefix(rng), rules, ops)


def run_ev_mode(exe, mode, scratch, cases, timeout=900):
    """as vlib.engine.run_harness: per case the list of output lines, or None when the process stalled/crashed there"""
    res = [None] * len(cases)
    problems = []
    start = 0
    while start < len(cases):
        lines = []
        for c in cases[start:]:
            lines += c.lines
        try:
            p = subprocess.run([exe, mode, scratch], input=("\n".join(lines) + "\n").encode(), stdout=subprocess.PIPE,
                               stderr=subprocess.PIPE, timeout=timeout)
            rc, out, err = p.returncode, p.stdout.decode("latin-1").split("\n"), p.stderr.decode("latin-1")[-800:]
        except subprocess.TimeoutExpired as e:
            rc, out, err = -9, (e.stdout or b"").decode("latin-1").split("\n"), "timeout"
        if out and out[-1] == "":
            out.pop()
        pos, i = 0, start
        while i < len(cases):
            n = cases[i].nout
            if pos + n <= len(out) and not any(l.startswith("STALL") for l in out[pos:pos + n]):
                res[i] = out[pos:pos + n]
                pos += n
                i += 1
            else:
                break
        if i >= len(cases):
            break
        problems.append({"case": i, "rc": rc, "stderr": err, "partial": out[pos:]})
        start = i + 1
    return res, problems


def first_event_diff(a, b, sep=" ; "):
    ea, eb = a.split(sep), b.split(sep)
    for i in range(max(len(ea), len(eb))):
        x = ea[i] if i < len(ea) else "<end>"
        y = eb[i] if i < len(eb) else "<end>"
        if x != y:
            return i, x, y
    return None

# ----------------------------------------------------------------------------------------------
# naming the theorems that no longer hold (the runner only knows that the module stopped building)
# ----------------------------------------------------------------------------------------------
DECL = re.compile(r"^\s*(?:@\[[^\]]*\]\s*)?(?:private\s+|protected\s+)?(theorem|lemma|def|abbrev|instance|example|structure|inductive)\b\s*([^\s:(\[{]*)")


def failing_declarations(module):
    """Rebuild the Lean module (same command as the proof step) and attribute every error to the declaration it is in.
    Returns [{"name", "file", "line", "message"}]; names of property theorems are fully qualified."""
    ok, out = C.lake_build([module])
    if ok:
        return []
    found, cache = [], {}
    lines = out.split("\n")
    for i, l in enumerate(lines):
        m = re.match(r"^error: (?:\./)?(\S+?\.lean):(\d+):(\d+): (.*)$", l)
        if not m:
            continue
        rel, ln, msg = m.group(1), int(m.group(2)), m.group(4)
        for k in lines[i + 1:i + 12]:
            if re.match(r"^(error|warning|info|✖|⚠|✔|ℹ)", k) or k.startswith("Some required"):
                break
            msg += " " + k.strip()
        path = rel if os.path.isabs(rel) else os.path.join(C.LEAN, rel)
        if path not in cache:
            try:
                cache[path] = open(path).read().split("\n")
            except OSError:
                cache[path] = []
        src, name, ns = cache[path], None, ""
        for j in range(min(ln, len(src)) - 1, -1, -1):
            d = DECL.match(src[j])
            if d and name is None:
                name = d.group(2) or "%s@%d" % (d.group(1), j + 1)
            n = re.match(r"^namespace\s+(\S+)", src[j])
            if n and name is not None:
                ns = n.group(1)
                break
        full = (ns + "." + name) if ns and name and "@" not in name else (name or "?")
        found.append({"name": full, "file": rel, "line": ln, "message": re.sub(r"\s+", " ", msg)[:600]})
        # a private table lemma: the public theorems of the same file that are proved from it fail with it
        if name and "@" not in name:
            starts = [(j, DECL.match(src[j])) for j in range(len(src)) if DECL.match(src[j])]
            for a, (j, d) in enumerate(starts):
                end = starts[a + 1][0] if a + 1 < len(starts) else len(src)
                user = d.group(2)
                if user and user != name and j + 1 > ln and re.search(r"\b%s\b" % re.escape(name), "\n".join(src[j:end])):
                    found.append({"name": (ns + "." + user) if ns else user, "file": rel, "line": j + 1,
                                  "message": "proved from %s, which no longer holds" % full})
    return found


class Check(PropertyCheck):
    prop = "C20"
    module = "LLBuild.Props.C20"
    theorems = ["LLBuild.CApi.C20_forwarding_faithful", "LLBuild.CApi.C20_bytes_preserved",
                # callback direction (engine -> client): generated call-site table = documented table
                "LLBuild.CApi.C20_callbacks_faithful", "LLBuild.CApi.C20_status_kinds_bijective", "LLBuild.CApi.C20_cycle_order_preserved",
                "LLBuild.CApi.C20_callback_bytes_preserved", "LLBuild.CApi.C20_optional_callbacks_guarded"]
    extractors = ["x_capi"]
    harnesses = [("vc20", "plain"), ("vengine_capi", "plain")]
    assumptions = [
        "`documented` (LLBuild/Model/CApi.lean) is a faithful reading of the comments of core.h",
        "`documentedCallback` / `documentedOptional` / `documentedStatus` / `documentedCycleArray` (LLBuild/Model/CApiCallbacks.lean) are a faithful "
        "reading of core.h for the callback direction; core.h does not say which callbacks may be NULL: the defaults recorded for is_result_valid "
        "(valid), update_status (nothing) and destroy_context (nothing) are those of the C++ interface and of the first-party Swift binding",
        "callback direction: the theorems decide what the binding does AT each call site (callback, guard, argument order and shapes, status "
        "mapping, cycle-array construction, return value); WHEN the engine invokes the C++ virtuals between the calls is the engine's behaviour "
        "(C01-C07) and, for a C client, the sampled event stream",
        "the engine entry points themselves (TaskInterface::request / mustFollow / discoveredDependency / complete, BuildEngine::attachDB / build, createSQLiteBuildDB) behave as specified: C01-C07, C03",
        "'same task callbacks, executions, results and persisted state as the C++ interface' is decided by the event-by-event differential stream "
        "(sampled, not proved): identical DSL client logic bound to the C API and to the C++ interface, identical ops and completion schedules, "
        "byte-identical event traces / results / database dumps required.  The alphabet is what core.h lets a client observe (lookup_rule, "
        "update_status, is_result_valid, create_task, start, provide_value, inputs_available, completions, cycle_detected, error, build result, "
        "task destruction); createExecutionQueue, determinedRuleNeedsToRun, providePriorValue, rule signatures, single-use requests and cancellation "
        "have no counterpart in core.h and are outside the comparison",
        "agreement of a C-API client with the Lean engine model is NOT checked directly: it follows from C-API = C++ on the restricted alphabet (this "
        "stream) plus C++ traces (full alphabet) are accepted by the model (C01-C07 checks, `enginecheck` monitor); the cxx-mode traces of this "
        "stream are not fed to the monitor a second time",
        "dependency flags (order-only / single-use) are not exposed by db.h: in the database dump they are read with the C++ reader of the same "
        "SQLite file in both modes; keys, values, epochs and dependency keys are read through db.h (llb_database_open / get_keys / "
        "lookup_rule_result / get_epoch) in capi mode and through BuildDB::getKeysWithResult in cxx mode",
    ]
    trusted_base = ["extractor x_capi (clang-14 JSON AST of Core-C-API.cpp; callback half: call sites of the CAPI* classes, a small interpreter "
                    "for the status conversion, the cycle-array builder; text count of callback calls = AST count)", "harness vc20 (client of the public C API only)",
                    "python scenario oracle (one scenario per documented parameter effect)",
                    "harness vengine_capi (one DSL client logic, two bindings; hook-driven completion schedules through llbuild::core::verifEngineHook; "
                    "canonical database dump)",
                    "vlib/engine.py generators (programs, histories) and the line-by-line comparison in c20.py"]

    # each scenario: (name, discriminating keys, ops, checker(traces) -> list of problems)
    def scenarios(self, ctx, dbdir):
        S = []
        nul = b"k\x00ey"       # keys and values with embedded NUL everywhere
        val = b"v\x00\x00al\xff"

        # 1. force_change on completion (F9) ------------------------------------------------------------
        for force in (True, False):
            P, D = b"P\x00" + (b"f" if force else b"n"), b"D\x00" + (b"f" if force else b"n")
            ops = [rule(P, value=val, invalid=True, force=force), rule(D, ins=[P]), "engine new", "build " + hx(D), "build " + hx(D), "engine destroy"]

            def chk(tr, force=force, P=P, D=D):
                out = []
                b1, b2 = tr[3], tr[4]
                if b1.ran(P) != 1 or b1.ran(D) != 1:
                    out.append("first build did not run both tasks once: " + b1.line)
                if b2.ran(P) != 1:
                    out.append("second build did not re-run the always-invalid task: " + b2.line)
                want = 1 if force else 0
                if b2.ran(D) != want:
                    out.append("task P completed with an unchanged value and force_change=%s; its dependent D ran %d times in that build, expected %d"
                               % (str(force).lower(), b2.ran(D), want))
                if b2.result != D + b"(" + val + b")":
                    out.append("result bytes differ: %r" % b2.result)
                return out
            S.append(("force_change=%s" % str(force).lower(), {"function": "llb_buildengine_task_is_complete", "parameter": "force_change",
                                                              "force_change": force}, ops, chk))

        # 2. must_follow: ordering only, no value ------------------------------------------------------------
        X, Y = b"X" + nul, b"Y" + nul
        ops = [rule(Y, value=val), rule(X, follow=[Y]), "engine new", "build " + hx(X), "engine destroy"]

        def chk2(tr):
            b = tr[3]
            out = []
            if b.ran(X) != 1 or b.ran(Y) != 1:
                out.append("must_follow key was not computed exactly once together with the task: " + b.line)
            elif not (b.index("run", Y) < b.index("run", X)):
                out.append("task ran before the key it must follow: " + b.line)
            if any(e[0] == "val" and e[1] == X for e in b.events):
                out.append("a must-follow key delivered a value to the task: " + b.line)
            return out
        S.append(("must_follow", {"function": "llb_buildengine_task_must_follow", "parameter": "key"}, ops, chk2))

        # 3. needs_input: key and input_id -------------------------------------------------------------------
        A, B1, B2 = b"A" + nul, b"in1" + nul, nul + b"in2"
        ops = [rule(B1, value=b"one\x00"), rule(B2, value=b"\x00two"), rule(A, ins=[B1, B2]), "engine new", "build " + hx(A), "engine destroy"]

        def chk3(tr):
            b = tr[4]
            got = sorted((e[2], e[3]) for e in b.events if e[0] == "val" and e[1] == A)
            want = [(7, b"one\x00"), (10, b"\x00two")]
            out = []
            if got != want:
                out.append("provide_value delivered %r, expected input ids with their values %r" % (got, want))
            if b.result != A + b"(one\x00,\x00two)":
                out.append("result bytes differ (NUL handling): %r" % b.result)
            return out
        S.append(("needs_input", {"function": "llb_buildengine_task_needs_input", "parameter": "key/input_id"}, ops, chk3))

        # 4. discovered dependency: considered the next time the rule is evaluated -----------------------------------
        for disc in (True, False):
            T, E = b"T" + (b"d" if disc else b"n") + nul, b"E" + (b"d" if disc else b"n") + nul
            ops = ["ext %s %s" % (hx(E), hx(b"e1")), rule(T, disc=[E] if disc else [], value=b"t"), "engine new", "build " + hx(T),
                   "build " + hx(T), "ext %s %s" % (hx(E), hx(b"e2\x00")), "build " + hx(T), "engine destroy"]

            def chk4(tr, disc=disc, T=T, E=E):
                b1, b2, b3 = tr[3], tr[4], tr[6]
                out = []
                if b1.ran(T) != 1:
                    out.append("first build: " + b1.line)
                if b2.ran(T) != 0:
                    out.append("nothing changed but the task re-ran: " + b2.line)
                want = 1 if disc else 0
                if b3.ran(T) != want:
                    out.append("after the %s input changed the task ran %d times, expected %d"
                               % ("discovered" if disc else "unrelated", b3.ran(T), want))
                return out
            S.append(("discovered_dependency=%s" % str(disc).lower(), {"function": "llb_buildengine_task_discovered_dependency", "parameter": "key",
                                                                      "reported": disc}, ops, chk4))

        # 5. attach_db: path and schema version --------------------------------------------------------------------
        db = os.path.join(dbdir, "c20.db").encode()
        R, I = b"R" + nul, b"I" + nul
        base = ["ext %s %s" % (hx(I), hx(b"i\x00v")), rule(R, ins=[I])]
        ops = base + ["engine new", "engine db %s 7" % hx(db), "build " + hx(R), "engine destroy",
                      "engine new", "engine db %s 7" % hx(db), "build " + hx(R), "engine destroy",
                      "engine new", "engine db %s 8" % hx(db), "build " + hx(R), "engine destroy",
                      "engine new", "build " + hx(R), "engine destroy"]

        def chk5(tr):
            out = []
            for i in (3, 7, 11):
                if tr[i].line != "ok":
                    out.append("attach_db failed: " + tr[i].line)
            b1, b2, b3, b4 = tr[4], tr[8], tr[12], tr[15]
            if b1.ran(R) != 1:
                out.append("first build with a fresh database: " + b1.line)
            if b2.ran(R) != 0 or b2.ran(I) != 0:
                out.append("same path, same schema version: stored results were not reused: " + b2.line)
            if b3.ran(R) != 1:
                out.append("same path, different schema version: stored results were reused: " + b3.line)
            if b4.ran(R) != 1:
                out.append("engine without a database reused results: " + b4.line)
            for b in (b1, b2, b3, b4):
                if b.result != R + b"(i\x00v)":
                    out.append("result bytes differ: %r" % b.result)
            if not os.path.exists(db.decode()):
                out.append("database was not created at the given path")
            return out
        S.append(("attach_db", {"function": "llb_buildengine_attach_db", "parameter": "path/schema_version"}, ops, chk5))

        # 6. optional callback left NULL: is_result_valid absent = the stored result is valid (C20_optional_callbacks_guarded) ------
        N, DN = b"N" + nul, b"DN" + nul
        ops = [rule(N, value=val) + " novalid=1", rule(DN, ins=[N]), "engine new", "build " + hx(DN), "build " + hx(DN), "engine destroy"]

        def chk6(tr):
            b1, b2 = tr[3], tr[4]
            out = []
            if b1.ran(N) != 1 or b1.ran(DN) != 1:
                out.append("first build did not run both tasks once: " + b1.line)
            if b2.ran(N) != 0 or b2.ran(DN) != 0:
                out.append("a rule whose is_result_valid is NULL was re-run %d time(s) (its dependent %d) in a build where nothing changed: "
                           "NULL must mean 'the result is valid'" % (b2.ran(N), b2.ran(DN)))
            if b2.result != DN + b"(" + val + b")":
                out.append("result bytes differ: %r" % b2.result)
            return out
        S.append(("is_result_valid=NULL", {"function": "llb_rule_t.is_result_valid", "parameter": "NULL"}, ops, chk6))
        return S

    def diagnose(self, ctx, res):
        """the proof step failed: say which theorem (by name) no longer holds"""
        self.broken_decls = []
        if getattr(ctx, "model_ok", True):
            return
        try:
            self.broken_decls = failing_declarations(self.module)
        except Exception as e:
            C.log("C20: could not attribute the Lean errors: %s" % e)
        names = []
        for d in self.broken_decls:
            if d["name"] not in names:
                names.append(d["name"])
            C.log("C20: %s %s no longer holds (%s:%d): %s" % ("THEOREM" if d["name"] in self.theorems else "declaration", d["name"],
                                                             d["file"], d["line"], d["message"][:300]))
        res.extra["theorems_failing"] = [n for n in names if n in self.theorems]
        res.extra["declarations_failing"] = self.broken_decls[:12]

    def correspond(self, ctx, res):
        self.diagnose(ctx, res)
        try:
            self.correspond_impl(ctx, res)
        finally:
            # a concrete divergence found below comes with the names of the theorems the same tree falsifies
            if res.extra.get("theorems_failing"):
                for f in res.oracle_failures:
                    f.setdefault("theorems_failing", res.extra["theorems_failing"])

    def correspond_impl(self, ctx, res):
        exe = ctx.exe[("vc20", "plain")]
        dbdir = os.path.join(C.BUILD, "scratch", "c20-%d" % os.getpid())
        os.makedirs(dbdir, exist_ok=True)
        scen = self.scenarios(ctx, dbdir)
        # seeded variation: the force_change scenario on random chains with random NUL-bearing keys/values
        rng = ctx.rng
        for i in range(200 if ctx.thorough else 40):
            n = 1 + rng.below(4)
            keys = [rng.bytes_from([0, 0x41, 0x42, 0xff, 0x20], 6, 1) + b"%d.%d" % (i, j) for j in range(n + 1)]
            v = rng.bytes_from([0, 0x61, 0xff], 5)
            force = rng.chance(1, 2)
            ops = [rule(keys[0], value=v, invalid=True, force=force)] + [rule(keys[j], ins=[keys[j - 1]]) for j in range(1, n + 1)] + \
                  ["engine new", "build " + hx(keys[n]), "build " + hx(keys[n]), "engine destroy"]

            def chk(tr, n=n, keys=keys, force=force, v=v):
                b2 = tr[n + 3]
                out = []
                want = 1 if force else 0
                # an unchanged value with force_change re-runs the direct dependent; that dependent's own value is then
                # unchanged and it does not force, so the chain stops there
                if b2.ran(keys[1]) != want:
                    out.append("task completed with an unchanged value and force_change=%s; its dependent ran %d times, expected %d"
                               % (str(force).lower(), b2.ran(keys[1]), want))
                for j in range(2, n + 1):
                    if b2.ran(keys[j]) != 0:
                        out.append("a task further down the chain re-ran although its input value did not change")
                exp = v
                for j in range(1, n + 1):
                    exp = keys[j] + b"(" + exp + b")"
                if b2.result != exp:
                    out.append("result bytes differ: %r vs %r" % (b2.result, exp))
                return out
            scen.append(("force_change=%s chain" % str(force).lower(), {"function": "llb_buildengine_task_is_complete", "parameter": "force_change",
                                                                       "force_change": force}, ops, chk))
        nontriv = 0
        for name, keys, ops, chk in scen:
            rc, out, err = C.run_lines([exe, "c20run"], ops)
            res.evaluations += 1
            if rc != 0 or len(out) != len(ops):
                res.mismatches.append({"stream": "c20run", "input": name, "impl": "exit %d, %d/%d lines %s" % (rc, len(out), len(ops), err[-200:])})
                continue
            tr = [Trace(l) if l.startswith("result=") else type("L", (), {"line": l})() for l in out]
            probs = chk(tr)
            nontriv += 1
            for p in probs:
                f = {"what": "C API scenario %s: %s" % (name, p), "scenario": name, "input": {"ops": ops, "output": out}}
                f.update(keys)
                res.oracle_failures.append(f)
        res.distinct_nontrivial += nontriv
        res.distribution["scenarios"] = len(scen)
        res.distribution["by_function"] = {}
        for name, keys, _, _ in scen:
            res.distribution["by_function"][keys["function"]] = res.distribution["by_function"].get(keys["function"], 0) + 1
        res.samples.append({"scenario": scen[0][0], "ops": scen[0][2]})
        res.rule = ("forwarding table: generated for all exported llb_buildengine_* functions and compared with the documented table by the "
                    "theorem (finite, complete). Scenarios through the public C API: one per documented parameter effect (force_change true/false, "
                    "must_follow, needs_input with input ids, discovered dependency reported/not, attach_db same/different schema version/no db, "
                    "is_result_valid left NULL), keys "
                    "and values with NUL/0xFF bytes, plus seeded force_change chains. Non-trivial = scenarios executed to the end. "
                    "Event stream: seeded DSL programs (4-12 keys; thorough 4-17; static, value-dependent dynamic, must-follow and discovered requests, "
                    "always/never/flag validity, forced and deferred completions, 1/6 cyclic, 1/3 with discovered dependencies on derived rules) x "
                    "histories of mutate/build/restart(+schema version change), every build with a random hook-driven completion schedule, every key "
                    "named <prefix>k<n> with a seeded byte prefix (NUL / 0xFF / empty / key-like); run once through the C API and once through the "
                    "C++ interface; all output lines (event trace, result, database dump after every build) compared verbatim. Non-trivial = a "
                    "history with more than one build in which a task ran and whose database holds a row with dependencies.")
        res.exhaustive = False      # the forwarding table is complete; scenarios and the event stream are sampled
        shutil.rmtree(dbdir, ignore_errors=True)
        self.corr_events(ctx, res)

    # ---------------------------------------------------------------------------------------------
    # event-by-event comparison C API vs C++ interface
    def corr_events(self, ctx, res):
        exe = ctx.exe[("vengine_capi", "plain")]
        scratch = os.path.join(C.BUILD, "scratch", "c20ev-%d" % os.getpid())
        os.makedirs(scratch, exist_ok=True)
        rng = C.Rng(ctx.seed, "C20/events")
        cases = []
        rp = getattr(ctx, "replay_path", None)
        if rp:
            try:
                ops = json.load(open(rp)).get("failure", {}).get("input", {}).get("ops")
                if ops and ops[0] == "W":
                    cases.append(EvCase.raw(ops))
            except Exception as e:
                C.log("replay file not usable for the event stream: %s" % e)
        import glob
        for p in sorted(glob.glob(os.path.join(C.VERIF, "corpus", "C20", "*.ops"))):
            cases.append(EvCase.raw([l for l in open(p).read().split("\n") if l.strip()]))
        ncorp = len(cases)
        n = 2000 if ctx.thorough else 150
        cases += [gen_ev_case(rng, ctx.thorough) for _ in range(n)]
        # both modes, in parallel chunks
        nchunk = 8 if ctx.thorough else 4
        chunks = [list(range(i, len(cases), nchunk)) for i in range(nchunk)]
        outs = {"capi": [None] * len(cases), "cxx": [None] * len(cases)}
        probs = {"capi": {}, "cxx": {}}

        def work(mode, idxs):
            r, pr = run_ev_mode(exe, mode, scratch, [cases[i] for i in idxs])
            for i, o in zip(idxs, r):
                outs[mode][i] = o
            for p in pr:
                probs[mode][idxs[p["case"]]] = p
        ths = [threading.Thread(target=work, args=(m, ch)) for m in ("capi", "cxx") for ch in chunks if ch]
        for t in ths:
            t.start()
        for t in ths:
            t.join()
        st = {"histories": len(cases), "corpus_or_replay": ncorp, "builds": 0, "tasks": 0, "provide_value": 0, "must_follow_requests": 0,
              "discovered_reports": 0, "forced_completions": 0, "deferred_programs": 0, "cycles": 0, "errors": 0, "restarts": 0,
              "schema_changes": 0, "up_to_date": 0, "is_result_valid": 0, "db_rows": 0, "db_order_only_deps": 0,
              "prefix_with_nul": 0, "prefix_with_ff": 0, "prefix_empty": 0, "prefix_starts_with_nul": 0, "diverging": 0}
        for i, c in enumerate(cases):
            a, b = outs["capi"][i], outs["cxx"][i]
            res.evaluations += 1
            if b is None:
                pr = probs["cxx"].get(i, {})
                if a is None:
                    # the engine stalled/crashed under BOTH bindings: not a binding divergence; the tie is broken
                    if len(res.mismatches) < 10:
                        res.mismatches.append({"stream": "capi-events", "input": {"ops": c.lines},
                                               "impl": "the engine stalled/crashed under both bindings (cxx exit %s): %s" % (pr.get("rc"), " | ".join(pr.get("partial", [])[-2:])[-400:])})
                    continue
                a = a or []
            if a is None or b is None:
                which = "capi" if a is None else "cxx"
                pr = probs[which].get(i, {})
                st["diverging"] += 1
                st.setdefault("first_divergence", {"what": "%s client crashed/stalled (exit %s)" % (which, pr.get("rc")), "ops": len(c.lines)})
                res.oracle_failures.append({
                    "what": "C API vs C++ interface: the %s client %s (harness exit %s) on a history the other client runs to the end; last output: %s"
                            % (which, "stalled" if pr.get("rc") in (3, -9) else "crashed", pr.get("rc"), " | ".join(pr.get("partial", [])[-2:])[-500:]),
                    "kind": "capi-diverges", "how": "crash-or-stall", "input": {"ops": c.lines}})
                continue
            d = next((j for j in range(c.nout) if a[j] != b[j]), None)
            if d is not None:
                st["diverging"] += 1
                upto = c.out_to_in[d]
                opl = c.lines[upto]
                fe = first_event_diff(a[d], b[d], " | " if opl == "D" else " ; ")
                what = "C API vs C++ interface: op `%s` (output line %d) differs" % (opl[:80], d)
                if fe:
                    what += "; first differing %s #%d: capi `%s` vs cxx `%s`" % ("event" if opl.startswith("B") else "database row" if opl == "D" else "field", fe[0], fe[1][:200], fe[2][:200])
                st.setdefault("first_divergence", {"what": what, "ops": len(c.lines[:upto + 1])})
                res.oracle_failures.append({
                    "what": what, "kind": "capi-diverges", "how": "output-differs", "op": opl.split()[0],
                    "first_difference": {"output_line": d, "op": opl, "capi": a[d][:3000], "cxx": b[d][:3000]},
                    "input": {"ops": c.lines[:upto + 1], "key_prefix_hex": hx(c.prefix)}})
                continue
            # agreement: statistics from the (identical) traces
            nb = ran = 0
            for o, l in zip([c.lines[k] for k in c.out_to_in], b):
                t = o.split()[0]
                if t == "E":
                    st["restarts"] += 1
                elif t == "SV":
                    st["schema_changes"] += 1
                elif t == "B":
                    nb += 1
                    for e in E.parse_trace(l):
                        k = e[0]
                        if k == "T":
                            ran += 1
                        elif k == "PV":
                            st["provide_value"] += 1
                        elif k == "IA" and e[2] != "0":
                            st["discovered_reports"] += 1
                        elif k == "C" and e[3] == "1":
                            st["forced_completions"] += 1
                        elif k == "CY":
                            st["cycles"] += 1
                        elif k == "ER":
                            st["errors"] += 1
                        elif k == "S" and e[2] == "1":
                            st["up_to_date"] += 1
                        elif k == "V":
                            st["is_result_valid"] += 1
                        if k in ("ST", "PV"):
                            rq = e[3:] if k == "ST" else e[6:]
                            st["must_follow_requests"] += sum(1 for j in range(2, len(rq), 3) if rq[j] == "2")
            st["builds"] += nb
            st["tasks"] += ran
            if any(r.deferred for r in c.rules.values()):
                st["deferred_programs"] += 1
            if c.prefix == b"":
                st["prefix_empty"] += 1
            st["prefix_with_nul"] += 1 if b"\x00" in c.prefix else 0
            st["prefix_with_ff"] += 1 if b"\xff" in c.prefix else 0
            st["prefix_starts_with_nul"] += 1 if c.prefix[:1] == b"\x00" else 0
            dumps = [l for o, l in zip([c.lines[k] for k in c.out_to_in], b) if o == "D"]
            rows_with_deps = 0
            if dumps:
                rows = dumps[-1].split(" | ")[1:]
                st["db_rows"] += len(rows)
                for r in rows:
                    f = r.split()
                    rows_with_deps += 1 if len(f) > 4 else 0
                    st["db_order_only_deps"] += sum(1 for x in f[4:] if x.endswith(":1"))
            if nb > 1 and ran > 0 and rows_with_deps > 0:
                res.distinct_nontrivial += 1
            if len(res.samples) < 4 and nb > 1 and ran > 2:
                res.samples.append({"event_stream_ops": c.lines[:12], "first_trace": next((x for x in b if x.startswith("B ")), "")[:400],
                                    "last_dump": (dumps[-1] if dumps else "")[:300]})
        res.distribution["event_stream"] = st
        shutil.rmtree(scratch, ignore_errors=True)

    def search(self, ctx, res, why):
        # the scenarios are the directed search: every documented parameter has one.  What is added here: the replay file of a
        # broken proof step names the theorems, not only the module
        for d in getattr(self, "broken_decls", []):
            why.append({"kind": "theorem-fails" if d["name"] in self.theorems else "declaration-fails", "name": d["name"],
                        "detail": "%s:%d: %s" % (d["file"], d["line"], d["message"])})


CHECK = Check()
