"""C20 — The C API is a faithful binding of the engine (forwarding-table half).

Proof: the forwarding table generated from Core-C-API.cpp equals the table documented in core.h (Props/C20.lean).
Tie/oracle: a client written only against the public C API (harness/vc20.cpp) runs one scenario per documented
parameter effect; python checks each effect on the callback trace (no model needed: the expectations are the sentences
of core.h)."""
import os, re, shutil, subprocess
from .. import common as C
from ..runner import PropertyCheck


def hx(b):
    return C.hexs(b)


def hl(l):
    return ",".join(hx(x) for x in l) if l else "."


def rule(key, ins=(), follow=(), disc=(), value=None, invalid=False, force=False):
    return "rule %s in=%s follow=%s disc=%s value=%s invalid=%d force=%d" % (
        hx(key), hl(ins), hl(follow), hl(disc), "*" if value is None else hx(value), invalid, force)


class Trace:
    def __init__(self, line):
        m = re.fullmatch(r"result=(\S+) events=(\S+)( errors=\d+)?", line)
        self.ok = bool(m)
        self.line = line
        self.result, self.events, self.errors = b"", [], 0
        if m:
            self.result = C.unhex(m.group(1))
            self.errors = int(m.group(3).split("=")[1]) if m.group(3) else 0
            for e in ([] if m.group(2) == "." else m.group(2).split(";")):
                p = e.split(":")
                if p[0] in ("start", "run"):
                    self.events.append((p[0], C.unhex(p[1])))
                elif p[0] == "val":
                    self.events.append(("val", C.unhex(p[1]), int(p[2]), C.unhex(p[3])))
                else:
                    self.events.append(tuple(p))

    def ran(self, key):
        return sum(1 for e in self.events if e[0] == "run" and e[1] == key)

    def index(self, kind, key):
        for i, e in enumerate(self.events):
            if e[0] == kind and e[1] == key:
                return i
        return -1


class Check(PropertyCheck):
    prop = "C20"
    module = "LLBuild.Props.C20"
    theorems = ["LLBuild.CApi.C20_forwarding_faithful", "LLBuild.CApi.C20_bytes_preserved"]
    extractors = ["x_capi"]
    harnesses = [("vc20", "plain")]
    assumptions = [
        "`documented` (LLBuild/Model/CApi.lean) is a faithful reading of the comments of core.h",
        "the engine entry points themselves (TaskInterface::request / mustFollow / discoveredDependency / complete, BuildEngine::attachDB / build, createSQLiteBuildDB) behave as specified: C01-C07, C03",
        "callbacks in the other direction (lookup_rule, create_task, is_result_valid, provide_value ...) are covered only by the extracted llb_data_t shapes and the scenarios; the event-by-event C vs C++ comparison is a separate check",
    ]
    trusted_base = ["extractor x_capi (clang-14 JSON AST of Core-C-API.cpp)", "harness vc20 (client of the public C API only)",
                    "python scenario oracle (one scenario per documented parameter effect)"]

    # each scenario: (name, discriminating keys, ops, checker(traces) -> list of problems)
    def scenarios(self, ctx, dbdir):
        S = []
        nul = b"k\x00ey"       # keys and values with embedded NUL everywhere
        val = b"v\x00\x00al\xff"

        # 1. force_change on completion (F9) ------------------------------------------------------------
        for force in (True, False):
            P, D = b"P\x00" + (b"f" if force else b"n"), b"D\x00" + (b"f" if force else b"n")
            ops = [rule(P, value=val, invalid=True, force=force), rule(D, ins=[P]), "engine new", "build " + hx(D), "build " + hx(D), "engine destroy"]

            def chk(tr, force=force, P=P, D=D):
                out = []
                b1, b2 = tr[3], tr[4]
                if b1.ran(P) != 1 or b1.ran(D) != 1:
                    out.append("first build did not run both tasks once: " + b1.line)
                if b2.ran(P) != 1:
                    out.append("second build did not re-run the always-invalid task: " + b2.line)
                want = 1 if force else 0
                if b2.ran(D) != want:
                    out.append("task P completed with an unchanged value and force_change=%s; its dependent D ran %d times in that build, expected %d"
                               % (str(force).lower(), b2.ran(D), want))
                if b2.result != D + b"(" + val + b")":
                    out.append("result bytes differ: %r" % b2.result)
                return out
            S.append(("force_change=%s" % str(force).lower(), {"function": "llb_buildengine_task_is_complete", "parameter": "force_change",
                                                              "force_change": force}, ops, chk))

        # 2. must_follow: ordering only, no value ------------------------------------------------------------
        X, Y = b"X" + nul, b"Y" + nul
        ops = [rule(Y, value=val), rule(X, follow=[Y]), "engine new", "build " + hx(X), "engine destroy"]

        def chk2(tr):
            b = tr[3]
            out = []
            if b.ran(X) != 1 or b.ran(Y) != 1:
                out.append("must_follow key was not computed exactly once together with the task: " + b.line)
            elif not (b.index("run", Y) < b.index("run", X)):
                out.append("task ran before the key it must follow: " + b.line)
            if any(e[0] == "val" and e[1] == X for e in b.events):
                out.append("a must-follow key delivered a value to the task: " + b.line)
            return out
        S.append(("must_follow", {"function": "llb_buildengine_task_must_follow", "parameter": "key"}, ops, chk2))

        # 3. needs_input: key and input_id -------------------------------------------------------------------
        A, B1, B2 = b"A" + nul, b"in1" + nul, nul + b"in2"
        ops = [rule(B1, value=b"one\x00"), rule(B2, value=b"\x00two"), rule(A, ins=[B1, B2]), "engine new", "build " + hx(A), "engine destroy"]

        def chk3(tr):
            b = tr[4]
            got = sorted((e[2], e[3]) for e in b.events if e[0] == "val" and e[1] == A)
            want = [(7, b"one\x00"), (10, b"\x00two")]
            out = []
            if got != want:
                out.append("provide_value delivered %r, expected input ids with their values %r" % (got, want))
            if b.result != A + b"(one\x00,\x00two)":
                out.append("result bytes differ (NUL handling): %r" % b.result)
            return out
        S.append(("needs_input", {"function": "llb_buildengine_task_needs_input", "parameter": "key/input_id"}, ops, chk3))

        # 4. discovered dependency: considered the next time the rule is evaluated -----------------------------------
        for disc in (True, False):
            T, E = b"T" + (b"d" if disc else b"n") + nul, b"E" + (b"d" if disc else b"n") + nul
            ops = ["ext %s %s" % (hx(E), hx(b"e1")), rule(T, disc=[E] if disc else [], value=b"t"), "engine new", "build " + hx(T),
                   "build " + hx(T), "ext %s %s" % (hx(E), hx(b"e2\x00")), "build " + hx(T), "engine destroy"]

            def chk4(tr, disc=disc, T=T, E=E):
                b1, b2, b3 = tr[3], tr[4], tr[6]
                out = []
                if b1.ran(T) != 1:
                    out.append("first build: " + b1.line)
                if b2.ran(T) != 0:
                    out.append("nothing changed but the task re-ran: " + b2.line)
                want = 1 if disc else 0
                if b3.ran(T) != want:
                    out.append("after the %s input changed the task ran %d times, expected %d"
                               % ("discovered" if disc else "unrelated", b3.ran(T), want))
                return out
            S.append(("discovered_dependency=%s" % str(disc).lower(), {"function": "llb_buildengine_task_discovered_dependency", "parameter": "key",
                                                                      "reported": disc}, ops, chk4))

        # 5. attach_db: path and schema version --------------------------------------------------------------------
        db = os.path.join(dbdir, "c20.db").encode()
        R, I = b"R" + nul, b"I" + nul
        base = ["ext %s %s" % (hx(I), hx(b"i\x00v")), rule(R, ins=[I])]
        ops = base + ["engine new", "engine db %s 7" % hx(db), "build " + hx(R), "engine destroy",
                      "engine new", "engine db %s 7" % hx(db), "build " + hx(R), "engine destroy",
                      "engine new", "engine db %s 8" % hx(db), "build " + hx(R), "engine destroy",
                      "engine new", "build " + hx(R), "engine destroy"]

        def chk5(tr):
            out = []
            for i in (3, 7, 11):
                if tr[i].line != "ok":
                    out.append("attach_db failed: " + tr[i].line)
            b1, b2, b3, b4 = tr[4], tr[8], tr[12], tr[15]
            if b1.ran(R) != 1:
                out.append("first build with a fresh database: " + b1.line)
            if b2.ran(R) != 0 or b2.ran(I) != 0:
                out.append("same path, same schema version: stored results were not reused: " + b2.line)
            if b3.ran(R) != 1:
                out.append("same path, different schema version: stored results were reused: " + b3.line)
            if b4.ran(R) != 1:
                out.append("engine without a database reused results: " + b4.line)
            for b in (b1, b2, b3, b4):
                if b.result != R + b"(i\x00v)":
                    out.append("result bytes differ: %r" % b.result)
            if not os.path.exists(db.decode()):
                out.append("database was not created at the given path")
            return out
        S.append(("attach_db", {"function": "llb_buildengine_attach_db", "parameter": "path/schema_version"}, ops, chk5))
        return S

    def correspond(self, ctx, res):
        exe = ctx.exe[("vc20", "plain")]
        dbdir = os.path.join(C.BUILD, "scratch", "c20-%d" % os.getpid())
        os.makedirs(dbdir, exist_ok=True)
        scen = self.scenarios(ctx, dbdir)
        # seeded variation: the force_change scenario on random chains with random NUL-bearing keys/values
        rng = ctx.rng
        for i in range(200 if ctx.thorough else 40):
            n = 1 + rng.below(4)
            keys = [rng.bytes_from([0, 0x41, 0x42, 0xff, 0x20], 6, 1) + b"%d.%d" % (i, j) for j in range(n + 1)]
            v = rng.bytes_from([0, 0x61, 0xff], 5)
            force = rng.chance(1, 2)
            ops = [rule(keys[0], value=v, invalid=True, force=force)] + [rule(keys[j], ins=[keys[j - 1]]) for j in range(1, n + 1)] + \
                  ["engine new", "build " + hx(keys[n]), "build " + hx(keys[n]), "engine destroy"]

            def chk(tr, n=n, keys=keys, force=force, v=v):
                b2 = tr[n + 3]
                out = []
                want = 1 if force else 0
                # an unchanged value with force_change re-runs the direct dependent; that dependent's own value is then
                # unchanged and it does not force, so the chain stops there
                if b2.ran(keys[1]) != want:
                    out.append("task completed with an unchanged value and force_change=%s; its dependent ran %d times, expected %d"
                               % (str(force).lower(), b2.ran(keys[1]), want))
                for j in range(2, n + 1):
                    if b2.ran(keys[j]) != 0:
                        out.append("a task further down the chain re-ran although its input value did not change")
                exp = v
                for j in range(1, n + 1):
                    exp = keys[j] + b"(" + exp + b")"
                if b2.result != exp:
                    out.append("result bytes differ: %r vs %r" % (b2.result, exp))
                return out
            scen.append(("force_change=%s chain" % str(force).lower(), {"function": "llb_buildengine_task_is_complete", "parameter": "force_change",
                                                                       "force_change": force}, ops, chk))
        nontriv = 0
        for name, keys, ops, chk in scen:
            rc, out, err = C.run_lines([exe, "c20run"], ops)
            res.evaluations += 1
            if rc != 0 or len(out) != len(ops):
                res.mismatches.append({"stream": "c20run", "input": name, "impl": "exit %d, %d/%d lines %s" % (rc, len(out), len(ops), err[-200:])})
                continue
            tr = [Trace(l) if l.startswith("result=") else type("L", (), {"line": l})() for l in out]
            probs = chk(tr)
            nontriv += 1
            for p in probs:
                f = {"what": "C API scenario %s: %s" % (name, p), "scenario": name, "input": {"ops": ops, "output": out}}
                f.update(keys)
                res.oracle_failures.append(f)
        res.distinct_nontrivial += nontriv
        res.distribution["scenarios"] = len(scen)
        res.distribution["by_function"] = {}
        for name, keys, _, _ in scen:
            res.distribution["by_function"][keys["function"]] = res.distribution["by_function"].get(keys["function"], 0) + 1
        res.samples.append({"scenario": scen[0][0], "ops": scen[0][2]})
        res.rule = ("forwarding table: generated for all exported llb_buildengine_* functions and compared with the documented table by the "
                    "theorem (finite, complete). Scenarios through the public C API: one per documented parameter effect (force_change true/false, "
                    "must_follow, needs_input with input ids, discovered dependency reported/not, attach_db same/different schema version/no db), keys "
                    "and values with NUL/0xFF bytes, plus seeded force_change chains. Non-trivial = scenarios executed to the end.")
        res.exhaustive = True
        shutil.rmtree(dbdir, ignore_errors=True)

    def search(self, ctx, res, why):
        return   # the scenarios are the directed search: every documented parameter has one


CHECK = Check()
