"""C01 — incremental build result equals a from-scratch build."""
from .engine_common import EngineCheck

E = "LLBuild.Engine."


class Check(EngineCheck):
    prop = "C01"
    module = "LLBuild.Props.C01"
    theorems = [E + "C01_value", E + "C01_inputs", E + "C01_up_to_date_is_clean", E + "C01_value_dsl",
                E + "DSL.program_WF", E + "step_inv", E + "reach_inv", E + "C01_value_unique", E + "Clean_unique", E + "DSL.program_Det", E + "engine_fingerprint_matches_model"]
    mix = [(0.55, {}), (0.2, {"threads": True}), (0.25, {"cancel": True})]
    budget = (300, 3000)


CHECK = Check()
