"""C01 — incremental build result equals a from-scratch build."""
from .engine_common import EngineCheck

E = "LLBuild.Engine."


class Check(EngineCheck):
    prop = "C01"
    # Props/C01All.lean = Props/C01.lean (fixed client program) + Props/C01Gen.lean (the client program changes
    # between engine lifetimes: histories with `reprogram`, client obligations SigCovers + SelfStable)
    module = "LLBuild.Props.C01All"
    theorems = [E + "C01_value", E + "C01_inputs", E + "C01_up_to_date_is_clean", E + "C01_value_dsl",
                E + "DSL.program_WF", E + "step_inv", E + "reach_inv", E + "C01_value_unique", E + "Clean_unique", E + "DSL.program_Det", E + "engine_fingerprint_matches_model",
                E + "C01_value_gen", E + "C01_value_unique_gen", E + "C01_inputs_gen", E + "reachG_inv",
                E + "NeedSelfStable.C01_value_gen_needs_SelfStable",
                # the concrete engine model (transliteration of BuildEngineImpl): refinement and soundness, with and without description edits
                "LLBuild.Refine.refinement_final", "LLBuild.Refine.EngineImpl_sound_C01",
                "LLBuild.Refine.refinement_history_gen", "LLBuild.Refine.EngineImpl_sound_C01_gen",
                "LLBuild.Refine.EngineImpl_sound_C01_gen_fixed", "LLBuild.Refine.EngineImpl_sound_C01_gen_bounded",
                # stated on the concrete model's printed traces, every asynchronous schedule, histories with killed builds:
                # a build whose trace has `R v` and no X / CY / ER returned THE clean value of the concrete external state
                "LLBuild.Refine.EngineImpl_sound_C06_clean_value", "LLBuild.Refine.EngineImpl_sound_C06_clean_value_unique",
                "LLBuild.Refine.EngineImpl_sound_C06_ghost_flag",
                "LLBuild.Refine.EngineImpl_sound_all", "LLBuild.Refine.EngineImpl_sound_fail",
                E + "C01_value_gen_clamp", E + "DSL.PPof_SelfStable", E + "DSL.PPof_SigCovers_forces"]
    mix = [(0.4, {}), (0.2, {"threads": True}), (0.2, {"cancel": True}), (0.2, {"reprogram": True}),
           # directed: a scanning build cancelled from inside a callback, then an edit and a build on the same engine
           (0.15, {"cancelscan": True})]
    budget = (300, 3000)


CHECK = Check()
