"""C06 — outcome independent of completion order and threads; task protocol holds."""
from .engine_common import EngineCheck

E = "LLBuild.Engine."


class Check(EngineCheck):
    prop = "C06"
    module = "LLBuild.Props.C06"
    theorems = [E + "C06_start", E + "C06_prior", E + "C06_provide", E + "C06_inputs_available",
                E + "C06_inputs_complete_and_clean", E + "C06_schedule_independent_value",
                E + "engine_fingerprint_matches_model"]
    mix = [(0.5, {}), (0.5, {"threads": True})]
    budget = (300, 3000)
    cross_schedule = True
    assumptions = EngineCheck.assumptions + [
        "data races, lost wake-ups and deadlock are not expressible in the model: the lock/check/wait and lock/push/notify shapes are asserted by the fingerprint extractor, the free-threaded harness runs exercise them; no memory-model proof",
        "equality of the executed set across schedules is decided by the python oracle (same history, two schedules), not by a theorem"]


CHECK = Check()
