"""C06 — outcome independent of completion order and threads; task protocol holds."""
from .engine_common import EngineCheck

E = "LLBuild.Engine."
H = "LLBuild.Handshake."


class Check(EngineCheck):
    prop = "C06"
    module = "LLBuild.Props.C06All"
    theorems = [E + "C06_start", E + "C06_prior", E + "C06_provide", E + "C06_inputs_available",
                E + "C06_inputs_complete_and_clean", E + "C06_schedule_independent_value",
                E + "C06_schedule_independent_value_eq", E + "C06_dsl_deterministic", E + "Clean_unique", E + "engine_fingerprint_matches_model",
                H + "C06_handshake_shape_matches_code", H + "C06_no_lost_wakeup", H + "C06_mutual_exclusion",
                H + "C06_handoff_counts", H + "C06_no_deadlock", H + "C06_lost_wakeup_without_recheck",
                # refinement: every trace of the concrete engine model (all programs, schedules, cancellation points) is accepted
                "LLBuild.Refine.refinement_final", "LLBuild.Refine.refinement_build", "LLBuild.Refine.opOk_iff_noBad",
                "LLBuild.Refine.EngineImpl_sound_C01", "LLBuild.Refine.EngineImpl_sound_C02_once",
                "LLBuild.Refine.EngineImpl_sound_C05_quiescent",
                "LLBuild.Refine.build_terminates", "LLBuild.Refine.refinement_final_sized", "LLBuild.Refine.EngineImpl_terminates",
                # free-running completion threads / cancellation from any thread at every item boundary
                "LLBuild.Refine.runBuildA_refines", "LLBuild.Refine.refinement_final_async", "LLBuild.Refine.build_terminates_async",
                "LLBuild.Refine.EngineImpl_sound_C01_async", "LLBuild.Refine.EngineImpl_terminates_async",
                # schedule independence stated on the concrete model's PRINTED traces (Props/EngineImplSched.lean): two runs of
                # the next build under any hook / asynchronous schedules and cancellation points that both succeed return
                # the same value, the clean value of the concrete external state; the F22 ghost flag is a function of the traces
                "LLBuild.Refine.EngineImpl_sound_C06_schedule_independent", "LLBuild.Refine.EngineImpl_sound_C06_clean_value",
                "LLBuild.Refine.EngineImpl_sound_C06_clean_value_unique", "LLBuild.Refine.EngineImpl_sound_C06_ghost_flag",
                "LLBuild.Refine.EngineImpl_sound_C06_schedule_independent_partial", "LLBuild.Refine.EngineImpl_sound_C06_clean_value_partial",
                # … and the same SET of executed rules (Props/EngineImplSched2.lean): T k ∈ trace ↔ MustRun, a schedule-free reference
                "LLBuild.Refine.EngineImpl_sound_C06_same_executed_set", "LLBuild.Refine.EngineImpl_sound_C06_same_executed_set_nofail",
                "LLBuild.Refine.EngineImpl_sound_C06_executed_reference", "LLBuild.Refine.EngineImpl_sound_C06_in_order",
                "LLBuild.Refine.monitor_accepts_out_of_order",
                # the documented task protocol, clause by clause, on tokens of one printed trace (Props/EngineImplSched5.lean)
                "LLBuild.Refine.EngineImpl_sound_C06_task_protocol", "LLBuild.Refine.EngineImpl_sound_C06_values_delivered_are_clean",
                "LLBuild.Refine.EngineImpl_sound_C06_protocol_start", "LLBuild.Refine.EngineImpl_sound_C06_protocol_prior",
                "LLBuild.Refine.EngineImpl_sound_C06_protocol_provide", "LLBuild.Refine.EngineImpl_sound_C06_protocol_inputs_available",
                "LLBuild.Refine.EngineImpl_sound_C06_protocol_complete", "LLBuild.Refine.EngineImpl_sound_C06_protocol_completes",
                "LLBuild.Refine.EngineImpl_sound_C05_quiescent_async", "LLBuild.Refine.EngineImpl_async_nil"]
    mix = [(0.45, {}), (0.35, {"threads": True}), (0.2, {"foreign_cancel": True}),
           # directed: cancelled with several deferred tasks outstanding, two or more reported complete back-to-back
           (0.1, {"drain": True})]
    budget = (300, 3000)
    cross_schedule = True
    assumptions = EngineCheck.assumptions + [
        "completions and cancellation arriving from other threads: proved for every interleaving at ITEM granularity on the concrete engine model (refinement_final_async, build_terminates_async); that instruction-level interleavings of the C++ reduce to those (shared state: finishedTaskInfos under its mutex, the completing rule's own result, the atomic buildCancelled) is an assumption about the C++ memory model (notes/REFINE.md section 9)",
        "lost wake-ups, deadlock and exactly-once hand-off are proved at LOCK GRANULARITY on a model of the two critical sections (Model/Handshake.lean) whose shape parameters are read from the source by the fingerprint extractor; data races below lock granularity (C++ memory model) are not expressible; the free-threaded harness runs exercise the real code",
        "equality of the executed set across schedules: a theorem for successful builds of the concrete engine model (EngineImpl_sound_C06_same_executed_set, through the schedule-free reference MustRun and the in-order guards evOkX, which are also enforced on every real trace); on the real engine additionally the python oracle (same history, two schedules); the executed set of a cancelled / failed build does depend on the schedule and is not compared",
        "refinement_final: hypotheses RulesOk (request kinds <= 2, ids <= kMaximumInputID, ids distinct within a rule) and histOk (no build emits the concrete model's FUEL/BAD markers), which refinement_final_sized replaces by the computable size condition histSized (workBound + 2 < scanFuel at every build; build_terminates); the concrete model does not cover injected database write failures, forked crashes, free-running completion threads, or a delegate that resolves cycles"]


CHECK = Check()
