"""Shared check for the engine properties C01, C02, C05, C06, C07: the real core::BuildEngine is
driven by harness/vengine through generated DSL programs and histories; every build's event trace is
(1) replayed through the Lean monitor `llbuild-model enginecheck` (the abstract engine whose accepted
traces the theorems are about) and (2) judged by the python oracles of vlib/engine.py."""
import glob, os
from .. import common as C
from .. import engine as E
from ..runner import PropertyCheck

KINDS = {
    "C01": {"stale-result", "stale-input", "bad-deps-record"},
    "C02": {"ran-twice", "false-reason", "null-build-ran", "bad-deps-record"},
    "C05": {"callback-after-return", "leak", "cancel-ignored", "stall", "crash", "stale-result", "stale-input", "queue-lifetime"},
    "C06": {"protocol", "schedule-dependent", "queue-lifetime", "stall"},
    "C07": {"bad-cycle", "missed-cycle", "false-cycle", "stall", "crash", "spurious-failure"},
}


def parse_rule(line):
    n = [int(x) for x in line.split()[1:]]
    i = 0
    r = E.Rule(n[0], n[1])
    r.sigBase, r.validMode, r.validArg, r.force, r.deferred, r.vmod = n[2:8]
    i = 8
    ns = n[i]; i += 1
    for _ in range(ns):
        r.statics.append(tuple(n[i:i + 3])); i += 3
    nw = n[i]; i += 1
    for _ in range(nw):
        c = tuple(n[i:i + 4]); i += 4
        nr = n[i]; i += 1
        reqs = []
        for _ in range(nr):
            reqs.append(tuple(n[i:i + 3])); i += 3
        r.whens.append((c, reqs))
    nd = n[i]; i += 1
    for _ in range(nd):
        c = tuple(n[i:i + 4]); i += 4
        r.discs.append((c, n[i])); i += 1
    return r


def case_from_lines(lines):
    """parse a corpus file (harness op lines: W, P n, R..., M, E, B, O)"""
    rules, ops = {}, []
    i = 0
    while i < len(lines):
        t = lines[i].split()
        if not t:
            i += 1
            continue
        if t[0] == "P":
            for l in lines[i + 1:i + 1 + int(t[1])]:
                r = parse_rule(l)
                rules[r.key] = r
            i += 1 + int(t[1])
            continue
        if t[0] == "M":
            ops.append({"op": "M", "slot": int(t[1]), "val": int(t[2])})
        elif t[0] == "E":
            ops.append({"op": "E"})
        elif t[0] == "B":
            n = [int(x) for x in t[1:]]
            items, j = [], 4
            for _ in range(n[3]):
                cf, c = n[j], n[j + 1]
                items.append((cf, n[j + 2:j + 2 + c]))
                j += 2 + c
            ops.append({"op": "B", "key": n[0], "cancel_at": n[1], "mode": n[2], "items": items})
        i += 1
    return E.Case(rules, ops)


class EngineCheck(PropertyCheck):
    harnesses = [("vengine", "plain")]
    extractors = ["x_enginefp"]
    focus = "all"
    # (fraction of the case budget, generator options)
    mix = [(1.0, {})]
    budget = (250, 2500)          # quick, thorough
    cross_schedule = False
    assumptions = [
        "Client hypotheses Program.WF (DESIGN.md §4.3): tasks are functions of the values they receive and of the external state at the keys they report as discovered dependencies; discovered dependencies are input rules; external state is frozen during a build",
        "ghost hypothesis pendingDropped = false (known finding F22: a failed/cancelled build that ends while a discovered dependency of an already finished task is still waiting to be brought up to date)",
        "the database is the observing in-memory BuildDB of the harness (SQLite's behaviour is C03/C04); epochs are unbounded naturals",
        "the abstract engine is tied to lib/Core/BuildEngine.cpp by replaying the real engine's event traces (trace inclusion), not by translation; internal queue order is not modelled",
    ]
    trusted_base = ["harness/vengine.cpp (DSL rules/tasks, observing BuildDB, hook-driven schedules)",
                    "Model/EngineImpl.lean: hand transliteration of BuildEngineImpl (queues, scan records, cycle search, cancellation), required to predict every deterministic-mode trace of the real engine exactly (stream engineimpl)",
                    "vlib/engine.py generators and python oracles (independent DSL interpreter)",
                    "extract/x_enginefp.py (structural fingerprint of the anchored engine lines)"]

    def gen_cases(self, ctx, n, bias=False):
        rng = ctx.rng
        cases = []
        for frac, opts in self.mix:
            m = max(1, int(n * frac))
            for _ in range(m):
                o = dict(opts)
                if o.pop("latent", False):
                    cases.append(E.gen_latent_cycle(rng) if rng.chance(2, 3) else E.gen_self_discovery(rng))
                    continue
                if o.pop("cancelscan", False):
                    cases.append(E.gen_cancel_scan(rng))
                    continue
                if o.pop("drain", False):
                    cases.append(E.gen_cancel_drain(rng))
                    continue
                nk = 4 + rng.below(9 if not ctx.thorough else 14)
                rules = E.gen_program(rng, nk, cyclic=o.pop("cyclic", False), malformed=o.pop("malformed", False),
                                      mustfollow=o.pop("mustfollow", bias))
                nops = 2 + rng.below(8 if not ctx.thorough else 16)
                if bias:
                    o.setdefault("cancel", True)
                ops = E.gen_history(rng, rules, nops, **o)
                cases.append(E.Case(rules, ops))
        return cases

    def corpus_cases(self):
        out = []
        for p in sorted(glob.glob(os.path.join(C.VERIF, "corpus", self.prop, "*.ops")) +
                        glob.glob(os.path.join(C.VERIF, "corpus", "engine", "*.ops"))):
            try:
                out.append((os.path.basename(p), case_from_lines(open(p).read().split("\n"))))
            except Exception as e:      # a malformed corpus file is a developer error, not a verdict
                C.log("corpus file %s unreadable: %s" % (p, e))
        return out

    def run_cases(self, ctx, res, cases, names=None):
        exe = ctx.exe[("vengine", "plain")]
        houts, problems = E.run_harness(exe, cases)
        for pr in problems:
            c = cases[pr["case"]]
            kind = "stall" if pr["rc"] == 3 or pr["rc"] == -9 else "crash"
            res.oracle_failures.append({
                "what": "the engine %s while running a history (harness exit %s); last output: %s" % (
                    "stalled" if kind == "stall" else "crashed", pr["rc"], " | ".join(pr["partial"])[-400:]),
                "kind": kind, "input": {"ops": c.harness_lines()}})
        good = [(i, c, h) for i, (c, h) in enumerate(zip(cases, houts)) if h is not None]
        if not good:
            return
        rc, mouts, err = E.run_model([c for _, c, _ in good], [h for _, _, h in good])
        if rc != 0:
            res.mismatches.append({"stream": "enginecheck", "input": "model driver exit %d" % rc, "model": err[-300:]})
            return
        st_tot = res.distribution.setdefault("engine", {})
        for (i, c, h), m in zip(good, mouts):
            dropped = any(l.endswith("dropped") for l in m)
            wf = any(l.startswith("ok wf") for l in m)
            st_tot["det_programs"] = st_tot.get("det_programs", 0) + (1 if any(l.startswith("ok ") and l.endswith(" det") for l in m) else 0)
            st_tot["wf_programs"] = st_tot.get("wf_programs", 0) + (1 if wf else 0)
            st_tot["histories_with_dropped_pending"] = st_tot.get("histories_with_dropped_pending", 0) + (1 if dropped else 0)
            rej = [l for l in m if l and not l.startswith("ok")]
            if rej and len(res.mismatches) < 20:
                bad_line = next((x for x, o in zip([l for l in E.model_lines(c, h) if not l.startswith("R ")], m) if o and not o.startswith("ok")), "")
                C.log("monitor rejected: %s\n   trace: %s" % (rej[:2], bad_line[:3000]))
                res.mismatches.append({"stream": "enginecheck", "input": {"ops": c.harness_lines(), "rejected_trace": bad_line},
                                       "model": rej[:3], "impl": "trace produced by the real engine"})
            fails, st = E.analyse_case(c, h, "all")
            for k, v in st.items():
                if isinstance(v, int):
                    st_tot[k] = st_tot.get(k, 0) + v
                else:
                    d = st_tot.setdefault(k, {})
                    for kk, vv in v.items():
                        d[str(kk)] = d.get(str(kk), 0) + vv
            for f in fails:
                if f["kind"] == "reference-mismatch":
                    if len(res.mismatches) < 20:
                        res.mismatches.append({"stream": "python-reference", "input": {"ops": c.harness_lines()}, "model": f["what"]})
                    continue
                if f["kind"] not in KINDS[self.prop]:
                    continue
                f = dict(f)
                f["pending_discovered_dropped"] = dropped
                # F22 needs a FAILED or CANCELLED build before the stale result (a pending discovered dependency can only be
                # dropped by one; a successful build that returns with one pending is rejected by the monitor)
                upto = f.get("input", {}).get("case_op") if isinstance(f.get("input"), dict) else None
                failed_before, li = False, 2
                for oi, o in enumerate(c.ops):
                    if upto is not None and oi >= upto:
                        break
                    if o["op"] in ("B", "K"):
                        tr = h[li] if li < len(h) else ""
                        if o["op"] == "K" or any(e.split()[:1] in (["X"], ["CY"], ["ER"]) for e in tr.split(" ; ")):
                            failed_before = True
                        li += 2 if o["op"] == "B" else 1
                    else:
                        li += 1
                f["after_failed_build"] = failed_before
                f["input"] = {"where": f["input"], "ops": c.harness_lines()}
                res.oracle_failures.append(f)
            res.evaluations += 1
            if st["tasks"] > 0 and st["builds"] > 1:
                res.distinct_nontrivial += 1
            if len(res.samples) < 3:
                res.samples.append({"ops": c.harness_lines()[:14], "first_trace": next((x for x in h if x.startswith("B ")), "")[:400]})
        self.run_impl_model(ctx, res, [c for _, c, _ in good], [h for _, _, h in good])
        if self.cross_schedule:
            self.run_cross(ctx, res, [c for _, c, _ in good], [h for _, _, h in good])

    def run_impl_model(self, ctx, res, cases, houts):
        """the concrete engine model (Model/EngineImpl.lean, a transliteration of BuildEngineImpl with its
        queues) must PREDICT the real engine's output line for line in the deterministic (hook-driven)
        mode; builds with free-running threads are outside it (`unsupported`); of a build killed in a forked child the model predicts the recorded prefix (`killedTrace`)"""
        from .. import engine_impl as EI
        lines = []
        for c in cases:
            lines += c.harness_lines()
        rc, out, err = EI.run_lines(EI.model_cmd() + ["engineimpl"], lines)
        st = res.distribution.setdefault("engine_impl_model", {"builds_predicted_exactly": 0, "other_lines_equal": 0, "outside_model": 0, "disagreements": 0})
        if rc != 0 or len(out) != sum(len(h) for h in houts):
            res.mismatches.append({"stream": "engineimpl", "input": "model driver exit %s, %d lines" % (rc, len(out)), "model": err[-300:]})
            return
        pos = 0
        for c, h in zip(cases, houts):
            m = out[pos:pos + len(h)]
            pos += len(h)
            for j, (a, b) in enumerate(zip(m, h)):
                if a == "unsupported":
                    st["outside_model"] += 1
                    continue
                if a == b:
                    if b.endswith("KILL"):
                        st["killed_builds_predicted_exactly"] = st.get("killed_builds_predicted_exactly", 0) + 1
                    else:
                        st["builds_predicted_exactly" if b.startswith("B ") else "other_lines_equal"] += 1
                    continue
                st["disagreements"] += 1
                if len([x for x in res.mismatches if x.get("stream") == "engineimpl"]) < 10:
                    i, me, ie = EI.first_difference(a, b)
                    C.log("concrete model disagrees with the engine at event %d: model `%s`, engine `%s`" % (i, me, ie))
                    res.mismatches.append({"stream": "engineimpl", "input": {"ops": c.harness_lines(), "output_line": j, "first_difference_index": i},
                                           "model": me + "   | " + a[:600], "impl": ie + "   | " + b[:600]})
                break

    def run_cross(self, ctx, res, cases, houts):
        """C06(b): the same histories under different completion schedules / threads give the same
        values and the same executed sets"""
        import copy
        rng = C.Rng(ctx.seed, self.prop + "/cross")
        sel = [(c, h) for c, h in zip(cases, houts) if not any(o["op"] == "B" and (o["cancel_at"] or any(i[0] for i in o["items"])) for o in c.ops)]
        sel = sel[:max(20, len(sel) // 3)]
        alt = []
        for c, h in sel:
            c2 = copy.deepcopy(c)
            derived = [k for k in c2.rules if c2.rules[k].kind == 1] or list(c2.rules)
            for o in c2.ops:
                if o["op"] == "B":
                    o["items"] = [(0, [rng.choice(derived) for _ in range(rng.below(3))]) for _ in range(rng.below(12))]
                    o["mode"] = 1 if rng.chance(1, 3) else 0
            alt.append(c2)
        h2, problems = E.run_harness(ctx.exe[("vengine", "plain")], alt)
        n = 0
        for (c, h), c2, hh in zip(sel, alt, h2):
            if hh is None:
                continue
            n += 1

            def summary(hs):
                out = []
                for l in hs:
                    if l.startswith("B "):
                        ev = E.parse_trace(l)
                        out.append((next((e[1] for e in ev if e[0] == "R"), None), sorted(int(e[1]) for e in ev if e[0] == "T")))
                return out
            a, b = summary(h), summary(hh)
            if a != b:
                res.oracle_failures.append({"what": "the same history gave different results or executed sets under two completion schedules: %s vs %s" % (a, b),
                                            "kind": "schedule-dependent", "input": {"ops": c.harness_lines(), "ops_alt": c2.harness_lines()}})
        res.distribution.setdefault("engine", {})["cross_schedule_pairs"] = n

    @staticmethod
    def failed_build_sandwich(rng, rules):
        keys = sorted(rules)
        inputs = [k for k in keys if rules[k].kind == 0]
        derived = [k for k in keys if rules[k].kind == 1] or keys
        tgt = rng.choice(derived)
        stamp = 100
        ops = []
        for k in inputs:
            stamp += 1
            ops.append({"op": "M", "slot": k, "val": stamp})

        def build(cancel_at):
            items = [(0, [rng.choice(derived) for _ in range(rng.below(3))]) for _ in range(rng.below(8))]
            return {"op": "B", "key": tgt, "cancel_at": cancel_at, "mode": 0, "items": items}

        cur = {o["slot"]: o["val"] for o in ops}

        def touch():
            nonlocal stamp
            for _ in range(1 + rng.below(3)):
                if inputs:
                    stamp += 1
                    k = rng.choice(inputs)
                    cur[k] = stamp
                    ops.append({"op": "M", "slot": k, "val": stamp})
        ops.append(build(0))
        for _ in range(1 + rng.below(3)):
            at_last_complete = dict(cur)
            touch()
            ops.append(build(2 + rng.below(30)))
            c = rng.below(3)
            if c == 0:
                touch()
            elif c == 1:
                # the edits are taken back: rows the failed build did not overwrite are valid again, while the engine that
                # lived through it holds the rules that were in flight as never built
                for k in sorted(cur):
                    if cur[k] != at_last_complete[k]:
                        cur[k] = at_last_complete[k]
                        ops.append({"op": "M", "slot": k, "val": cur[k]})
            ops.append(build(0))
        return ops

    def run_restart_split(self, ctx, res, n):
        """C03 (engine level): every history is executed once in a single engine and once with an
        engine restart (new engine, same database) inserted at every build boundary; whenever a build
        succeeds in both, the two return the same value, and as long as no build has failed or been
        cancelled in either variant they execute the same tasks."""
        import copy
        rng = C.Rng(ctx.seed, self.prop + "/restart-split")
        single, split = [], []
        for i in range(n):
            nk = 4 + rng.below(9 if not ctx.thorough else 14)
            rules = E.gen_program(rng, nk, cyclic=rng.chance(1, 4))
            ops = E.gen_history(rng, rules, 3 + rng.below(8 if not ctx.thorough else 14), cancel=rng.chance(1, 3),
                                allow_restart=False)
            if i % 3 == 1:
                # directed: one target, and between two complete builds of it a build that fails (cancelled early
                # or late) with inputs changing on either side — what a failed build persists matters only here.
                # Some INPUT rules complete late (deferred), so that an input can be in flight when the build is cancelled.
                for k in rules:
                    if rules[k].kind == 0 and rng.chance(1, 2):
                        rules[k].deferred = 1
                ops = self.failed_build_sandwich(rng, rules)
            # every third history runs on the real SQLite database (both variants), the others on the observing one
            sq = (i % 3 == 2)
            single.append(E.Case(rules, ops, sqlite=sq))
            ops2 = []
            for o in ops:
                if o["op"] == "B":
                    ops2.append({"op": "E"})
                ops2.append(copy.deepcopy(o))
            split.append(E.Case(rules, ops2, sqlite=sq))
        exe = ctx.exe[("vengine", "plain")]
        h1, pr1 = E.run_harness(exe, single)
        h2, pr2 = E.run_harness(exe, split)
        for pr, cs in ((pr1, single), (pr2, split)):
            for x in pr:
                res.oracle_failures.append({"what": "the engine stalled or crashed while running a history (harness exit %s)" % x["rc"],
                                            "kind": "stall" if x["rc"] in (3, -9) else "crash", "input": {"ops": cs[x["case"]].harness_lines()}})

        def builds(hs):
            out = []
            for l in hs:
                if l.startswith("B "):
                    ev = E.parse_trace(l)
                    r = next((e[1] for e in ev if e[0] == "R"), None)
                    failed = any(e[0] in ("X", "CY", "ER") for e in ev)
                    out.append((r, failed, sorted(int(e[1]) for e in ev if e[0] == "T")))
            return out
        compared = same_exec = after_failed = 0
        for c1, c2, a, b in zip(single, split, h1, h2):
            if a is None or b is None:
                continue
            clean = True
            for i, (x, y) in enumerate(zip(builds(a), builds(b))):
                if x[1] or y[1]:
                    clean = False
                    continue
                compared += 1
                if x[0] != y[0]:
                    res.oracle_failures.append({
                        "what": "build %d of a history returns %s in a single engine and %s when the engine is restarted at every build boundary" % (i, x[0], y[0]),
                        "kind": "restart-changes-result", "input": {"ops": c1.harness_lines(), "ops_split": c2.harness_lines()}})
                elif clean:
                    # (after a failed or cancelled build the two variants are no longer in comparable states: the cancellation
                    # point is an event index, and a restarted engine prints other events; see the aligned variant below)
                    same_exec += 1
                    if x[2] != y[2]:
                        res.oracle_failures.append({
                            "what": "build %d of a history executes %s in a single engine and %s when the engine is restarted at every build boundary" % (i, x[2], y[2]),
                            "kind": "restart-changes-executions", "after_failed_build": False,
                            "input": {"ops": c1.harness_lines(), "ops_split": c2.harness_lines()}})
        # aligned variant: a restart inserted ONLY right after each build that failed or was cancelled in the single-engine run, so
        # the failed build itself is identical in both variants and the next build meets the same database, once with the engine
        # that lived through the failure and once with a new one
        aligned, idx = [], []
        for n, (c1, a) in enumerate(zip(single, h1)):
            if a is None:
                continue
            bs = builds(a)
            if not any(x[1] for x in bs[:-1]):
                continue
            ops2, bi = [], 0
            for o in c1.ops:
                ops2.append(copy.deepcopy(o))
                if o["op"] == "B":
                    if bs[bi][1]:
                        ops2.append({"op": "E"})
                    bi += 1
            aligned.append(E.Case(c1.rules, ops2, sqlite=c1.sqlite))
            idx.append(n)
        h3, pr3 = E.run_harness(exe, aligned) if aligned else ([], [])
        for n, c3, b in zip(idx, aligned, h3):
            if b is None:
                continue
            prev_failed = False
            for i, (x, y) in enumerate(zip(builds(h1[n]), builds(b))):
                if prev_failed and not x[1] and not y[1]:
                    after_failed += 1
                    if x[0] != y[0]:
                        res.oracle_failures.append({
                            "what": "build %d, the one after a failed build, returns %s on the engine that lived through the failure and %s on a new engine over the same database" % (i, x[0], y[0]),
                            "kind": "restart-changes-result", "after_failed_build": True, "input": {"ops": single[n].harness_lines(), "ops_split": c3.harness_lines()}})
                    elif x[2] != y[2]:
                        res.oracle_failures.append({
                            "what": "build %d, the one after a failed build, executes %s on the engine that lived through the failure and %s on a new engine over the same database" % (i, x[2], y[2]),
                            "kind": "restart-changes-executions", "after_failed_build": True,
                            "living_engine_executes_superset": set(y[2]) <= set(x[2]),
                            "input": {"ops": single[n].harness_lines(), "ops_split": c3.harness_lines()}})
                if prev_failed:
                    # only the build right after the FIRST restart is comparable: up to the first failed build the two variants
                    # are the same deterministic run; after the restart a later cancellation (an event index) hits the two
                    # engines at different points even when the build summaries agree
                    break
                if x != y:
                    break
                prev_failed = x[1]
        res.evaluations += compared
        res.distinct_nontrivial += same_exec
        res.distribution["restart_split"] = {"histories": n, "on_sqlite": sum(1 for c in single if c.sqlite), "builds_compared": compared,
                                             "builds_with_executions_compared": same_exec, "of_which_after_a_failed_build": after_failed}

    def correspond(self, ctx, res):
        corp = self.corpus_cases()
        if corp:
            self.run_cases(ctx, res, [c for _, c in corp])
            res.distribution["corpus_cases"] = len(corp)
        n = self.budget[1] if ctx.thorough else self.budget[0]
        self.run_cases(ctx, res, self.gen_cases(ctx, n))
        res.rule = ("seeded DSL programs (4-12 keys; thorough 4-17: static, value-dependent dynamic, discovered, single-use and must-follow "
                    "requests; always/never/flag validity; forced and deferred completions) x histories of mutate/build/restart (+cancel at "
                    "events or hook points, cyclic graphs, free-running completion threads, per the property's mix), each build with a random "
                    "hook-driven completion schedule; every trace replayed through the Lean monitor and judged by the python oracles. "
                    "Non-trivial = a history with more than one build in which at least one task ran.")

    def search(self, ctx, res, why):
        # directed search: ten times the budget, biased towards cancellation, dynamic and discovered requests
        n = (self.budget[1] if ctx.thorough else self.budget[0]) * 10
        n = min(n, 6000)
        sub = type("X", (), {})()
        sub.__dict__.update(ctx.__dict__)
        sub.rng = C.Rng(ctx.seed, self.prop + "/search")
        before = len(res.oracle_failures)
        self.run_cases(sub, res, self.gen_cases(sub, n, bias=True))
        res.extra["search_cases"] = n
        res.extra["search_found"] = len(res.oracle_failures) - before
